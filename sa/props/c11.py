"""C11  Distributed power = regular target + operating-point target, in bounds.

Every rule is decided by symbolic interpretation (fork-and-replay, `_c11_util.ActorInterp`) of the
anchored methods of PowerManagingActor, so the verdict depends on what the code computes, not on
local names, statement shapes, keyword vs positional arguments or whether a piece lives in a
private helper (helpers are interpreted, the other anchors are recorded as opaque events):

The actor's methods are bound by *role* (`_c11_util.resolve_roles`: who calls them / what they
reach), the historical names below are only hints, so a renamed anchor - or the calculator inlined
into the sending method ("combined mode") - is still analysed; exit 2 only if no method plays a role.

* _calculate_target_power over: proposal kind x stored target present/absent per group x each
  `calculate_target_power` call returning {a new target, None = unchanged}.  Every abstract path
  is checked for C11.SUM (returned power == sum of both groups' *current* targets) and C11.SHIFT
  (the second-computed group gets the system bounds shifted by the *current* target of the first,
  the first-computed group the cached system bounds themselves - never a shifted copy).
* Matryoshka.calculate_target_power (the resolver contract that model relies on) over bucket
  absent/empty/non-empty x stored target x proposal x validation x fresh == stored x
  must_return_power: None only if the group has no bucket or the target was recomputed from (its
  bucket, the bounds argument) and equals the stored one; a returned target is fresh and stored.
  Who-may-write (check_state_writers): the stored target is written by nothing but that method
  (and helpers that run only as part of it), a bucket once created is never removed.
* _calculate_shifted_bounds over shift None/present x inclusion/exclusion bounds None/present: both
  inclusion bounds minus the same power (linear terms), exclusion bounds passed through.
* C11.REQ: who may build a Request / use the requests sender (only _send_updated_target_power and
  helpers referenced from nowhere else); _send_updated_target_power sends
  Request(power=<result of the one _calculate_target_power call for its own arguments>, same ids)
  iff that result is not None; _bounds_tracker has every received message in the cache when it
  recomputes and reports; _send_reports computes regular statuses in the op-shifted bounds and serves each
  subscription table from the resolver of the same group.  The interpreter gives meaning to methods of power
  values (`isclose` = forked fact), `Power.zero()`, `min`/`max`/`abs`, scaling and comparisons of linear
  combinations, so a power that is adjusted after the sum was formed (pushed out of the exclusion zone,
  clamped, scaled) is reported as "not the computed target", not as unreadable code.
* Reported target (check_reported_target): the `target_power` of every _Report built by Matryoshka.get_status,
  evaluated by the resolver interpreter (with the statements that define its locals) over bucket absent /
  empty / non-empty x stored target absent / present, is the stored target in every reachable state.
* Group naming (check_group_naming): a group is (component ids, operating-point flag).  Every class of the
  package that builds both a proposal and a report subscription passes the flag explicitly and takes flag and
  component ids of the subscription from the same source as those of its proposals (dataflow through locals
  and helper parameters); the event loop files a subscription in the table its flag names.
"""
from __future__ import annotations

import ast
from typing import Any, cast

from ..engine.absint import Infeasible, Obj
from ..engine.cfg import CFG
from ..engine.normalize import ANCHOR_NAMES, inline_helpers, normalize, positional
from ..engine.report import AnalysisError, Run
from ..engine.resolver import ClassInfo, FuncInfo, Program
from ..engine.util import method_call, nodes_with_call, normal_edge, u
from ._c11_util import (ALGO, BUCKETS_ATTR, FLAG_ATTR, GROUP_KEY, MATRYOSHKA, REQ_SENDER_ATTR, STORE_ATTR, SUBS_ATTRS,
                        ActorInterp, Flag, ResolverInterp, Sym, arm_group_uses, canonical_source, channel_key_findings, construction_sites, dataclass_fields,
                        foreign_attr_ref, group_message_classes, is_empty_mapping, is_shift, lin_of, mapping_uses,
                        message_args, opaque_for, reachable_methods, resolve_roles, self_attr_ref,
                        structural_controls, table_choices)

ACTOR = "microgrid._power_managing._power_managing_actor:PowerManagingActor"
MODULE = "microgrid._power_managing._power_managing_actor"
Roles = dict[str, FuncInfo]  # role -> the method that plays it (see _c11_util.resolve_roles)


def _desc(out: Any) -> str:
    return "; ".join(f"{lab}={d}" for lab, d in zip(out.labels, out.decisions))


def _is_sb(v: Any, ids: Any) -> bool:
    """The cached system bounds of the group (as read from self._system_bounds)."""
    return isinstance(v, Obj) and v.cls == "SB" and v.fields.get("ids") is ids


# =============================================================================== C11.SUM / SHIFT
def _requested_power(out: Any, ids: Any) -> tuple[bool, Any, str]:
    """Combined mode (the computation lives in the sending method): the power of the path is what
    is put into the one Request sent, None if nothing is sent.  -> (well-formed, power, why not)"""
    reqs = [e for e in out.state["events"] if e["kind"] == "request"]
    if not reqs:
        return True, None, ""
    r = reqs[0]["value"]
    if len(reqs) > 1:
        return False, None, f"{len(reqs)} requests are sent on one path"
    if not (isinstance(r, Obj) and r.cls == "Request" and r.fields.get("component_ids") is ids):
        return False, None, f"the request sent is `{r!r}`: not a Request for the same component ids"
    return True, r.fields.get("power"), ""


def check_calc(run: Run, prog: Program, roles: Roles) -> None:
    cls = prog.cls(ACTOR)
    fn = roles["calc"]
    combined = fn is roles["su"]  # no separate calculator: requests are built where the sum is formed
    run.analysed(fn.qual)
    interp = ActorInterp(prog, cls, opaque=opaque_for(roles, fn))

    def make_args() -> dict[str, Any]:
        kind = interp.choose(3, "proposal kind")  # 0: None, 1: regular, 2: operating point
        proposal = None if kind == 0 else Obj("Proposal", set_operating_point=(kind == 2))
        # stored targets of either group before the call: absent or present
        for g in ("op", "reg"):
            if interp.choose(2, f"stored {g} target exists") == 1:
                interp.stored[g] = Sym(f"T_{g}_old")
        interp.ids = Sym("ids")
        interp.inputs = {"ids": interp.ids}
        # parameters are bound by position: (component ids, proposal, must-send flag)
        return interp.bind_args(fn.node, [interp.ids, proposal, Flag("must_send")], {},
                                self_value=interp.self_obj())

    outs = interp.explore(fn.node, make_args)
    if len(outs) < 24:
        raise AnalysisError(f"{fn.qual}: only {len(outs)} abstract paths explored")
    n_changed = 0
    for out in outs:
        desc = _desc(out)
        if out.kind != "return":
            run.violation("C11.SUM", fn.qual, "raise", f"path raises {out.value}: {desc}",
                          node=out.raise_node or fn.node, file=fn.file)
            continue
        st = out.state
        stored = st["stored"]
        if combined:
            ok, value, why = _requested_power(out, st["inputs"].get("ids"))
            if not ok:
                run.violation("C11.REQ", fn.qual, "Request(power=target_power, component_ids=component_ids)",
                              f"{why} ({desc})", node=fn.node, file=fn.file)
                continue
            out.value = value
        calls = [e for e in st["events"] if e["kind"] == "recalc"]
        groups_called = [c["group"] for c in calls]
        run.check(sorted(groups_called) == ["op", "reg"], "C11.SUM", fn.qual,
                  "both groups recalculated exactly once",
                  f"groups recalculated on this path: {groups_called} ({desc})",
                  node=fn.node, file=fn.file, instance=f"both groups recalculated: {desc}")
        if sorted(groups_called) != ["op", "reg"]:
            continue
        # proposal routed to its own group only
        for c in calls:
            p = c["proposal"]
            if p is not None:
                if not (isinstance(p, Obj) and p.cls == "Proposal"):
                    raise AnalysisError(f"{fn.qual}: proposal argument {p!r} not recognised")
                want = "op" if p.fields["set_operating_point"] else "reg"
                run.check(c["group"] == want, "C11.SUM", fn.qual, c["node"],
                          f"a {'operating-point' if want == 'op' else 'regular'} proposal is "
                          f"handed to the {c['group']} group", node=c["node"], file=fn.file,
                          instance=f"proposal routed to {want} group: {desc}")
        any_new = any(c["result"] is not None for c in calls)
        expected = {v.name: 1 for v in stored.values() if v is not None}
        got = lin_of(out.value)
        ret_node = st["ret_node"] if st["ret_node"] is not None else fn.node
        if combined:  # the construct is the request that carries the power
            ret_node = next((e["node"] for e in st["events"] if e["kind"] == "request"), ret_node)
        if got is None:
            run.violation("C11.SUM", fn.qual, "return", f"unrecognised return value {out.value!r}",
                          node=ret_node, file=fn.file)
            continue
        if any_new:
            n_changed += 1
            ok = got == expected
            run.check(ok, "C11.SUM", fn.qual, ret_node,
                      f"a group's target changed but the returned power is `{out.value}` while the "
                      f"targets currently reported are {{{', '.join(sorted(expected))}}} — "
                      "`None` from calculate_target_power means *unchanged*, the stored target "
                      f"still applies and must be part of the request. Path: {desc}",
                      node=ret_node, file=fn.file,
                      instance=f"request = sum of current targets: {desc}")
        else:
            ok = out.value is None or got == expected
            run.check(ok, "C11.SUM", fn.qual, "return when nothing changed",
                      f"nothing changed but `{out.value}` is returned: {desc}", node=fn.node,
                      file=fn.file, instance=f"nothing changed -> no/unchanged request: {desc}")
        # SHIFT: second call's bounds are the system bounds shifted by the first group's
        # *current* target
        first, second = calls
        cur_first = stored_after(first)
        ids = st["inputs"].get("ids")
        b2 = second["bounds"]
        ok = False
        why = ""
        if is_shift(b2) and _is_sb(b2.fields["base"], ids):
            by = b2.fields["by"]
            ok = (by is cur_first) or (by is None and cur_first is None)
            why = (f"shift is `{by}` but the {first['group']} group's current target is "
                   f"`{cur_first}`")
        elif _is_sb(b2, ids):
            ok = cur_first is None
            why = f"unshifted system bounds although the {first['group']} target is `{cur_first}`"
        else:
            why = f"bounds argument {b2!r} not recognised"
        run.check(ok, "C11.SHIFT", fn.qual, second["node"],
                  f"the {second['group']} group is recalculated within bounds that do not account "
                  f"for the other group's current target: {why} (so target sum can leave the "
                  f"system bounds). Path: {desc}", node=second["node"], file=fn.file,
                  instance=f"second group bounds shifted by first group's current target: {desc}")
        # the group computed FIRST gets the cached system bounds themselves: nothing has been
        # settled in this step yet that they could be shifted by (the other group's stored target
        # is about to be recomputed and is stale once its last proposal expired)
        b1 = first["bounds"]
        if _is_sb(b1, ids):
            ok1, why1 = True, ""
        elif is_shift(b1) and _is_sb(b1.fields["base"], ids):
            by1 = b1.fields["by"]
            ok1 = by1 is None
            other = "op" if first["group"] == "reg" else "reg"
            what = (f"the {other} group's stored target" if by1 is second["stored_before"]
                    else f"the {first['group']} group's own stored target"
                    if by1 is first["stored_before"] else "a value")
            why1 = (f"the {first['group']} group is recalculated first, within the system bounds shifted by `{by1}` "
                    f"({what} from before this step) instead of the system bounds themselves: its target can then "
                    f"lie outside the system bounds, the window left for the {other} group ([lower - target, "
                    "upper - target]) no longer contains 0 W, and a group without a preferred power (no proposal "
                    "left after an expiry) resolves to 0 W - the request regular + op leaves the latest system "
                    "bounds.  Only the group computed second is shifted, and by the first group's current target")
        else:
            ok1, why1 = False, ("the first recalculation does not use the cached system bounds of the group "
                                f"(bounds argument {b1!r})")
        run.check(ok1, "C11.SHIFT", fn.qual, first["node"], f"{why1}. Path: {desc}",
                  node=first["node"], file=fn.file,
                  instance=f"first group uses the unshifted cached system bounds: {desc}")
        run.sample({"path": desc, "returned": repr(out.value), "current_targets": sorted(expected)})
    if n_changed < 10:
        raise AnalysisError("C11.SUM: too few paths with a changed target explored")
    run.extra_cov["abstract_paths"] = len(outs)


def stored_after(call: dict[str, Any]) -> Any:
    return call["result"] if call["result"] is not None else call["stored_before"]


def check_shift_fn(run: Run, prog: Program, roles: Roles) -> None:
    """_calculate_shifted_bounds evaluated symbolically: (None shift -> same bounds), both
    inclusion bounds minus the same power, exclusion bounds passed through."""
    cls = prog.cls(ACTOR)
    fn = roles["shift"]
    run.analysed(fn.qual)
    interp = ActorInterp(prog, cls, opaque=opaque_for(roles, fn))

    def make_args() -> dict[str, Any]:
        op = Sym("op_power") if interp.choose(2, "shift power is None") == 0 else None
        incl = Obj("Bounds", lower=Sym("lower"), upper=Sym("upper")) \
            if interp.choose(2, "inclusion bounds are None") == 0 else None
        excl = Obj("Bounds", lower=Sym("x_lower"), upper=Sym("x_upper")) \
            if interp.choose(2, "exclusion bounds are None") == 0 else None
        b = Obj("SystemBounds", timestamp=Sym("timestamp"), inclusion_bounds=incl, exclusion_bounds=excl)
        interp.inputs = {"bounds": b, "op": op}
        return interp.bind_args(fn.node, [b, op], {}, self_value=interp.self_obj())

    outs = interp.explore(fn.node, make_args)
    if len(outs) < 8:
        raise AnalysisError(f"{fn.qual}: only {len(outs)} abstract paths explored")
    ok_none, ok_incl, ok_sb = True, True, True
    got_incl = ""
    for out in outs:
        b, op = out.state["inputs"]["bounds"], out.state["inputs"]["op"]
        incl, excl = b.fields["inclusion_bounds"], b.fields["exclusion_bounds"]
        r = out.value
        if out.kind != "return":
            ok_none = ok_incl = ok_sb = False
            got_incl = f"raises {out.value}"
            continue
        if op is None:
            same = r is b or (isinstance(r, Obj) and r.cls == "SystemBounds"
                              and r.fields.get("inclusion_bounds") is incl
                              and r.fields.get("exclusion_bounds") is excl)
            ok_none = ok_none and same
            continue
        if not (isinstance(r, Obj) and r.cls == "SystemBounds" and r is not b):
            ok_sb = False
            continue
        ok_sb = ok_sb and r.fields.get("exclusion_bounds") is excl
        ri = r.fields.get("inclusion_bounds")
        if incl is None:
            ok_sb = ok_sb and ri is None
            continue
        if not (isinstance(ri, Obj) and ri.cls == "Bounds"):
            ok_sb = False
            continue
        lo, hi = lin_of(ri.fields.get("lower")), lin_of(ri.fields.get("upper"))
        if lo != {"lower": 1, "op_power": -1} or hi != {"upper": 1, "op_power": -1}:
            ok_incl = False
            got_incl = f"lower=`{ri.fields.get('lower')}`, upper=`{ri.fields.get('upper')}`"
    run.check(ok_none, "C11.SHIFT", fn.qual, "shift power is None: bounds returned unchanged",
              "a missing operating-point power does not leave the bounds unchanged",
              node=fn.node, file=fn.file)
    run.check(ok_incl, "C11.SHIFT", fn.qual, "Bounds(lower - op_power, upper - op_power)",
              f"inclusion bounds must both be shifted by -op_power: got {got_incl}",
              node=fn.node, file=fn.file)
    run.check(ok_sb, "C11.SHIFT", fn.qual, "SystemBounds(inclusion shifted, exclusion passed through)",
              "shifted SystemBounds does not carry the shifted inclusion bounds and the unchanged "
              "exclusion bounds", node=fn.node, file=fn.file)


def check_resolver(run: Run, prog: Program) -> None:
    """The contract the SUM rule's model of a group relies on, decided on the resolver itself:
    `calculate_target_power` answers None (= "unchanged, get_target_power is still truthful") only
    if the group has no bucket at all, or it recomputed the target from (this group's bucket, the
    bounds argument) and found it equal to the stored one; a non-None answer is that fresh target
    and is what get_target_power returns afterwards."""
    cls = prog.cls(MATRYOSHKA)
    fn = prog.func(f"{MATRYOSHKA}.calculate_target_power")
    run.analysed(fn.qual)
    interp = ResolverInterp(prog, cls)

    def make_args() -> dict[str, Any]:
        interp.ids = Sym("ids")
        interp.bucket = ("absent", "empty", "nonempty")[interp.choose(3, "bucket absent/empty/non-empty")]
        if interp.choose(2, "a target is stored") == 1:
            interp.stored = Sym("stored_target")
        proposal = Obj("Proposal") if interp.choose(2, "a proposal is given") == 1 else None
        bounds = Sym("system_bounds")
        interp.inputs = {"bucket": interp.bucket, "stored": interp.stored, "proposal": proposal,
                         "bounds": bounds}
        return interp.bind_args(fn.node, [interp.ids, proposal, bounds, Flag("must_return_power")], {},
                                self_value=Obj("self"))

    outs = interp.explore(fn.node, make_args)
    if len(outs) < 12:
        raise AnalysisError(f"{fn.qual}: only {len(outs)} abstract paths explored")
    n_none = n_new = 0
    for out in outs:
        desc = _desc(out)
        st = out.state
        if out.kind != "return":
            continue  # NotImplementedError / KeyError paths send nothing (C03 decides validation)
        inp = st["inputs"]
        calcs = [e for e in st["events"] if e["kind"] == "calc"]
        fresh_ok = len(calcs) == 1 and len(calcs[0]["args"]) == 2 and \
            calcs[0]["args"][0] is interp_bucket(out) and calcs[0]["args"][1] is inp["bounds"]
        ret = out.value
        node = st["ret_node"] if st["ret_node"] is not None else fn.node
        if st["valid"] is False:
            ok = ret is None and st["stored"] is inp["stored"]
            run.check(ok, "C11.SUM", fn.qual, node, "a failed validation changes or reports a target",
                      node=node, file=fn.file, instance=f"resolver: validation failed -> nothing: {desc}")
            continue
        if ret is None:
            n_none += 1
            equal = bool(calcs) and st["stored"] is inp["stored"] and inp["stored"] is not None and \
                st["facts"].get(("eq", frozenset((inp["stored"].name, calcs[0]["result"].name)))) is True
            ok = (st["bucket"] == "absent" and st["stored"] is inp["stored"]) or (fresh_ok and equal)
            test = st["last_test"]
            run.check(ok, "C11.SUM", fn.qual, test if test is not None and not ok else "None only when unchanged",
                      "the resolver answers None (= unchanged) although the group has a bucket "
                      f"({st['bucket']}) and the target was not recomputed and found equal to the stored "
                      "one: after all proposals expired the stale stored target keeps being reported by "
                      "get_target_power and added to the request (sum can leave the system bounds). "
                      f"Path: {desc}", node=test if test is not None else node, file=fn.file,
                      instance=f"resolver: None only if no bucket or recomputed-and-equal: {desc}")
        else:
            n_new += 1
            ok = fresh_ok and ret is calcs[0]["result"] and st["stored"] is ret
            run.check(ok, "C11.SUM", fn.qual, node,
                      f"the resolver returns `{ret}` but get_target_power would afterwards report "
                      f"`{st['stored']}` (or the value is not the target freshly computed from this "
                      f"group's bucket and the given bounds). Path: {desc}", node=node, file=fn.file,
                      instance=f"resolver: returned target is fresh and stored: {desc}")
    if n_none < 3 or n_new < 3:
        raise AnalysisError(f"{fn.qual}: too few None/new-target paths explored ({n_none}/{n_new})")


def check_reported_target(run: Run, prog: Program) -> None:
    """What the manager adds up (get_target_power) and what the actors are told (_Report.target_power
    from get_status) are both the stored target of the group."""
    cls = prog.cls(MATRYOSHKA)
    gt = prog.func(f"{MATRYOSHKA}.get_target_power")
    run.analysed(gt.qual)
    interp = ResolverInterp(prog, cls)

    def make_args() -> dict[str, Any]:
        interp.ids = Sym("ids")
        interp.bucket = ("absent", "empty", "nonempty")[interp.choose(3, "bucket absent/empty/non-empty")]
        if interp.choose(2, "a target is stored") == 1:
            interp.stored = Sym("stored_target")
        interp.inputs = {"stored": interp.stored}
        return interp.bind_args(gt.node, [interp.ids], {}, self_value=Obj("self"))

    for out in interp.explore(gt.node, make_args):
        want = out.state["inputs"]["stored"]
        ok = out.kind == "return" and out.value is want and out.state["stored"] is want
        node = out.state["ret_node"] if out.state["ret_node"] is not None else gt.node
        run.check(ok, "C11.SUM", gt.qual, node,
                  f"get_target_power answers `{out.value}` ({out.kind}) while the stored target is `{want}`: "
                  f"the manager would add up something else than the group's current target ({_desc(out)})",
                  node=node, file=gt.file, instance=f"get_target_power is the stored target: {_desc(out)}")
    # get_status: every report carries the stored target
    gs0 = prog.func(f"{MATRYOSHKA}.get_status")
    run.analysed(gs0.qual)
    gs = normalize(prog, gs0)
    ids = gs0.params[1]
    rep_cls = prog.resolve_name(gs0.module, "_Report")
    fields = dataclass_fields(rep_cls) if isinstance(rep_cls, ClassInfo) else []
    reports = [n for n in ast.walk(gs.node) if isinstance(n, ast.Call) and u(n.func).split(".")[-1] == "_Report"]
    if not reports:
        raise AnalysisError(f"{gs0.qual}: no _Report construction found")
    for call in reports:
        if call.args and not fields:
            raise AnalysisError(f"{gs0.qual}: positional _Report(...) but the class is not resolved")
        val = positional(call, fields).get("target_power")
        ok = val is not None and _is_stored_target(val, ids)
        why = ""
        if not ok and val is not None:
            # not the plain look-up: decide by evaluating the expression in every state of the group
            pre = _defining_statements(gs.node, call, val)
            try:
                wrong = _report_target_mismatches(prog, cls, gs0, val, pre)
            except AnalysisError as exc:
                text = u(val) + " ".join(u(x) for x in pre)
                if "_target_power" in text or "get_target_power" in text:
                    raise AnalysisError(f"{gs0.qual}: report target `{u(val)}` reads the stored target in a form "
                                        f"that is not recognised ({exc})") from None
                wrong = [("it is not a read of the stored target", None, None)]
            ok = not wrong
            if wrong:
                state, got, want = wrong[0]
                why = (f" - {state}" if got is None and want is None else
                       f" - in the state ({state}) the report says `{got!r}` while the stored target is `{want!r}`: "
                       "the stored target is what get_target_power answers, i.e. what the request in force contains "
                       "and what the other group is shifted by, until the next recalculation replaces it (expired "
                       "proposals only empty the bucket).  A report that hides it while the bucket is empty, or "
                       "substitutes a default, makes reported regular + reported operating-point target differ from "
                       "the request on every report-only event (a distribution result) in between")
        run.check(ok, "C11.REQ", gs0.qual, f"_Report(target_power={u(val)})",
                  f"the report tells the actors the target `{u(val)}`, not in every state the group's stored target "
                  f"(self._target_power.get(component_ids)) that the manager adds to the request{why}",
                  node=call, file=gs0.file, instance=f"report target is the stored target (line {call.lineno})")


def _defining_statements(fn: ast.AST, site: ast.AST, expr: ast.AST) -> list[ast.stmt]:
    """Backward slice: the statements that precede `site` in its own and in the enclosing blocks and assign a
    local name the expression depends on (transitively), in source order.  (Conditions of the enclosing
    statements are not part of it: the value is judged for every state, not only for those reaching the site.)"""
    from ..engine.resolver import parent_map

    parents = parent_map(fn)
    needed = {n.id for n in ast.walk(expr) if isinstance(n, ast.Name) and isinstance(n.ctx, ast.Load)}
    found: list[ast.stmt] = []
    node: ast.AST = site
    while node is not fn and node in parents:
        parent = parents[node]
        for field in ("body", "orelse", "finalbody"):
            block = getattr(parent, field, None)
            if isinstance(block, list) and any(b is node for b in block):
                idx = next(i for i, b in enumerate(block) if b is node)
                for st in reversed(block[:idx]):
                    stores = {x.id for x in ast.walk(st) if isinstance(x, ast.Name)
                              and isinstance(x.ctx, (ast.Store, ast.Del))}
                    if stores & needed:
                        found.append(st)
                        needed |= {x.id for x in ast.walk(st) if isinstance(x, ast.Name) and isinstance(x.ctx, ast.Load)}
        node = parent
    return list(reversed(found))


def _report_target_mismatches(prog: Program, cls: ClassInfo, gs: FuncInfo, expr: ast.AST,
                              pre: list[ast.stmt] | None = None) -> list[tuple[str, Any, Any]]:
    """The report's target expression (after the statements `pre` that define the locals it uses) evaluated by
    the resolver interpreter over bucket absent / empty / non-empty x stored target absent / present (the other
    parameters of get_status are opaque values): the states in which it is not the stored target, as
    (state, value, stored)."""
    interp = ResolverInterp(prog, cls)
    fn = ast.FunctionDef(name="_report_target", args=gs.node.args, body=[*(pre or []), ast.Return(value=cast(ast.expr, expr))],
                         decorator_list=[], returns=None, type_comment=None, type_params=[])
    ast.copy_location(fn, gs.node)
    ast.copy_location(fn.body[-1], expr)
    params = gs.params[1:]

    def make_args() -> dict[str, Any]:
        interp.ids = Sym("ids")
        interp.bucket = ("absent", "empty", "nonempty")[interp.choose(3, "bucket absent/empty/non-empty")]
        if interp.choose(2, "a target is stored") == 1:
            interp.stored = Sym("stored_target")
        interp.inputs = {"stored": interp.stored, "bucket": interp.bucket}
        if interp.bucket == "absent" and interp.stored is not None:
            raise Infeasible()  # only the recalculation stores a target, and it needs the bucket (who-may-write rule)
        return interp.bind_args(fn, [interp.ids] + [Sym(p) for p in params[1:]], {}, self_value=Obj("self"))

    wrong: list[tuple[str, Any, Any]] = []
    for out in interp.explore(fn, make_args):
        want = out.state["inputs"]["stored"]
        if not (out.kind == "return" and out.value is want):
            state = f"bucket {out.state['inputs']['bucket']}; " + ("a target is stored" if want is not None
                                                                    else "no target stored")
            wrong.append((state, out.value if out.kind == "return" else f"raise {out.value}", want))
    wrong.sort(key=lambda w: (w[2] is None, not w[0].startswith("bucket empty")))  # a hidden stored target first
    return wrong


def _recalculation_methods(prog: Program, cls: ClassInfo, root: FuncInfo, opaque: set[str]) -> set[str]:
    """`calculate_target_power` plus the methods that run only as part of it and are interpreted with it by
    ResolverInterp (reached from it, not opaque there, mentioned nowhere else in the package)."""
    cands = {m.name for m in reachable_methods(prog, cls, root)[1:]
             if m.cls is cls and m.name not in opaque and m.name not in ANCHOR_NAMES and m.name.startswith("_")
             and not m.name.startswith("__")}
    allowed = {root.name}
    if not cands:
        return allowed
    refs = _owner_refs(prog, cands)
    changed = True
    while changed:
        changed = False
        for name in sorted(cands - allowed):
            who = refs[name]
            if who and all(c == cls.qual and f in allowed for c, f in who):
                allowed.add(name)
                changed = True
    return allowed


def check_state_writers(run: Run, prog: Program) -> None:
    """Who may write the resolver's state.  The stored target of a group is at once (a) what get_status reports
    to the actors, (b) what the manager adds to the request and shifts the other group by, and (c) the baseline of
    calculate_target_power's "unchanged -> None" answer.  The resolver clause (check_resolver) shows that
    calculate_target_power stores exactly the fresh target it returns - so every change of the store is followed
    by a request for the new sum.  That argument needs the store to have no other writer, and the "no bucket ->
    None" case needs a bucket, once created, never to be removed."""
    cls = prog.cls(MATRYOSHKA)
    root = prog.func(f"{MATRYOSHKA}.calculate_target_power")
    opaque = set(ResolverInterp(prog, cls).opaque)
    allowed = _recalculation_methods(prog, cls, root, opaque)
    reach_names = {m.name for m in reachable_methods(prog, cls, root)[1:]}
    algo = prog.cls(ALGO)
    classes = {c.qual: c for c in [*prog.mro(cls), *prog.subclasses(algo, strict=False)]}
    n_seen = 0
    for c in classes.values():
        for m in c.methods.values():
            if c is cls and m.name in allowed:
                continue  # interpreted path by path (check_resolver)
            n_seen += 1
            bad = 0
            for use in mapping_uses(m.node, self_attr_ref(STORE_ATTR)):
                kind, node = use["kind"], use["node"]
                if kind == "read":
                    continue
                if kind == "rebind" and m.name == "__init__" and is_empty_mapping(use.get("value")):
                    continue
                if kind == "escape":
                    raise AnalysisError(f"{m.qual}: the stored-target mapping self.{STORE_ATTR} leaves the method "
                                        f"({use['how']}, line {getattr(node, 'lineno', '?')}): its writers cannot be "
                                        "enumerated")
                bad += 1
                shared = c is cls and m.name in reach_names
                run.violation(
                    "C11.SUM", m.qual, node,
                    f"{m.name} changes a group's stored target ({use['how']}) outside {root.name}"
                    + (f" (it is reached from {root.name} but also used elsewhere / not interpreted with it)"
                       if shared else "") + ": the stored "
                    "target is what get_status reports, what the manager adds to the request (and shifts the other "
                    "group by) and the baseline of the resolver's `unchanged -> None` answer.  Only "
                    f"{root.name} may write it - with the fresh target it returns, so that a request for the new "
                    "sum follows.  A reset / removal / overwrite anywhere else (when proposals expire, while "
                    "reporting, on a read) changes the reported target without a request, and the next "
                    "recalculation compares against a value that was never requested: it computes the same value, "
                    "answers None, and the old sum keeps being distributed while the reports say otherwise",
                    node=node, file=m.file)
            if bad == 0:
                run.ok("C11.SUM", f"{m.qual} :: no write of self.{STORE_ATTR} outside {root.name}")
            for use in mapping_uses(m.node, self_attr_ref(BUCKETS_ATTR)):
                kind, node = use["kind"], use["node"]
                gone = kind == "remove" or (kind == "rebind" and not (
                    m.name == "__init__" and is_empty_mapping(use.get("value"))))
                if gone:
                    run.violation(
                        "C11.SUM", m.qual, node,
                        f"{m.name} removes a group's bucket ({use['how']}): {root.name} answers None (= unchanged) "
                        "for a group without a bucket, so after the removal the group's stored target is never "
                        "recomputed again - it keeps being reported and added to the request whatever the "
                        "bounds become (expired proposals must leave an *empty* bucket, which is recomputed to 0 W)",
                        node=node, file=m.file)
    # the state of a group written from outside the resolver (the manager, another module of the package)
    pkg = MODULE.rsplit(".", 1)[0]
    for mod in prog.modules.values():
        if not (mod.name == pkg or mod.name.startswith(pkg + ".")):
            continue
        for use in mapping_uses(mod.tree, foreign_attr_ref(STORE_ATTR)):
            if use["kind"] in ("set", "remove", "rebind"):
                run.violation("C11.SUM", mod.name, use["node"],
                              f"a group's stored target is written from outside the resolver ({use['how']}): only "
                              f"{root.name} may change it (with the fresh target it returns, so that a request "
                              "follows)", node=use["node"], file=mod.rel)
    if n_seen < 3:
        raise AnalysisError(f"{cls.qual}: only {n_seen} methods besides the recalculation examined")


def _is_stored_target(e: ast.AST, ids: str) -> bool:
    """`self._target_power.get(<ids>)` or `self.get_target_power(<ids>)` (argument by position or name)."""
    if not (isinstance(e, ast.Call) and isinstance(e.func, ast.Attribute)):
        return False
    args = list(e.args) + [k.value for k in e.keywords]
    if len(args) != 1 or not (isinstance(args[0], ast.Name) and args[0].id == ids):
        return False
    f = e.func
    if f.attr == "get" and u(f.value) == "self._target_power":
        return True
    return f.attr == "get_target_power" and u(f.value) == "self"


def interp_bucket(out: Any) -> Any:
    """The bucket object of the run (the value handed to _calc_target_power must be it)."""
    for e in out.state["events"]:
        if e["kind"] == "calc" and e["args"] and isinstance(e["args"][0], Obj) and e["args"][0].cls == "Bucket":
            return e["args"][0]
    return None


# =============================================================================== C11.REQ
def _owner_refs(prog: Program, names: set[str]) -> dict[str, set[tuple[str, str]]]:
    """For each attribute/function name: the (class qual | module, top-level function) units that
    mention it anywhere in the package."""
    refs: dict[str, set[tuple[str, str]]] = {n: set() for n in names}

    def scan(owner: tuple[str, str], node: ast.AST) -> None:
        for n in ast.walk(node):
            if isinstance(n, ast.Attribute) and n.attr in names:
                refs[n.attr].add(owner)
            elif isinstance(n, ast.Name) and n.id in names:
                refs[n.id].add(owner)
            elif isinstance(n, ast.Constant) and isinstance(n.value, str) and n.value in names:
                refs[n.value].add(("<string>", ""))  # getattr(self, "...")

    for mod in prog.modules.values():
        for top in mod.tree.body:
            if isinstance(top, ast.ClassDef):
                for sub in top.body:
                    if isinstance(sub, (ast.FunctionDef, ast.AsyncFunctionDef)):
                        scan((f"{mod.name}:{top.name}", sub.name), sub)
                    else:
                        scan((f"{mod.name}:{top.name}", "<class body>"), sub)
            elif isinstance(top, (ast.FunctionDef, ast.AsyncFunctionDef)):
                scan((mod.name, top.name), top)
            else:
                scan((mod.name, "<module body>"), top)
    return refs


def exclusive_helpers(prog: Program, cls: ClassInfo, root: FuncInfo, roles: Roles) -> set[str]:
    """`root` plus the private, non-anchor methods of the class that are referenced only from
    `root` or from other such helpers (i.e. code that runs only as part of `root`)."""
    cands = {m.name for m in cls.methods.values() if m.name.startswith("_")
             and not m.name.startswith("__") and m.name not in ANCHOR_NAMES
             and m.name not in {fi.name for fi in roles.values()}}
    if not cands:
        return {root.name}
    refs = _owner_refs(prog, cands)
    allowed = {root.name}
    changed = True
    while changed:
        changed = False
        for name in sorted(cands - allowed):
            who = refs[name]
            if who and all(c == cls.qual and f in allowed for c, f in who):
                allowed.add(name)
                changed = True
    return allowed


def check_req(run: Run, prog: Program, roles: Roles) -> None:
    cls = prog.cls(ACTOR)
    su = roles["su"]
    # ---- who may construct a Request / touch the requests sender: _send_updated_target_power and
    #      helpers that run only as part of it
    allowed: set[str] | None = None
    n_req = 0
    for m in cls.methods.values():
        sites: list[tuple[str, ast.AST]] = []
        for n in ast.walk(m.node):
            if isinstance(n, ast.Call) and u(n.func).endswith("Request"):
                n_req += 1
                sites.append(("a Request is built", n))
            elif isinstance(n, ast.Attribute) and n.attr == REQ_SENDER_ATTR and isinstance(n.ctx, ast.Load):
                sites.append(("the requests sender is used", n))
        for what, n in sites:
            if m.name != su.name and allowed is None:
                allowed = exclusive_helpers(prog, cls, su, roles)
            ok = m.name == su.name or m.name in (allowed or ())
            construct = _enclosing_call(m.node, n)
            run.check(ok, "C11.REQ", m.qual, construct,
                      f"{what} outside {su.name}: requests must be built only "
                      "from the freshly computed target power", node=n, file=m.file)
    if n_req != 1:
        raise AnalysisError(f"C11.REQ: expected one Request construction, found {n_req}")
    if roles["calc"] is not su:  # otherwise decided path by path together with the sum (combined mode)
        check_send_updated(run, prog, cls, roles)
    check_bounds_tracker(run, prog, cls, roles)
    check_reports(run, prog, cls, roles)
    check_run(run, prog, cls, roles)
    check_arm_groups(run, prog, cls, roles)
    check_channel_key(run, prog, cls, roles)
    check_group_naming(run, prog, cls, roles)


def check_run(run: Run, prog: Program, cls: ClassInfo, roles: Roles) -> None:
    """Event loop: whenever the target power is recomputed (proposal, retry), the reports are sent
    before the next event is taken - otherwise the request no longer equals the targets the actors
    were last told.  Decided on the CFG of _run with simple private helpers spliced in."""
    rn = roles["run"]
    su_name, rep_name = roles["su"].name, roles["reports"].name
    run.analysed(rn.qual)
    cfg = CFG(inline_helpers(prog, rn, exclude=[fi.name for fi in roles.values()]), rn.file)
    ups = nodes_with_call(cfg, lambda c: method_call(c, "self", su_name))
    reps = nodes_with_call(cfg, lambda c: method_call(c, "self", rep_name))
    if not ups:
        raise AnalysisError(f"{rn.qual}: no recomputation ({su_name}) found")
    heads = [n.id for n in cfg.nodes if n.kind in ("for", "while")] + [cfg.exit]
    for up in ups:
        wit = cfg.path(up, heads, avoid=reps, edge_ok=normal_edge, include_src=False)
        construct = next((c for c in ast.walk(cfg.nodes[up].ast) if isinstance(c, ast.Call)  # type: ignore[arg-type]
                          and method_call(c, "self", su_name)), cfg.nodes[up].ast)
        run.check(wit is None, "C11.REQ", rn.qual, construct,
                  f"after this recomputation the next event can be taken without {rep_name}: the request "
                  "just sent no longer equals the targets the actors were last told",
                  node=cfg.nodes[up].ast, file=rn.file, path=cfg.describe_path(wit),
                  instance=f"reports follow the recomputation at line {cfg.nodes[up].lineno}")


def check_arm_groups(run: Run, prog: Program, cls: ClassInfo, roles: Roles) -> None:
    """C11.ARM - the group an arm of the event loop recomputes / reports for is that arm's own.  Each pass of the
    loop handles ONE message (a proposal, a subscription, a distribution result, a timer tick); the request it sends
    and the reports it sends must be for the group that message names, otherwise the request in force for group A is
    accompanied by reports for group B and A's reported targets stay what they were.  Decided by reaching
    definitions: for every call of the recomputing / reporting / calculating method (and of private helpers that
    hand a parameter on to one) in the loop, every local the group argument is made of - followed backwards through
    the assignments that reach the call - is bound on every path from the loop header to the call, i.e. on the
    current iteration.  A local whose reaching definition lies in another arm is the group of an EARLIER message
    (or unbound)."""
    uses = arm_group_uses(prog, cls, roles)
    rn = roles["run"]
    if not uses:
        raise AnalysisError(f"{rn.qual}: no call that names a component group to recompute / report for was found")
    for use in sorted(uses, key=lambda x: (x["fn"].qual, getattr(x["call"], "lineno", 0), x["param"])):
        fi, flow, call = use["fn"], use["flow"], use["call"]
        cfg = flow.cfg
        run.analysed(fi.qual)
        bad = use["bad"][0] if use["bad"] else None
        msg, path = "", None
        if bad is not None:
            name = bad["name"]
            lines = sorted({cfg.nodes[d].lineno for d in bad["defs"]})
            head = cfg.nodes[bad["head"]]
            chain = " <- ".join([*bad["via"][::-1], name]) if bad["via"] else name
            path = cfg.describe_path(bad["path"])
            msg = (f"the component group of this call is made of the local `{name}`"
                   + (f" (through {chain})" if bad["via"] else "")
                   + f", which is not bound on the path the current pass of the loop at line {head.lineno} takes to "
                   f"get here: its only bindings inside the loop are at line(s) {', '.join(map(str, lines))}, in another "
                   "arm of the loop"
                   + (", or the value from before the loop" if bad["before"] else "")
                   + f".  What reaches the call is the group of an EARLIER message (the last one that arm handled) - or "
                   "nothing, if that arm never ran (unbound name, the actor's loop dies).  With one component group both "
                   "are the same; with two disjoint groups the request goes out for the group this pass's message names "
                   f"while {use['callee']} is run for the other one, so the targets reported to the actors of this group "
                   "stay what they were: the request in force is no longer reported regular + reported operating-point "
                   "target.  Every arm must take the group from its own message (the proposal's component ids in the "
                   "proposal arm, the subscription's in the subscription arm, the result's request in the result arm, "
                   "every tracked group in the timer arm); the same holds for the group handed to the recomputation, "
                   "to a helper that passes it on, and for a copy made from a stale local")
        run.check(bad is None, "C11.ARM", fi.qual, call, msg, node=call, file=fi.file, path=path,
                  instance=f"{fi.qual}: group of {use['callee']}({use['param']}=...) at line "
                           f"{getattr(call, 'lineno', '?')} is bound on the current pass")


def check_channel_key(run: Run, prog: Program, cls: ClassInfo, roles: Roles) -> None:
    """C11.CHAN - subscriptions the event loop files apart get different report channels.  The sender stored for a
    subscription is obtained from the channel registry under a key (the name the subscription's channel-name method
    returns).  Which fields of the subscription decide WHERE the sender is stored is read from the filing code: the
    field tested to choose the table (operating-point vs regular) and the fields used as keys of the table and of
    the per-group map.  Each of them must appear whole in the key - otherwise two subscriptions filed apart share one
    channel, both subscribers receive the reports of both entries and the last report each of them saw is the one
    sent last: an operating-point actor is then told the regular group's target, and the request is no longer
    reported regular + reported operating-point target."""
    found = channel_key_findings(prog, cls, roles)
    if not found:
        raise AnalysisError(f"{roles['run'].qual}: no look-up of a report channel in the channel registry was found "
                            "where subscriptions are filed")
    for f in found:
        fi, call, routing, named = f["fn"], f["call"], f["routing"], f["named"]
        run.analysed(fi.qual)
        if not routing:
            raise AnalysisError(f"{fi.qual}: line {call.lineno}: the fields of the subscription that decide where its "
                                "sender is stored were not found")
        site_fi, site = f["sites"][-1] if f["sites"] else (fi, f["key"])
        built = "; ".join(f"`{u(b)}` ({a.qual.split(':')[-1]}, line {getattr(b, 'lineno', '?')})" for a, b in f["sites"]) \
            or f"`{u(f['key'])}`"
        for field in sorted(routing):
            uses = routing[field]
            how = ("chooses the subscription table" if any(isinstance(x, ast.expr) and not isinstance(
                x, (ast.Subscript, ast.Call, ast.Compare)) for _g, x in uses) else "is a key under which the sender is stored")
            run.check(field in named, "C11.CHAN", site_fi.qual, site,
                      f"the report channel of a subscription is looked up under a name that does not contain the "
                      f"subscription's `{field}`: the name is built by {built} from {{{', '.join(sorted(named)) or 'no field'}}}, "
                      f"but {uses[0][0].name} files the sender by `{field}` as well (it {how}, line {getattr(uses[0][1], 'lineno', '?')}).  "
                      f"Two subscriptions that differ only in `{field}` are stored apart and served separately by "
                      "the reporting method, yet share ONE channel: each subscriber receives both entries' reports, and "
                      "the one it saw last is whichever was sent last"
                      + (" - a regular and an operating-point actor with the same priority on the same components are "
                         "both last told the regular group's target (request 130 W = 100 + 30, both told 100 W), so the "
                         "request is not reported regular + reported operating-point target" if field == FLAG_ATTR else
                         " - an actor is told the target / bounds of another priority or another component group")
                      + ".  Every field that routes the sender (table selector, table key, inner key) must appear whole "
                        "in the channel name (any order, any conversion; extra fields are harmless)",
                      node=site, file=site_fi.file,
                      instance=f"{fi.qual} line {call.lineno}: channel name contains `{field}`")


def _enclosing_call(fn: ast.AST, n: ast.AST) -> ast.AST:
    """`self.<sender>.send(...)` for a sender reference (stable finding key), else the node."""
    if isinstance(n, ast.Call):
        return n
    for c in ast.walk(fn):
        if isinstance(c, ast.Call) and isinstance(c.func, ast.Attribute) and c.func.value is n:
            return c
    return n


def check_send_updated(run: Run, prog: Program, cls: ClassInfo, roles: Roles) -> None:
    """Symbolic run of _send_updated_target_power: the target is computed once for the very
    arguments of the call; a Request(power=<that result>, component_ids=<same ids>) is sent iff the
    result is not None."""
    su = roles["su"]
    run.analysed(su.qual)
    interp = ActorInterp(prog, cls, opaque=opaque_for(roles, su))

    def make_args() -> dict[str, Any]:
        interp.ids = Sym("ids")
        proposal = None if interp.choose(2, "a proposal is given") == 0 else \
            Obj("Proposal", set_operating_point=Flag("set_operating_point"))
        must = Flag("must_send")
        interp.inputs = {"ids": interp.ids, "proposal": proposal, "must_send": must}
        return interp.bind_args(su.node, [interp.ids, proposal, must], {}, self_value=interp.self_obj())

    outs = interp.explore(su.node, make_args)
    n_sent = 0
    for out in outs:
        desc = _desc(out)
        if out.kind != "return":
            run.violation("C11.REQ", su.qual, "raise", f"path raises {out.value}: {desc}",
                          node=out.raise_node or su.node, file=su.file)
            continue
        inp = out.state["inputs"]
        evs = out.state["events"]
        calcs = [e for e in evs if e["kind"] == "calc"]
        ok = len(calcs) == 1 and len(calcs[0]["args"]) >= 3 and calcs[0]["args"][0] is inp["ids"] \
            and calcs[0]["args"][1] is inp["proposal"] and calcs[0]["args"][2] is inp["must_send"]
        run.check(ok, "C11.REQ", su.qual, "target_power = self._calculate_target_power(component_ids, "
                  "proposal, must_send)", "the sent power does not come from one _calculate_target_power "
                  f"call for the same group/proposal/must_send ({desc})", node=su.node, file=su.file,
                  instance=f"target computed once from the call's own arguments: {desc}")
        if not ok:
            continue
        result = calcs[0]["result"]
        reqs = [e for e in evs if e["kind"] == "request"]
        if result is None:
            ok = not reqs
        else:
            n_sent += 1
            ok = len(reqs) == 1 and evs.index(reqs[0]) > evs.index(calcs[0])
        run.check(ok, "C11.REQ", su.qual, "send iff target_power is not None",
                  f"a request is not sent exactly when a target power was returned ({len(reqs)} "
                  f"request(s) sent, computed target `{result}`; {desc})",
                  node=reqs[0]["node"] if reqs else su.node, file=su.file,
                  instance=f"request sent iff a target was returned: {desc}")
        for e in reqs:
            r = e["value"]
            ok = isinstance(r, Obj) and r.cls == "Request" and result is not None \
                and r.fields.get("power") is result and r.fields.get("component_ids") is inp["ids"]
            carried = r.fields.get("power") if isinstance(r, Obj) else None
            adjusted = (isinstance(r, Obj) and r.cls == "Request" and result is not None and carried is not result
                        and r.fields.get("component_ids") is inp["ids"])
            run.check(ok, "C11.REQ", su.qual, "Request(power=target_power, component_ids=component_ids)",
                      (f"the power put into the request is `{carried!r}`, not the value `{result!r}` that "
                       f"{roles['calc'].name} returned for this call (= regular target + operating-point target): a "
                       "power that is adjusted after the sum was formed (moved out of the exclusion zone, clamped, "
                       "rounded, scaled, replaced by a bound) is no longer the sum of the two targets the groups "
                       "store and report - the reports keep showing the unadjusted targets"
                       if adjusted else
                       f"the request sent is `{r!r}`: not built from the computed target power / the "
                       "same component ids") + f" ({desc})", node=e["node"], file=su.file,
                      instance=f"request carries the computed power for the same ids: {desc}")
    if n_sent < 1 or len(outs) < 2:
        raise AnalysisError(f"{su.qual}: no abstract path sends a request")


def check_bounds_tracker(run: Run, prog: Program, cls: ClassInfo, roles: Roles) -> None:
    """Every received bounds message is in the cache when the target is recomputed for that group
    and when the reports are sent; recomputation precedes the reports."""
    bt = roles["tracker"]
    run.analysed(bt.qual)
    interp = ActorInterp(prog, cls, opaque=opaque_for(roles, bt))

    def make_args() -> dict[str, Any]:
        interp.ids = Sym("ids")
        interp.inputs = {"ids": interp.ids}
        return interp.bind_args(bt.node, [interp.ids, Obj("Receiver")], {}, self_value=interp.self_obj())

    outs = interp.explore(bt.node, make_args)
    construct = "store new bounds, then _send_updated_target_power, then reports"
    for out in outs:
        desc = _desc(out)
        ids = out.state["inputs"]["ids"]
        evs = out.state["events"]
        segs: list[list[dict[str, Any]]] = []
        for e in evs:
            if e["kind"] == "recv":
                segs.append([e])
            elif segs:
                segs[-1].append(e)
            elif e["kind"] in ("store", "su"):
                segs.append([{"kind": "recv", "value": None}, e])
        if out.kind != "return" or len(segs) < interp.n_messages:
            run.violation("C11.REQ", bt.qual, construct,
                          f"the tracker does not process every bounds message ({out.kind} {out.value}; {desc})",
                          node=bt.node, file=bt.file)
            continue
        for i, seg in enumerate(segs):
            msg = seg[0]["value"]
            ups = [e for e in seg if e["kind"] == "su"]
            reps = [e for e in seg if e["kind"] == "reports"]
            forks = [e for e in seg if e["kind"] == "fork"]
            end_cache = segs[i + 1][0].get("cache", {}) if i + 1 < len(segs) else out.state["cache"]
            why = ""
            if end_cache.get(ids) is not msg and not any(e["cache"].get(ids) is msg for e in ups + reps):
                kept = f"`{end_cache[ids]!r}`" if ids in end_cache else "the previous bounds"
                why = (f"a received bounds message is dropped: the cache keeps {kept}, so later requests are clamped "
                       "to bounds that are not the latest the manager received"
                       + (f" (decided by {forks[-1]['label']} -> {forks[-1]['outcome']})" if forks else ""))
            elif not ups:
                why = "the target power is not recomputed after a bounds message"
            elif not reps:
                why = "no reports are sent after a bounds message"
            elif any(not e["args"] or e["args"][0] is not ids for e in ups + reps):
                why = "recomputation / reports are for another component group"
            elif any(e["cache"].get(ids) is not msg for e in ups):
                why = ("new system bounds are not stored before the target power is recomputed for "
                       "that group (the request would be clamped to stale bounds)")
            elif any(e["cache"].get(ids) is not msg for e in reps):
                why = "reports are sent before the new system bounds are stored"
            elif seg.index(reps[-1]) < seg.index(ups[-1]):
                why = "the reports are sent before the target power is recomputed"
            bad = next((e for e in (forks[::-1] if "dropped" in why or not ups or not reps else []) + ups + reps
                        if why and e.get("node") is not None), None)
            run.check(not why, "C11.REQ", bt.qual,
                      bad["node"] if bad is not None and bad["kind"] == "fork" else construct,
                      f"{why} ({desc})", node=bad["node"] if bad else bt.node, file=bt.file,
                      instance=f"message {msg!r}: stored before recomputation before reports: {desc}")


def check_reports(run: Run, prog: Program, cls: ClassInfo, roles: Roles) -> None:
    """Symbolic run of _send_reports: operating-point subscribers get a status computed in the
    cached system bounds, regular subscribers in those bounds shifted by the operating-point
    group's current target."""
    sr = roles["reports"]
    run.analysed(sr.qual)
    interp = ActorInterp(prog, cls, opaque=opaque_for(roles, sr))

    def make_args() -> dict[str, Any]:
        interp.ids = Sym("ids")
        for g in ("op", "reg"):
            if interp.choose(2, f"stored {g} target exists") == 1:
                interp.stored[g] = Sym(f"T_{g}")
        # the environment is decided up front so that every path knows it (a path that returns
        # early never asks): bounds cached?  subscribers of either kind?
        env = interp.environment(interp.ids)
        interp.inputs = {"ids": interp.ids, **env}
        return interp.bind_args(sr.node, [interp.ids], {}, self_value=interp.self_obj())

    outs = interp.explore(sr.node, make_args)
    construct = "regular reports use bounds shifted by the operating-point target"
    seen = {"op": 0, "reg": 0}
    crossed = False
    for out in outs:
        desc = _desc(out)
        if out.kind != "return":
            run.violation("C11.REQ", sr.qual, "raise", f"path raises {out.value}: {desc}",
                          node=out.raise_node or sr.node, file=sr.file)
            continue
        ids = out.state["inputs"]["ids"]
        op_now = out.state["stored"].get("op")
        for e in out.state["events"]:
            if e["kind"] != "status":
                continue
            b = e["bounds"]
            seen[e["group"]] += 1
            unshifted = _is_sb(b, ids) or (is_shift(b) and _is_sb(b.fields["base"], ids)
                                           and b.fields["by"] is None)
            if e["group"] == "op":
                ok = unshifted
                why = f"operating-point reports are computed against `{b!r}`, not the system bounds"
            else:
                ok = (is_shift(b) and _is_sb(b.fields["base"], ids) and b.fields["by"] is op_now) \
                    or (op_now is None and unshifted)
                why = (f"regular reports are computed against `{b!r}` while the operating-point target "
                       f"is `{op_now}`: what regular actors are told no longer matches the bounds "
                       "their target is computed in")
            run.check(ok, "C11.REQ", sr.qual, construct, f"{why} ({desc})", node=e["node"],
                      file=sr.file, instance=f"{e['group']} status bounds: {desc}")
        # each table is served from the resolver of the same group
        for e in out.state["events"]:
            snd, val = e.get("sender"), e.get("value")
            if e["kind"] == "report" and isinstance(snd, Obj) and snd.cls == "Sender" \
                    and isinstance(val, Obj) and val.cls == "Report":
                names = {"op": "operating-point", "reg": "regular"}
                crossed = crossed or snd.fields["group"] != val.fields["group"]
                run.check(snd.fields["group"] == val.fields["group"], "C11.REQ", sr.qual, e["node"],
                          f"the {names[snd.fields['group']]} subscribers are sent the status of the "
                          f"{names[val.fields['group']]} group: the target they are told is not the target of the "
                          f"group their proposals are routed to ({desc})", node=e["node"], file=sr.file,
                          instance=f"{snd.fields['group']} subscribers get the {snd.fields['group']} status: {desc}")
        # subscribers present and bounds cached -> a status is produced for them, whatever the
        # cached bounds contain (the resolvers handle missing inclusion bounds themselves)
        inp = out.state["inputs"]
        if inp["cached"]:
            forks = [e for e in out.state["events"] if e["kind"] == "fork"]
            for g in ("op", "reg"):
                if not inp[g]:
                    continue
                n = sum(1 for e in out.state["events"] if e["kind"] == "status" and e["group"] == g)
                m = sum(1 for e in out.state["events"] if e["kind"] == "report"
                        and isinstance(e["value"], Obj) and e["value"].cls == "Report"
                        and e["value"].fields["group"] == g)
                last = forks[-1] if forks else None
                run.check(n >= 1 and m >= 1, "C11.REQ", sr.qual,
                          last["node"] if last is not None and last["node"] is not None
                          else f"{g} subscribers get a status",
                          f"{'operating-point' if g == 'op' else 'regular'} subscribers exist and system "
                          "bounds are cached, but no status is sent to them"
                          + (f" after {last['label']} -> {last['outcome']}" if last else "")
                          + ": the targets they were last told stay in force in their eyes while the "
                          f"request is recomputed ({desc})",
                          node=last["node"] if last is not None and last["node"] is not None else sr.node,
                          file=sr.file, instance=f"{g} subscribers get a status: {desc}")
    if (not seen["op"] or not seen["reg"]) and not crossed:
        raise AnalysisError(f"{sr.qual}: get_status of both groups not reached ({seen})")


def check_group_naming(run: Run, prog: Program, cls: ClassInfo, roles: Roles) -> None:
    """Who is told which target.  A group is named by (component ids, operating-point flag).  The manager routes
    a proposal to the resolver its flag names (decided with the sum) and files a report subscription in the
    table the subscription's flag names; _send_reports serves each table from the resolver of the same group.
    So an actor is told the target of the group its proposals go to only if

      (a) on the client side, every class that builds both messages names the same group in both: the flag and
          the component ids of each subscription come from the same source as those of its proposals, and are
          given explicitly (a default files the actor with the regular group whatever its proposals say);
      (b) in the event loop, the table is chosen by the subscription's flag, the operating-point table exactly
          where the flag is true."""
    proposal_cls, sub_classes = group_message_classes(prog)
    sites = construction_sites(prog, [proposal_cls, *sub_classes])
    units: dict[str, list[tuple[FuncInfo, ast.Call, ClassInfo]]] = {}
    for fi, call, c in sites:
        units.setdefault(fi.cls.qual if fi.cls is not None else fi.qual, []).append((fi, call, c))
    n_paired = 0
    for unit, group in sorted(units.items()):
        read = [(fi, call, c, message_args(call, c, fi.qual)) for fi, call, c in group]
        for fi, _call, _c, _a in read:
            run.analysed(fi.qual)
        for fi, call, c, args in read:  # explicit flag on every message
            kind = "proposal" if c is proposal_cls else "report subscription"
            run.check(FLAG_ATTR in args, "C11.REQ", fi.qual, call,
                      f"this {kind} ({c.name}) is built without `{FLAG_ATTR}`: the manager then takes the default - "
                      + ("the actor's reports are filed with the regular subscribers and carry the regular group's "
                         "target (in bounds shifted by the operating-point target), whatever group its proposals "
                         "are routed to; an operating-point actor is never told the operating-point target, so the "
                         "request differs from reported regular + reported operating-point target"
                         if c is not proposal_cls else
                         "the proposal is routed to the regular resolver although the actor's reports may be "
                         "served from the other group")
                      + ".  The flag must be passed explicitly, from the same source in proposals and subscriptions",
                      node=call, file=fi.file, instance=f"{FLAG_ATTR} given explicitly: {fi.qual} line {call.lineno}")
        props = [r for r in read if r[2] is proposal_cls]
        subs = [r for r in read if r[2] is not proposal_cls]
        for sfi, scall, sc, sargs in subs:
            for pfi, pcall, _pc, pargs in props:
                for field in GROUP_KEY:
                    if field not in sargs or field not in pargs:
                        continue  # reported above (flag) / not a group-naming message
                    s_src = canonical_source(prog, sfi, sargs[field])
                    p_src = canonical_source(prog, pfi, pargs[field])
                    n_paired += 1
                    run.check(s_src == p_src, "C11.REQ", sfi.qual, scall,
                              f"the {sc.name} built here names its group with {field}=`{s_src}` while the proposals "
                              f"of the same class ({pfi.name}, line {pcall.lineno}) use {field}=`{p_src}`: the "
                              "manager files the subscription under the group this message names and routes the "
                              "proposals to the group those name, so the actor can be told another group's target "
                              "(e.g. an operating-point actor the regular target) - the request is then not the sum "
                              "of the targets reported to the regular and to the operating-point actors",
                              node=scall, file=sfi.file,
                              instance=f"{unit}: subscription line {scall.lineno} and proposal line {pcall.lineno} "
                                       f"agree on {field}")
    if n_paired < 2:
        raise AnalysisError("C11.REQ: no class builds both a proposal and a report subscription - the client side "
                            "of the group naming was not found")
    # ---- (b) the event loop files a subscription in the table its flag names
    rn = roles["run"]
    stop = {fi.name for r, fi in roles.items() if r != "run"}
    n_choice = n_loose_writes = 0
    for fi in reachable_methods(prog, cls, rn, stop):
        for ch in table_choices(fi.node):
            node = ch["node"]
            if ch.get("loose"):
                stored = _is_table_write(fi.node, node)
                n_loose_writes += 1 if stored else 0
                run.check(not stored, "C11.REQ", fi.qual, node,
                          f"a subscription is written into self.{node.attr} outside any test of the subscription's "
                          f"`{FLAG_ATTR}`: it is filed there whatever group the actor's proposals are routed to",
                          node=node, file=fi.file, instance=f"{fi.qual}: table reference line {node.lineno}")
                continue
            n_choice += 1
            wrong = [x for x in ch["when_op"] if SUBS_ATTRS[x.attr] != "op"] + \
                    [x for x in ch["when_reg"] if SUBS_ATTRS[x.attr] != "reg"]
            test = node.test
            run.check(not wrong, "C11.REQ", fi.qual, test,
                      "the subscription table is chosen against the subscription's flag"
                      + (f" (self.{wrong[0].attr} where `{FLAG_ATTR}` is "
                         f"{'true' if wrong[0] in ch['when_op'] else 'false'})" if wrong else "")
                      + ": operating-point actors are served the regular group's status by _send_reports and "
                      "regular actors the operating-point group's - the targets reported to the two kinds of actors "
                      "are exchanged / one of them is never reported, and no longer add up to the request",
                      node=wrong[0] if wrong else node, file=fi.file,
                      instance=f"{fi.qual}: table chosen by the flag (line {node.lineno})")
    if n_choice == 0 and not n_loose_writes:
        raise AnalysisError(f"{rn.qual}: the choice of the subscription table by the subscription's `{FLAG_ATTR}` "
                            "was not found (no conditional on the flag names the tables)")


def _is_table_write(fn: ast.AST, ref: ast.Attribute) -> bool:
    """Entries are written into the table through this reference (directly or through a local name bound to it:
    `t = self.T; t[ids] = {...}; t[ids][priority] = ...; t.setdefault(...)`)."""
    if any(use["kind"] in ("set", "remove", "rebind") for use in mapping_uses(fn, lambda n: n is ref)):
        return True
    # an inner entry: self.T[ids][priority] = sender (a look-up of the table, then a store)
    aliases = {t.id for n in ast.walk(fn) if isinstance(n, ast.Assign) and n.value is ref
               for t in n.targets if isinstance(t, ast.Name)}
    for n in ast.walk(fn):
        if isinstance(n, ast.Subscript) and isinstance(n.ctx, ast.Store):
            base: ast.AST = n.value
            while isinstance(base, ast.Subscript):
                base = base.value
            if base is ref or (isinstance(base, ast.Name) and base.id in aliases):
                return True
    return False


CONTROLS = [
    ("sum drops the regular term", "microgrid._power_managing._power_managing_actor",
     "return tgt_power_shift + tgt_power_no_shift", "return tgt_power_shift", "C11.SUM"),
    ("shift has the wrong sign", "microgrid._power_managing._power_managing_actor",
     "bounds.inclusion_bounds.lower - op_power", "bounds.inclusion_bounds.lower + op_power",
     "C11.SHIFT"),
    ("bounds stored after recomputation", "microgrid._power_managing._power_managing_actor",
     "            self._system_bounds[component_ids] = bounds\n            await self._send_updated_target_power(component_ids, None)\n",
     "            await self._send_updated_target_power(component_ids, None)\n            self._system_bounds[component_ids] = bounds\n",
     "C11.REQ"),
    ("regular reports not shifted", "microgrid._power_managing._power_managing_actor",
     "                self._calculate_shifted_bounds(\n                    bounds,\n                    self._set_op_power_group.get_target_power(component_ids),\n                ),",
     "                bounds,", "C11.REQ"),
    ("resolver skips an emptied bucket", "microgrid._power_managing._matryoshka",
     "        if proposals is None:\n            return None\n", "        if not proposals:\n            return None\n",
     "C11.SUM"),
    ("reports dropped after a proposal", "microgrid._power_managing._power_managing_actor",
     "                await self._send_reports(proposal.component_ids)\n", "                pass\n", "C11.REQ"),
    ("report target is not the stored target", "microgrid._power_managing._matryoshka",
     "            target_power=target_power,\n            _inclusion_bounds=timeseries.Bounds",
     "            target_power=None,\n            _inclusion_bounds=timeseries.Bounds", "C11.REQ"),
    ("first group computed in shifted bounds", "microgrid._power_managing._power_managing_actor",
     "                    proposal,\n                    self._system_bounds[component_ids],\n                    must_send,\n"
     "                )\n                tgt_power_shift = self._set_op_power_group.calculate_target_power(",
     "                    proposal,\n                    self._calculate_shifted_bounds(self._system_bounds[component_ids], "
     "self._set_op_power_group.get_target_power(component_ids)),\n                    must_send,\n"
     "                )\n                tgt_power_shift = self._set_op_power_group.calculate_target_power(",
     "C11.SHIFT"),
    ("stored target reset when proposals expire", "microgrid._power_managing._matryoshka",
     "            for proposal in to_delete:\n                bucket.remove(proposal)\n",
     "            for proposal in to_delete:\n                bucket.remove(proposal)\n"
     "            if not bucket:\n                self._target_power.clear()\n", "C11.SUM"),
    ("request power adjusted after the sum", "microgrid._power_managing._power_managing_actor",
     "                    power=target_power,\n",
     "                    power=(target_power if self._system_bounds[component_ids].exclusion_bounds is None else "
     "max(target_power, self._system_bounds[component_ids].exclusion_bounds.upper)),\n", "C11.REQ"),
    ("report hides the stored target of an emptied bucket", "microgrid._power_managing._matryoshka",
     "            target_power=target_power,\n            _inclusion_bounds=timeseries.Bounds",
     "            target_power=(target_power if self._component_buckets.get(component_ids) else None),\n"
     "            _inclusion_bounds=timeseries.Bounds", "C11.REQ"),
    ("subscription built without the operating-point flag", "timeseries.battery_pool._battery_pool",
     "            component_ids=self._pool_ref_store._batteries,\n"
     "            set_operating_point=self._set_operating_point,\n        )\n        self._pool_ref_store._power_bounds_subs",
     "            component_ids=self._pool_ref_store._batteries,\n        )\n        self._pool_ref_store._power_bounds_subs",
     "C11.REQ"),
    ("subscription flag not from the source of the proposals' flag", "timeseries.battery_pool._battery_pool",
     "            component_ids=self._pool_ref_store._batteries,\n"
     "            set_operating_point=self._set_operating_point,\n        )\n        self._pool_ref_store._power_bounds_subs",
     "            component_ids=self._pool_ref_store._batteries,\n"
     "            set_operating_point=False,\n        )\n        self._pool_ref_store._power_bounds_subs",
     "C11.REQ"),
    ("subscription tables exchanged", "microgrid._power_managing._power_managing_actor",
     "                    self._set_op_power_subscriptions\n                    if set_operating_point\n"
     "                    else self._set_power_subscriptions\n",
     "                    self._set_power_subscriptions\n                    if set_operating_point\n"
     "                    else self._set_op_power_subscriptions\n", "C11.REQ"),
    ("reports sent for the group of another arm", "microgrid._power_managing._power_managing_actor",
     "                await self._send_reports(proposal.component_ids)\n",
     "                await self._send_reports(component_ids)\n", "C11.ARM"),
    ("report channel name without the operating-point flag", "microgrid._power_managing._base_classes",
     '            f".{self.set_operating_point=}"\n', '            f""\n', "C11.CHAN"),
]


def run_rules(run: Run, prog: Program) -> None:
    roles = resolve_roles(prog, prog.cls(ACTOR))
    check_calc(run, prog, roles)
    check_resolver(run, prog)
    check_reported_target(run, prog)
    check_state_writers(run, prog)
    check_shift_fn(run, prog, roles)
    check_req(run, prog, roles)


def check(run: Run, prog: Program, tier: str) -> str:
    run.rule("C11.SUM", "on every abstract path of _calculate_target_power the returned power is the "
             "sum of both groups' current targets (new result or, when unchanged, the stored one); a group's "
             "stored target is written only by calculate_target_power (the fresh target it returns), buckets "
             "are never removed")
    run.rule("C11.SHIFT", "the first-computed group is bounded by the unshifted cached system bounds, the "
             "second-computed group by the system bounds shifted by the "
             "first group's current target; _calculate_shifted_bounds shifts both inclusion "
             "bounds alike and passes exclusion bounds through")
    run.rule("C11.ARM", "in every arm of the event loop the component group that is recomputed / reported for is made of "
             "locals bound on the current pass of the loop (the arm's own message) - never a local whose reaching "
             "definition lies in another arm (the group of an earlier message, or unbound); followed through copies and "
             "through private helpers that hand the group on")
    run.rule("C11.CHAN", "the key under which a subscriber's report sender is obtained from the channel registry contains, "
             "whole, every field of the subscription that decides where the event loop stores the sender (the field that "
             "selects the table, the fields used as keys): subscriptions filed apart never share a channel")
    run.rule("C11.REQ", "requests are built only from that result (no adjustment after the sum); new bounds are "
             "stored before recomputing; regular reports use the op-shifted bounds; every report carries the group's "
             "stored target in every state; a subscription names the same group (component ids, operating-point "
             "flag) as the proposals of the class that builds it and is filed and served under that group")
    run_rules(run, prog)
    run.floor("C11.SUM", 30)
    run.floor("C11.SHIFT", 20)
    run.floor("C11.REQ", 6)
    run.floor("C11.ARM", 2)
    run.floor("C11.CHAN", 2)
    from ..engine.controls import run_controls

    # the controls are located by structure in the analysed tree (textual patches as fallback)
    run_controls(run, structural_controls(prog, ACTOR, MODULE, CONTROLS), run_rules, tier)
    run.assume("the model of a group used by the SUM rule (None = unchanged, otherwise the new target is "
               "stored and returned) is decided on Matryoshka.calculate_target_power itself (resolver "
               "contract, C11.SUM); _calc_target_power and _validate_component_ids are opaque there "
               "(C03 decides them)")
    run.assume("with C03.ENV (target within the bounds it is computed in) the SHIFT rule composes "
               "to regular+op within the system inclusion bounds — documented lemma")
    run.undecided("timing between bounds arrival and distribution results")
    run.extra_cov["exhaustive"] = True
    return ("Abstract interpretation (fork-and-replay) of _calculate_target_power over: proposal "
            "kind (none/regular/operating-point) x stored target present/absent per group x each "
            "group's recalculation returning new/unchanged; every abstract path is checked for "
            "the sum and shift rules. _calculate_shifted_bounds, _send_updated_target_power, "
            "_bounds_tracker and _send_reports are interpreted in the same symbolic domain "
            "(private helpers followed, values bound by dataflow); who-may-construct rule for "
            "Request / the requests sender over the whole class. The reported target of get_status is evaluated "
            "over the resolver's states; the group named by report subscriptions is compared by dataflow with the "
            "group named by the proposals of the same client class (all pools), and the subscription table chosen "
            "in the event loop with the flag it is chosen by.")
