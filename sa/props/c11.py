"""C11  Distributed power = regular target + operating-point target, in bounds.

Abstract interpretation of PowerManagingActor._calculate_target_power over a small symbolic
domain: each of the two Matryoshka groups has a stored target (None or a symbol) and a
`calculate_target_power` call forks into {returns a new target, returns None = unchanged}.
Every abstract path is checked for C11.SUM (returned power == sum of both groups' *current*
targets) and C11.SHIFT (the second-computed group gets the system bounds shifted by the *current*
target of the first).  _calculate_shifted_bounds is checked as a term (both inclusion bounds minus
the same power, exclusion bounds passed through).  C11.REQ are who-may-construct / ordering rules.
"""
from __future__ import annotations

import ast
from typing import Any

from ..engine.absint import Interp, Obj
from ..engine.cfg import CFG
from ..engine.report import AnalysisError, Run
from ..engine.resolver import Program, body_walk
from ..engine.util import find_calls, method_call, node_has_call, node_writes, nodes_with_call, u

ACTOR = "microgrid._power_managing._power_managing_actor:PowerManagingActor"
GROUP_ATTRS = {"_set_op_power_group": "op", "_set_power_group": "reg"}


class Sym:
    def __init__(self, name: str) -> None:
        self.name = name

    def __repr__(self) -> str:
        return self.name


class SumV:
    def __init__(self, parts: frozenset[str]) -> None:
        self.parts = parts

    def __repr__(self) -> str:
        return " + ".join(sorted(self.parts))


def parts_of(v: Any) -> frozenset[str] | None:
    if v is None:
        return frozenset()
    if isinstance(v, Sym):
        return frozenset({v.name})
    if isinstance(v, SumV):
        return v.parts
    return None


class C11Interp(Interp):
    def __init__(self) -> None:
        super().__init__()
        self.stored: dict[str, Any] = {}
        self.calls: list[dict[str, Any]] = []
        self.fresh = 0

    def reset(self) -> None:
        self.stored = {}
        self.calls = []
        self.fresh = 0

    def snapshot(self) -> Any:
        return {"stored": dict(self.stored), "calls": list(self.calls)}

    def get_attr(self, base: Any, attr: str, node: ast.AST) -> Any:
        if isinstance(base, Obj) and base.cls == "self":
            if attr in GROUP_ATTRS:
                return Obj("Group", name=GROUP_ATTRS[attr])
            if attr == "_system_bounds":
                return Obj("BoundsCache")
            if attr == "_calculate_shifted_bounds":
                return ("builtin", "shift")
            raise AnalysisError(f"self.{attr} not modelled in the C11 domain")
        if isinstance(base, Obj) and base.cls == "Proposal" and attr == "set_operating_point":
            return base.fields["set_operating_point"]
        return super().get_attr(base, attr, node)

    def obj_method(self, base: Obj, attr: str, node: ast.AST) -> Any:
        if base.cls == "Group" and attr in ("calculate_target_power", "get_target_power"):
            return ("builtin", attr, base.fields["name"])
        if base.cls == "BoundsCache" and attr == "get":
            return ("builtin", "sb")
        raise AnalysisError(f"method {base.cls}.{attr} not modelled in the C11 domain")

    def get_item(self, base: Any, key: Any, node: ast.AST) -> Any:
        if isinstance(base, Obj) and base.cls == "BoundsCache":
            return Obj("SB", ids=key)
        return super().get_item(base, key, node)

    def apply(self, fn: Any, pos: list[Any], kw: dict[str, Any], node: ast.AST) -> Any:
        if isinstance(fn, tuple) and fn[0] == "builtin" and fn[1] == "calculate_target_power":
            group = fn[2]
            if len(pos) < 3:
                raise AnalysisError("calculate_target_power call shape not recognised")
            before = self.stored.get(group)
            changed = self.choose(2, f"{group}.calculate_target_power returns new target") == 1
            if changed:
                self.fresh += 1
                val: Any = Sym(f"T_{group}_new{self.fresh}")
                self.stored[group] = val
            else:
                val = None  # unchanged (or no proposals at all): stored target stays as it was
            self.calls.append({"group": group, "proposal": pos[1], "bounds": pos[2],
                               "result": val, "stored_before": before, "node": node,
                               "stored_all_before": dict(self.stored) if not changed else
                               {**self.stored, group: before}})
            return val
        if isinstance(fn, tuple) and fn[0] == "builtin" and fn[1] == "get_target_power":
            return self.stored.get(fn[2])
        if isinstance(fn, tuple) and fn[0] == "builtin" and fn[1] == "shift":
            return Obj("Shifted", base=pos[0], by=pos[1])
        return super().apply(fn, pos, kw, node)

    def binop(self, op: ast.operator, a: Any, b: Any, node: ast.AST) -> Any:
        pa, pb = parts_of(a), parts_of(b)
        if isinstance(op, ast.Add) and pa is not None and pb is not None and a is not None \
                and b is not None:
            if pa & pb:
                return SumV(frozenset(pa | pb | {"<duplicate:" + ",".join(sorted(pa & pb)) + ">"}))
            return SumV(pa | pb)
        raise AnalysisError("operator on target powers not modelled (only `+` of two targets)")

    def truth_of(self, v: Any, node: ast.AST | None) -> bool:
        if isinstance(v, (Sym, SumV, Obj)):
            return True  # Quantity defines no __bool__/__len__: truthiness is a None test
        return super().truth_of(v, node)


def check_calc(run: Run, prog: Program) -> None:
    fn = prog.func(f"{ACTOR}._calculate_target_power")
    run.analysed(fn.qual)
    interp = C11Interp()
    scen = {"n": 0}

    def make_args() -> dict[str, Any]:
        kind = interp.choose(3, "proposal kind")  # 0: None, 1: regular, 2: operating point
        proposal = None if kind == 0 else Obj("Proposal", set_operating_point=(kind == 2))
        # stored targets of either group before the call: absent or present
        for g in ("op", "reg"):
            if interp.choose(2, f"stored {g} target exists") == 1:
                interp.stored[g] = Sym(f"T_{g}_old")
        scen["n"] += 1
        return {"self": Obj("self"), "component_ids": Sym("ids"), "proposal": proposal,
                "must_send": Sym("must_send")}

    outs = interp.explore(fn.node, make_args)
    if len(outs) < 24:
        raise AnalysisError(f"{fn.qual}: only {len(outs)} abstract paths explored")
    n_changed = 0
    for out in outs:
        desc = "; ".join(f"{lab}={d}" for lab, d in zip(out.labels, out.decisions))
        if out.kind != "return":
            run.violation("C11.SUM", fn.qual, "raise", f"path raises {out.value}: {desc}",
                          node=fn.node, file=fn.file)
            continue
        st = out.state
        stored, calls = st["stored"], st["calls"]
        groups_called = [c["group"] for c in calls]
        run.check(sorted(groups_called) == ["op", "reg"], "C11.SUM", fn.qual,
                  "both groups recalculated exactly once",
                  f"groups recalculated on this path: {groups_called} ({desc})",
                  node=fn.node, file=fn.file, instance=f"both groups recalculated: {desc}")
        if sorted(groups_called) != ["op", "reg"]:
            continue
        # proposal routed to its own group only
        for c in calls:
            p = c["proposal"]
            if p is not None:
                want = "op" if p.fields["set_operating_point"] else "reg"
                run.check(c["group"] == want, "C11.SUM", fn.qual, c["node"],
                          f"a {'operating-point' if want == 'op' else 'regular'} proposal is "
                          f"handed to the {c['group']} group", node=c["node"], file=fn.file,
                          instance=f"proposal routed to {want} group: {desc}")
        any_new = any(c["result"] is not None for c in calls)
        expected = frozenset(v.name for v in stored.values() if v is not None)
        got = parts_of(out.value)
        if got is None:
            run.violation("C11.SUM", fn.qual, "return", f"unrecognised return value {out.value!r}",
                          node=fn.node, file=fn.file)
            continue
        if any_new:
            n_changed += 1
            ok = got == expected
            ret_node = _return_for(fn, out.value)
            run.check(ok, "C11.SUM", fn.qual, ret_node,
                      f"a group's target changed but the returned power is `{out.value}` while the "
                      f"targets currently reported are {{{', '.join(sorted(expected))}}} — "
                      "`None` from calculate_target_power means *unchanged*, the stored target "
                      f"still applies and must be part of the request. Path: {desc}",
                      node=ret_node if isinstance(ret_node, ast.AST) else fn.node, file=fn.file,
                      instance=f"request = sum of current targets: {desc}")
        else:
            ok = out.value is None or got == expected
            run.check(ok, "C11.SUM", fn.qual, "return when nothing changed",
                      f"nothing changed but `{out.value}` is returned: {desc}", node=fn.node,
                      file=fn.file, instance=f"nothing changed -> no/unchanged request: {desc}")
        # SHIFT: second call's bounds are the system bounds shifted by the first group's
        # *current* target
        first, second = calls
        cur_first = stored_after(first)
        b2 = second["bounds"]
        ok = False
        why = ""
        if isinstance(b2, Obj) and b2.cls == "Shifted" and isinstance(b2.fields["base"], Obj) \
                and b2.fields["base"].cls == "SB":
            by = b2.fields["by"]
            ok = (by is cur_first) or (by is None and cur_first is None)
            why = (f"shift is `{by}` but the {first['group']} group's current target is "
                   f"`{cur_first}`")
        elif isinstance(b2, Obj) and b2.cls == "SB":
            ok = cur_first is None
            why = f"unshifted system bounds although the {first['group']} target is `{cur_first}`"
        else:
            why = f"bounds argument {b2!r} not recognised"
        run.check(ok, "C11.SHIFT", fn.qual, second["node"],
                  f"the {second['group']} group is recalculated within bounds that do not account "
                  f"for the other group's current target: {why} (so target sum can leave the "
                  f"system bounds). Path: {desc}", node=second["node"], file=fn.file,
                  instance=f"second group bounds shifted by first group's current target: {desc}")
        b1 = first["bounds"]
        ok1 = isinstance(b1, Obj) and (b1.cls == "SB" or (
            b1.cls == "Shifted" and isinstance(b1.fields["base"], Obj) and b1.fields["base"].cls == "SB"))
        run.check(ok1, "C11.SHIFT", fn.qual, first["node"],
                  "the first recalculation does not use the cached system bounds of the group",
                  node=first["node"], file=fn.file,
                  instance=f"first group uses the cached system bounds: {desc}")
        run.sample({"path": desc, "returned": repr(out.value), "current_targets": sorted(expected)})
    if n_changed < 10:
        raise AnalysisError("C11.SUM: too few paths with a changed target explored")
    run.extra_cov["abstract_paths"] = len(outs)


def stored_after(call: dict[str, Any]) -> Any:
    return call["result"] if call["result"] is not None else call["stored_before"]


def _return_for(fn: Any, value: Any) -> Any:
    """The return statement producing a value of this shape (for stable finding keys)."""
    rets = [n for n in body_walk(fn.node) if isinstance(n, ast.Return) and n.value is not None]
    if isinstance(value, SumV):
        for r in rets:
            if isinstance(r.value, ast.BinOp):
                return r
    if isinstance(value, Sym) or value is None:
        names = [r for r in rets if isinstance(r.value, ast.Name)]
        if isinstance(value, Sym):
            for r in names:
                if ("no_shift" in r.value.id) == ("reg" in value.name):
                    return r
        if names:
            return names[-1]
    return rets[-1] if rets else "return"


def check_shift_fn(run: Run, prog: Program) -> None:
    fn = prog.func(f"{ACTOR}._calculate_shifted_bounds")
    run.analysed(fn.qual)
    b, p = fn.params[1], fn.params[2]
    # None shift -> bounds unchanged
    ok_none = False
    for s in fn.node.body:
        if isinstance(s, ast.If) and u(s.test) in (f"{p} is None", f"not {p}"):
            ok_none = len(s.body) == 1 and isinstance(s.body[0], ast.Return) and u(s.body[0].value) == b
    run.check(ok_none, "C11.SHIFT", fn.qual, f"if {p} is None: return {b}",
              "a missing operating-point power does not leave the bounds unchanged",
              node=fn.node, file=fn.file)
    calls = find_calls(fn.node, lambda c: u(c.func) in ("Bounds", "timeseries.Bounds"))
    ok = len(calls) == 1
    detail = "expected one Bounds(lower - op, upper - op) construction"
    if ok:
        c = calls[0]
        args = {k.arg: k.value for k in c.keywords}
        if len(c.args) >= 1:
            args.setdefault("lower", c.args[0])
        if len(c.args) >= 2:
            args.setdefault("upper", c.args[1])
        want_l = f"{b}.inclusion_bounds.lower - {p}"
        want_u = f"{b}.inclusion_bounds.upper - {p}"
        ok = u(args.get("lower")) == want_l and u(args.get("upper")) == want_u
        detail = (f"inclusion bounds must both be shifted by -{p}: got lower=`{u(args.get('lower'))}`"
                  f", upper=`{u(args.get('upper'))}`")
    run.check(ok, "C11.SHIFT", fn.qual, "Bounds(lower - op_power, upper - op_power)", detail,
              node=fn.node, file=fn.file)
    sb = find_calls(fn.node, lambda c: u(c.func) == "SystemBounds")
    ok = len(sb) == 1
    if ok:
        kws = {k.arg: u(k.value) for k in sb[0].keywords}
        ok = kws.get("exclusion_bounds") == f"{b}.exclusion_bounds" and \
            kws.get("inclusion_bounds") == "inclusion_bounds"
    run.check(ok, "C11.SHIFT", fn.qual, "SystemBounds(inclusion shifted, exclusion passed through)",
              "shifted SystemBounds does not carry the shifted inclusion bounds and the unchanged "
              "exclusion bounds", node=fn.node, file=fn.file)


def check_req(run: Run, prog: Program) -> None:
    cls = prog.cls(ACTOR)
    # who may construct a Request / send on the requests sender
    n_req = 0
    for m in cls.methods.values():
        for call in find_calls(m.node, lambda c: u(c.func).endswith("Request")):
            n_req += 1
            kws = {k.arg: u(k.value) for k in call.keywords}
            ok = m.name == "_send_updated_target_power" and kws.get("power") == "target_power" \
                and kws.get("component_ids") == "component_ids"
            run.check(ok, "C11.REQ", m.qual, call,
                      "a Request is built outside _send_updated_target_power or not from the "
                      "computed target power / the same component ids", node=call, file=m.file)
        for call in find_calls(m.node, lambda c: method_call(
                c, "self._power_distributing_requests_sender", "send")):
            run.check(m.name == "_send_updated_target_power", "C11.REQ", m.qual, call,
                      "requests are sent outside _send_updated_target_power", node=call, file=m.file)
    if n_req != 1:
        raise AnalysisError(f"C11.REQ: expected one Request construction, found {n_req}")
    su = prog.func(f"{ACTOR}._send_updated_target_power")
    run.analysed(su.qual)
    cfg = CFG(su.node, su.file)
    defs = [n for n in cfg.nodes if isinstance(n.ast, ast.Assign) and u(n.ast.targets[0]) == "target_power"]
    ok = len(defs) == 1 and isinstance(defs[0].ast.value, ast.Call) and method_call(  # type: ignore[union-attr]
        defs[0].ast.value, "self", "_calculate_target_power")  # type: ignore[union-attr]
    if ok:
        call = defs[0].ast.value  # type: ignore[union-attr]
        ok = [u(a) for a in call.args] == su.params[1:4]
    run.check(ok, "C11.REQ", su.qual, "target_power = self._calculate_target_power(component_ids, "
              "proposal, must_send)", "the sent power does not come from _calculate_target_power "
              "for the same group/proposal", node=su.node, file=su.file)
    sends = nodes_with_call(cfg, lambda c: method_call(c, "self._power_distributing_requests_sender", "send"))
    guards = [t for t in cfg.nodes if t.kind == "test" and u(t.ast) in (
        "target_power is not None", "target_power is None")]
    ok = bool(sends) and len(guards) == 1
    if ok:
        g = guards[0]
        lab = "true" if "is not" in g.label else "false"
        ok = [m for m, l in cfg.succ[g.id] if l == lab] == sends[:1] and \
            cfg.path(cfg.entry, sends, avoid=[g.id]) is None
    run.check(ok, "C11.REQ", su.qual, "send iff target_power is not None",
              "a request is not sent exactly when a target power was returned", node=su.node,
              file=su.file)
    # bounds tracker: store first, then recompute, then report
    bt = prog.func(f"{ACTOR}._bounds_tracker")
    run.analysed(bt.qual)
    cfg = CFG(bt.node, bt.file)
    stores = [n.id for n in cfg.nodes if n.kind == "stmt" and any(
        u(w) == "self._system_bounds[component_ids]" for w in node_writes(cfg, n.id))]
    sends = nodes_with_call(cfg, lambda c: method_call(c, "self", "_send_updated_target_power"))
    reports = nodes_with_call(cfg, lambda c: method_call(c, "self", "_send_reports"))
    loops = [n for n in cfg.nodes if n.kind == "for"]
    ok = bool(stores) and bool(sends) and bool(reports) and len(loops) == 1
    wit = None
    if ok:
        h = loops[0]
        body = [m for m, lab in cfg.succ[h.id] if lab == "iter"]
        wit = cfg.path(body[0], sends, avoid=stores) if body[0] not in stores else None
        ok = wit is None
        s = cfg.nodes[stores[0]].ast
        ok = ok and isinstance(s, ast.Assign) and u(s.value) == u(h.ast.target)  # type: ignore[union-attr]
        if ok:
            # every iteration reaches the recomputation before the next message
            w2 = cfg.path(stores[0], [h.id], avoid=sends, edge_ok=lambda a, b, lab: not lab.startswith("exc:"))
            ok = w2 is None
            wit = w2
            c = [x for x in find_calls(cfg.nodes[sends[0]].ast, lambda c: method_call(  # type: ignore[arg-type]
                c, "self", "_send_updated_target_power"))][0]
            ok = ok and [u(a) for a in c.args][:1] == ["component_ids"]
    run.check(ok, "C11.REQ", bt.qual, "store new bounds, then _send_updated_target_power, then reports",
              "new system bounds are not stored before the target power is recomputed for that "
              "group (the request would be clamped to stale bounds)", node=bt.node, file=bt.file,
              path=cfg.describe_path(wit))
    # reports: regular group sees bounds shifted by the op group's current target
    sr = prog.func(f"{ACTOR}._send_reports")
    run.analysed(sr.qual)
    st_calls = find_calls(sr.node, lambda c: isinstance(c.func, ast.Attribute) and c.func.attr == "get_status")
    seen = {}
    for c in st_calls:
        grp = u(c.func.value)  # type: ignore[union-attr]
        seen[grp] = u(c.args[2]) if len(c.args) > 2 else None
    ok = seen.get("self._set_op_power_group") == "bounds" and (seen.get("self._set_power_group") or "") \
        .replace(" ", "") == ("self._calculate_shifted_bounds(bounds,self._set_op_power_group."
                              "get_target_power(component_ids))")
    run.check(ok, "C11.REQ", sr.qual, "regular reports use bounds shifted by the operating-point target",
              f"reports are computed against {seen}: what regular actors are told no longer "
              "matches the bounds their target is computed in", node=sr.node, file=sr.file)


CONTROLS = [
    ("sum drops the regular term", "microgrid._power_managing._power_managing_actor",
     "return tgt_power_shift + tgt_power_no_shift", "return tgt_power_shift", "C11.SUM"),
    ("shift has the wrong sign", "microgrid._power_managing._power_managing_actor",
     "bounds.inclusion_bounds.lower - op_power", "bounds.inclusion_bounds.lower + op_power",
     "C11.SHIFT"),
    ("bounds stored after recomputation", "microgrid._power_managing._power_managing_actor",
     "            self._system_bounds[component_ids] = bounds\n            await self._send_updated_target_power(component_ids, None)\n",
     "            await self._send_updated_target_power(component_ids, None)\n            self._system_bounds[component_ids] = bounds\n",
     "C11.REQ"),
    ("regular reports not shifted", "microgrid._power_managing._power_managing_actor",
     "                self._calculate_shifted_bounds(\n                    bounds,\n                    self._set_op_power_group.get_target_power(component_ids),\n                ),",
     "                bounds,", "C11.REQ"),
]


def run_rules(run: Run, prog: Program) -> None:
    check_calc(run, prog)
    check_shift_fn(run, prog)
    check_req(run, prog)


def check(run: Run, prog: Program, tier: str) -> str:
    run.rule("C11.SUM", "on every abstract path of _calculate_target_power the returned power is the "
             "sum of both groups' current targets (new result or, when unchanged, the stored one)")
    run.rule("C11.SHIFT", "the second-computed group is bounded by the system bounds shifted by the "
             "first group's current target; _calculate_shifted_bounds shifts both inclusion "
             "bounds alike and passes exclusion bounds through")
    run.rule("C11.REQ", "requests are built only from that result; new bounds are stored before "
             "recomputing; regular reports use the op-shifted bounds")
    run_rules(run, prog)
    run.floor("C11.SUM", 30)
    run.floor("C11.SHIFT", 20)
    run.floor("C11.REQ", 6)
    from ..engine.controls import run_controls

    run_controls(run, CONTROLS, run_rules, tier)
    run.assume("Matryoshka.calculate_target_power returns None only for 'unchanged' or 'no proposals "
               "/ no bounds' and otherwise stores and returns the new target (read from "
               "_matryoshka.py; re-checked structurally under C03.PURE)")
    run.assume("with C03.ENV (target within the bounds it is computed in) the SHIFT rule composes "
               "to regular+op within the system inclusion bounds — documented lemma")
    run.undecided("timing between bounds arrival and distribution results")
    run.extra_cov["exhaustive"] = True
    return ("Abstract interpretation (fork-and-replay) of _calculate_target_power over: proposal "
            "kind (none/regular/operating-point) x stored target present/absent per group x each "
            "group's recalculation returning new/unchanged; every abstract path is checked for "
            "the sum and shift rules. Plus term/shape rules on _calculate_shifted_bounds and "
            "who-may-construct/ordering rules for requests, bounds tracker and reports.")
