"""C08  Resampled values use exactly the recent, non-future input samples.

  C08.EDGE    both window edges use the function `bisect` resolves to (bisect.bisect_right), keyed
              by the sample timestamp: left edge exclusive at T - age, right edge inclusive at T; the
              slice is islice(buffer, min_index, max_index) in buffer order.
  C08.AGE     minimum_relevant_timestamp == T - max(period, input period) * max_data_age, with the
              input period defaulting to the resampling period while unknown.
  C08.FILTER  samples enter the buffer only via add_sample, only from _receive_samples and only under
              `value is not None and not value.isnan()`; add_sample appends every sample it is given.
  C08.NONE    the resampling function is called iff the relevant set is non-empty; otherwise None.
  C08.BUF     the buffer is always a bounded deque, appended on the right only, re-created from its
              old content when resized.
  C08.EST     the input-period estimate is only computed once `now > sampling_start` is established
              (sign discipline of the estimate that feeds C08.AGE).
"""
from __future__ import annotations

import ast

from ..engine.cfg import CFG
from ..engine.report import AnalysisError, Run
from ..engine.resolver import Program, body_walk
from ..engine.terms import Poly, TermEval
from ..engine.util import canon, canon_total, find_calls, method_call, node_writes, nodes_with_call, u

MOD = "timeseries._resampling"
HELPER = f"{MOD}:_ResamplingHelper"


def check_edge(run: Run, prog: Program) -> None:
    fn = prog.func(f"{HELPER}.resample")
    run.analysed(fn.qual)
    mod = fn.module
    T = fn.params[1]
    defs = {u(s.targets[0]): s.value for s in body_walk(fn.node)
            if isinstance(s, ast.Assign) and isinstance(s.targets[0], ast.Name)}
    rel = [k for k, v in defs.items() if isinstance(v, ast.Call) and u(v.func) == "list" and v.args
           and isinstance(v.args[0], ast.Call) and u(v.args[0].func).endswith("islice")]
    if len(rel) != 1:
        raise AnalysisError(f"{fn.qual}: relevant-sample slice not found")
    sl = defs[rel[0]].args[0]  # type: ignore[union-attr]
    ok = len(sl.args) == 3 and u(sl.args[0]) == "self._buffer"
    run.check(ok, "C08.EDGE", fn.qual, sl, "the relevant samples are not a contiguous slice of the buffer",
              node=sl, file=fn.file)
    if not ok:
        return
    lo_name, hi_name = u(sl.args[1]), u(sl.args[2])
    REQUIRED = {"lower": ("bisect.bisect_right", "exclusive"), "upper": ("bisect.bisect_right", "inclusive")}
    for edge, name in (("lower", lo_name), ("upper", hi_name)):
        call = defs.get(name)
        ok = isinstance(call, ast.Call) and isinstance(call.func, (ast.Name, ast.Attribute))
        resolved = ""
        if ok:
            resolved = prog.external_name(mod, u(call.func))  # type: ignore[union-attr]
            if resolved == "bisect.bisect":
                resolved = "bisect.bisect_right"  # stdlib fact: bisect.bisect is bisect_right
            kws = {k.arg: k.value for k in call.keywords}  # type: ignore[union-attr]
            key = kws.get("key")
            key_ok = isinstance(key, ast.Lambda) and u(key.body) == f"{key.args.args[0].arg}.timestamp"
            arr_ok = u(call.args[0]) == "self._buffer"  # type: ignore[union-attr]
            ok = resolved == REQUIRED[edge][0] and key_ok and arr_ok and not kws.get("lo") and not kws.get("hi")
        what = ("samples stamped exactly T - age would be included" if edge == "lower"
                else "samples stamped exactly T would be excluded")
        run.check(ok, "C08.EDGE", fn.qual, f"{name} = {u(call) if call is not None else '?'}",
                  f"the {edge} window edge does not use bisect_right keyed by the sample timestamp over "
                  f"the buffer (resolved: {resolved or 'n/a'}): {what}, or a different ordering key is used",
                  node=call if call is not None else fn.node, file=fn.file,
                  instance=f"{fn.qual}: {edge} edge uses {REQUIRED[edge][0]} ({REQUIRED[edge][1]})")
    # needles
    hi_call, lo_call = defs.get(hi_name), defs.get(lo_name)
    ok = isinstance(hi_call, ast.Call) and len(hi_call.args) >= 2 and u(hi_call.args[1]) == T
    run.check(ok, "C08.EDGE", fn.qual, "upper edge at the tick timestamp",
              "the upper edge is not the tick timestamp: samples stamped later than T could be used",
              node=fn.node, file=fn.file)
    mrt = u(lo_call.args[1]) if isinstance(lo_call, ast.Call) and len(lo_call.args) >= 2 else None
    # C08.AGE
    te = TermEval()
    age_def = defs.get(mrt or "")
    ok = age_def is not None
    if ok:
        p = te.ev(age_def)
        per_name = None
        for cand, v in defs.items():
            if isinstance(v, ast.IfExp) and "sampling_period" in u(v):
                per_name = cand
        want = Poly.atom(T) - Poly.atom(per_name or "?") * Poly.atom("conf.max_data_age_in_periods")
        ok = per_name is not None and p == want
        if ok:
            v = defs[per_name]
            ok = (canon(v.test) == ("isnot", frozenset({"props.sampling_period", "None"}))  # type: ignore[union-attr]
                  and isinstance(v.body, ast.Call) and u(v.body.func) == "max"  # type: ignore[union-attr]
                  and sorted(u(a) for a in v.body.args) == ["conf.resampling_period", "props.sampling_period"]  # type: ignore[union-attr]
                  and u(v.orelse) == "conf.resampling_period")  # type: ignore[union-attr]
        aliases = {k: u(v) for k, v in defs.items() if k in ("conf", "props")}
        ok = ok and aliases == {"conf": "self._config", "props": "self._source_properties"}
    run.check(ok, "C08.AGE", fn.qual, f"{mrt} = {T} - max(resampling period, input period) * max_data_age",
              "the oldest relevant timestamp is not T - max(resampling period, current input period) * "
              "max_data_age_in_periods (with the resampling period while the input period is unknown)",
              node=fn.node, file=fn.file)
    # C08.NONE
    vals = [v for k, v in defs.items() if isinstance(v, ast.IfExp) and "resampling_function" in u(v)]
    ok = len(vals) == 1
    if ok:
        v = vals[0]
        ok = canon(v.test) == ("truthy", rel[0]) and isinstance(v.body, ast.Call) \
            and u(v.body.func) == "conf.resampling_function" and u(v.body.args[0]) == rel[0] \
            and isinstance(v.orelse, ast.Constant) and v.orelse.value is None
    run.check(ok, "C08.NONE", fn.qual, "value = f(relevant) if relevant else None",
              "the resampling function is not called exactly when there are relevant samples (with "
              "those samples)", node=fn.node, file=fn.file)
    rets = [n for n in body_walk(fn.node) if isinstance(n, ast.Return)]
    ok = len(rets) == 1 and u(rets[0].value).replace(" ", "") == f"Sample({T},NoneifvalueisNoneelseQuantity(value))"
    run.check(ok, "C08.NONE", fn.qual, rets[0] if rets else "return",
              "the emitted value is not None exactly when nothing was computed", node=fn.node, file=fn.file)


def check_filter(run: Run, prog: Program) -> None:
    sites = prog.attr_call_sites("add_sample")
    n = 0
    for fn, call in sites:
        if not fn.module.name.endswith("_resampling"):
            continue
        n += 1
        ok = fn.qual == f"{MOD}:_StreamingHelper._receive_samples" and u(call.func.value) == "self._helper"  # type: ignore[union-attr]
        run.check(ok, "C08.FILTER", fn.qual, call, "samples are added to a resampling buffer from "
                  "somewhere else than the filtered receive loop", node=call, file=fn.file)
    if n != 1:
        raise AnalysisError(f"C08.FILTER: expected one add_sample call site, found {n}")
    rs = prog.func(f"{MOD}:_StreamingHelper._receive_samples")
    run.analysed(rs.qual)
    cfg = CFG(rs.node, rs.file)
    adds = nodes_with_call(cfg, lambda c: method_call(c, "self._helper", "add_sample"))
    loops = [h for h in cfg.nodes if h.kind == "for" and u(h.ast.iter) == "self._source"]  # type: ignore[union-attr]
    if len(loops) != 1:
        raise AnalysisError(f"{rs.qual}: receive loop not found")
    sv = u(loops[0].ast.target)  # type: ignore[union-attr]
    want = ("and", frozenset({("isnot", frozenset({f"{sv}.value", "None"})),
                              ("not", ("truthy", f"{sv}.value.isnan()"))}))
    guards = [t.id for t in cfg.nodes if t.kind == "test" and t.ast is not None and canon(t.ast) == want]
    ok = bool(guards) and bool(adds)
    wit = None
    if ok:
        wit = cfg.path(cfg.entry, adds, avoid=guards)
        t_true = [m for m, lab in cfg.succ[guards[0]] if lab == "true"]
        ok = wit is None and t_true == adds[:1]
        c = find_calls(cfg.nodes[adds[0]].ast, lambda c: method_call(c, "self._helper", "add_sample"))[0]  # type: ignore[arg-type]
        ok = ok and [u(a) for a in c.args] == [sv]
    run.check(ok, "C08.FILTER", rs.qual, "if sample.value is not None and not sample.value.isnan(): add_sample(sample)",
              "None/NaN samples can reach the buffer (or valid ones are dropped): the filter in the "
              "receive loop is not exactly `value is not None and not value.isnan()`", node=rs.node,
              file=rs.file, path=cfg.describe_path(wit))
    ad = prog.func(f"{HELPER}.add_sample")
    run.analysed(ad.qual)
    cfg = CFG(ad.node, ad.file)
    apps = nodes_with_call(cfg, lambda c: method_call(c, "self._buffer", "append"))
    wit = cfg.path(cfg.entry, [cfg.exit], avoid=apps)
    ok = len(apps) == 1 and wit is None
    if ok:
        c = find_calls(cfg.nodes[apps[0]].ast, lambda c: method_call(c, "self._buffer", "append"))[0]  # type: ignore[arg-type]
        ok = [u(a) for a in c.args] == [ad.params[1]]
    run.check(ok, "C08.FILTER", ad.qual, "self._buffer.append(sample) on every path",
              "add_sample can return without storing the valid sample it was given (e.g. samples with "
              "equal timestamps silently discarded)", node=ad.node, file=ad.file, path=cfg.describe_path(wit))


def check_buf(run: Run, prog: Program) -> None:
    cls = prog.cls(HELPER)
    writers = []
    for m in cls.methods.values():
        for s in body_walk(m.node):
            if isinstance(s, (ast.Assign, ast.AnnAssign, ast.AugAssign)):
                tg = s.targets[0] if isinstance(s, ast.Assign) else s.target
                if u(tg) == "self._buffer":
                    writers.append((m, s))
        for c in find_calls(m.node, lambda c: isinstance(c.func, ast.Attribute) and u(c.func.value) == "self._buffer"):
            run.check(c.func.attr in ("append",), "C08.BUF", m.qual, c,  # type: ignore[union-attr]
                      f"the sample buffer is mutated with .{c.func.attr}(): arrival order / recency of "  # type: ignore[union-attr]
                      "the stored samples is no longer guaranteed", node=c, file=m.file)
    if len(writers) != 2:
        run.violation("C08.BUF", cls.qual, "writers of _buffer", f"expected 2 writers of self._buffer, "
                      f"found {len(writers)}", node=cls.node, file=cls.module.rel)
        return
    for m, s in writers:
        v = s.value
        ok = isinstance(v, ast.Call) and u(v.func) == "deque" and any(k.arg == "maxlen" for k in v.keywords)
        if ok and m.name != "__init__":
            ok = [u(a) for a in v.args] == ["self._buffer"]
        elif ok:
            ok = not v.args and {k.arg: u(k.value) for k in v.keywords} == {"maxlen": "config.initial_buffer_len"}
        run.check(ok, "C08.BUF", m.qual, s,
                  "the buffer is not a bounded deque (re-created from its old content on resize)",
                  node=s, file=m.file)


def check_est(run: Run, prog: Program) -> None:
    fn = prog.func(f"{HELPER}._update_source_sample_period")
    run.analysed(fn.qual)
    cfg = CFG(fn.node, fn.file)
    now = fn.params[1]
    sets = [n.id for n in cfg.nodes if n.kind == "stmt" and any(
        u(w).endswith(".sampling_period") for w in node_writes(cfg, n.id))]
    if not sets:
        raise AnalysisError(f"{fn.qual}: assignment of the input sampling period not found")
    guards = []
    for t in cfg.nodes:
        if t.kind != "test" or t.ast is None:
            continue
        c = canon_total(t.ast)
        disj = c[1] if isinstance(c, tuple) and c[0] == "or" else frozenset({c})
        if ("<=", now, "props.sampling_start") in disj or ("<=", now, "self._source_properties.sampling_start") in disj:
            t_true = cfg.reachable([m for m, lab in cfg.succ[t.id] if lab == "true"])
            if not any(s in t_true for s in sets):
                guards.append(t.id)
    wit = cfg.path(cfg.entry, sets, avoid=guards)
    run.check(bool(guards) and wit is None, "C08.EST", fn.qual, f"{now} <= props.sampling_start -> no estimate",
              "the input period is estimated without first excluding `now <= sampling_start` (samples "
              "that arrive before a tick but are stamped after it): the estimate can be zero or "
              "negative and then corrupts the relevance window and the buffer length",
              node=fn.node, file=fn.file, path=cfg.describe_path(wit))
    te = TermEval()
    s = cfg.nodes[sets[0]].ast
    ok = isinstance(s, ast.Assign) and isinstance(s.value, ast.Call) and u(s.value.func) == "timedelta"
    if ok:
        kw = {k.arg: k.value for k in s.value.keywords}
        delta = None
        for d in body_walk(fn.node):
            if isinstance(d, ast.Assign) and u(d.targets[0]) == "samples_time_delta":
                delta = te.ev(d.value)
        ok = "seconds" in kw and delta == Poly.atom(now) - Poly.atom("props.sampling_start") and \
            u(kw["seconds"]).replace(" ", "") == "samples_time_delta.total_seconds()/props.received_samples"
    run.check(ok, "C08.EST", fn.qual, "sampling_period = (now - sampling_start) / received_samples",
              "the input period estimate is not elapsed time divided by the number of received samples",
              node=fn.node, file=fn.file)


CONTROLS = [
    ("bisect_left on the lower edge", MOD,
     "        min_index = bisect(\n", "        min_index = bisect_left(\n", "C08.EDGE"),
    ("NaN filter dropped", MOD, "            if sample.value is not None and not sample.value.isnan():",
     "            if sample.value is not None:", "C08.FILTER"),
    ("appendleft", MOD, "        self._buffer.append(sample)\n", "        self._buffer.appendleft(sample)\n", "C08.BUF"),
    ("min instead of max of the two periods", MOD,
     "            max(\n                conf.resampling_period,\n                props.sampling_period,\n            )",
     "            min(\n                conf.resampling_period,\n                props.sampling_period,\n            )", "C08.AGE"),
    ("function called on the empty set", MOD,
     "            conf.resampling_function(relevant_samples, conf, props)\n            if relevant_samples\n            else None",
     "            conf.resampling_function(relevant_samples, conf, props)\n            if relevant_samples is not None\n            else None",
     "C08.NONE"),
    ("race guard weakened", MOD, "            or now <= props.sampling_start\n", "            or now == props.sampling_start\n", "C08.EST"),
]


def run_rules(run: Run, prog: Program) -> None:
    check_edge(run, prog)
    check_filter(run, prog)
    check_buf(run, prog)
    check_est(run, prog)


def check(run: Run, prog: Program, tier: str) -> str:
    run.rule("C08.EDGE", "both edges use bisect_right keyed by timestamp over the buffer; slice in buffer order; "
             "upper needle is the tick timestamp")
    run.rule("C08.AGE", "oldest relevant timestamp = T - max(period, input period or period) * max_data_age")
    run.rule("C08.FILTER", "only valid samples reach add_sample, only from the receive loop; add_sample "
             "stores every sample it gets")
    run.rule("C08.NONE", "function called iff relevant samples exist; None otherwise")
    run.rule("C08.BUF", "bounded deque, right-append only, re-created from old content on resize")
    run.rule("C08.EST", "input period estimated only after excluding now <= sampling_start")
    run_rules(run, prog)
    run.floor("C08.EDGE", 4)
    run.floor("C08.FILTER", 3)
    run.floor("C08.BUF", 3)
    from ..engine.controls import run_controls

    run_controls(run, CONTROLS, run_rules, tier)
    run.assume("stdlib fact: bisect.bisect is bisect.bisect_right; buffer order is arrival order and, "
               "per the property's quantifier, time order")
    run.undecided("the numeric value of the buffer length (how many of the most recent samples fit)")
    return ("Resolved-callee and term-shape rules on the relevance window of _ResamplingHelper.resample, "
            "who-may-call + guard-dominance on the sample filter, who-may-write on the buffer, and "
            "dominance on the input-period estimate.")
