"""C08  Resampled values use exactly the recent, non-future input samples.

  C08.EDGE    the relevant samples are one contiguous selection of the buffer in buffer order, left
              edge exclusive at T - age, right edge inclusive at T, ordered by the sample timestamp:
              islice(buffer, lo, hi) or list(buffer)[lo:hi] with both indices from what `bisect`
              resolves to (bisect.bisect_right) keyed by the timestamp, or a comprehension over the
              buffer filtered by  lo < s.timestamp <= T.
  C08.AGE     minimum_relevant_timestamp == T - max(period, input period) * max_data_age, with the
              input period defaulting to the resampling period while unknown.
  C08.FILTER  samples enter the buffer only via add_sample, only from _receive_samples and only under
              `value is not None and not value.isnan()`; add_sample appends every sample it is given.
  C08.NONE    the resampling function is called iff the relevant set is non-empty; otherwise None.
  C08.BUF     the buffer is always a bounded deque, appended on the right only, re-created from its
              old content when resized.
  C08.EST     the input-period estimate is only computed once `now > sampling_start` is established
              (sign discipline of the estimate that feeds C08.AGE); it is reachable while the period is
              unknown, is elapsed / received, and add_sample keeps the two counters it is made of (one
              increment per stored sample, start = first timestamp).  How long the buffer is made is
              NOT decided: the property allows "the most recent ones that fit the configured buffer";
              what IS decided (C08.BUF) is that every resize is bounded by config.max_buffer_len on
              each path.
  C08.FRESH   one value of the input-period estimate per tick: on every path of _ResamplingHelper.resample
              the refresh (_update_source_sample_period, the only writer) runs before anything reads the
              estimate - the relevance period, helpers that read it (buffer sizing), the source properties
              handed to the resampling function.  A must-precede analysis over the statements, helper
              calls followed inside the class / module.
  C08.UNIT    durations enter the arithmetic of the module whole (`.total_seconds()`): no component field
              of a timedelta (`.seconds`, `.microseconds`, `.days`), no int()/round()/floor()/`//` of
              total_seconds().
  C08.TICK    the T of a tick is the coordinator's window end, advanced exactly once per tick also when
              a series fails (per-tick rules of the C07 checker, re-reported here).
  C08.SINK    what is emitted IS what the helper computed: on every path of the per-series tick function
              (_StreamingHelper.resample) - normal, raising, inside an exception handler - each call of the
              sink (the attribute the constructor stores its `Sink` parameter in) is handed exactly the
              value of `<helper>.resample(T)` evaluated on that path, at most once; no other function of
              the module calls a sink.  EDGE / AGE / NONE are proved for the helper's return value only:
              a sample that reaches the sink by another route (a placeholder on the source-stopped path, a
              default substituted for None, a cached value re-sent, a sample sent by the coordinator's
              error handling) is outside all of them.
  C08.OWN     "the received samples" are those of ONE source: the buffer (and source properties) a window
              is cut from belongs to exactly one registration.  On every path of every function that
              constructs the per-series streaming helper (the class whose constructor takes the resampling
              helper, the source and the sink), the argument in the helper role is a resampling helper
              constructed on that path for this construction - one construction per streaming helper -
              and it does not escape (stored in an attribute / container, handed to another call, returned)
              except into a container keyed by the very expression handed in the source role; a helper that
              is looked up is accepted only under that same key.  The helper's constructor creates an empty
              buffer and new source properties on every path; the streaming helper's helper attribute is
              written by its constructor only, from the parameter; nobody re-binds helper / buffer / source
              properties of another object.
"""
from __future__ import annotations

import ast

from typing import Any

from ..engine.normalize import inline_helpers, positional
from ..engine.report import AnalysisError, Run
from ..engine.resolver import ClassInfo, FuncInfo, Program, body_walk, parent_map
from ..engine.sympath import Path, SymExec, follower, sym_block, sym_paths
from ..engine.terms import Poly, TermEval
from ..engine.util import find_calls, method_call, u

MOD = "timeseries._resampling"
HELPER = f"{MOD}:_ResamplingHelper"
STREAM = f"{MOD}:_StreamingHelper"


BUF = "self._buffer"
CONF = "self._config"
PROPS = "self._source_properties"
RP = f"{CONF}.resampling_period"
SP = f"{PROPS}.sampling_period"
AGE = f"{CONF}.max_data_age_in_periods"
START = f"{PROPS}.sampling_start"
RECV = f"{PROPS}.received_samples"


def _paths(prog: Program, fn: FuncInfo) -> list[Path]:
    """Symbolic paths of `fn` with simple private helpers spliced in (locals substituted away)."""
    return sym_paths(inline_helpers(prog, fn), follow=follower(prog, fn))


def _ext(prog: Program, mod: Any, call: ast.AST) -> str:
    if not isinstance(call, ast.Call):
        return ""
    name = prog.external_name(mod, u(call.func))
    return "bisect.bisect_right" if name == "bisect.bisect" else name  # stdlib fact: bisect is bisect_right


def _timestamp_key(prog: Program, mod: Any, key: ast.AST | None, scope: ast.AST | None = None) -> bool:
    """`key` maps a sample to its timestamp: a lambda, a module-level function with that single
    return, or operator.attrgetter("timestamp") (inline or bound to a module-level name)."""
    def is_getter(e: ast.AST) -> bool:
        return isinstance(e, ast.Call) and prog.external_name(mod, u(e.func)) in ("operator.attrgetter", "attrgetter") \
            and len(e.args) == 1 and not e.keywords and isinstance(e.args[0], ast.Constant) and e.args[0].value == "timestamp"

    if isinstance(key, ast.Lambda):
        return len(key.args.args) == 1 and u(key.body) == f"{key.args.args[0].arg}.timestamp"
    if key is not None and is_getter(key):
        return True
    def def_ok(node: Any) -> bool:
        body = [s for s in node.body if not (isinstance(s, ast.Expr) and isinstance(s.value, ast.Constant))]
        params = [a.arg for a in node.args.posonlyargs + node.args.args]
        return len(body) == 1 and isinstance(body[0], ast.Return) and len(params) == 1 \
            and not node.decorator_list and u(body[0].value) == f"{params[0]}.timestamp"

    if isinstance(key, ast.Name):
        nested = [n for n in ast.walk(scope) if isinstance(n, ast.FunctionDef) and n.name == key.id] if scope is not None else []
        if nested:
            return len(nested) == 1 and def_ok(nested[0])
        local = [n for n in ast.walk(scope) if isinstance(n, (ast.Assign, ast.AnnAssign)) and n.value is not None and any(
            isinstance(t, ast.Name) and t.id == key.id for t in (n.targets if isinstance(n, ast.Assign) else [n.target]))] \
            if scope is not None else []
        if local:
            return len(local) == 1 and (is_getter(local[0].value) or isinstance(local[0].value, ast.Lambda)
                                        and _timestamp_key(prog, mod, local[0].value))
        f = mod.functions.get(key.id)
        if f is not None:
            return def_ok(f.node)
        binds = [s for s in mod.tree.body if isinstance(s, (ast.Assign, ast.AnnAssign)) and s.value is not None and any(
            isinstance(t, ast.Name) and t.id == key.id for t in (s.targets if isinstance(s, ast.Assign) else [s.target]))]
        return len(binds) == 1 and (is_getter(binds[0].value) or _timestamp_key(prog, mod, binds[0].value)
                                    if not isinstance(binds[0].value, ast.Name) else False)
    return False


def _ordered(p: Path, big: str, small: str) -> bool:
    """The path conditions entail big >= small (totally ordered operands)."""
    return (p.outcome(("<", big, small)) is False or p.outcome(("<=", small, big)) is True
            or p.outcome(("==", frozenset({big, small}))) is True)


def _nonempty(p: Path, rel: str) -> bool | None:
    """Outcome of the emptiness test of the relevant-sample container on this path (None: untested)."""
    n = f"len({rel})"
    tests = [(("truthy", rel), True), (("truthy", n), True), (("<", "0", n), True), (("<=", "1", n), True),
             (("==", frozenset({n, "0"})), False), (("<=", n, "0"), False), (("<", n, "1"), False)]
    for key, pol in tests:
        o = p.outcome(key)
        if o is not None:
            return o == pol
    return None


def _subexprs(p: Path) -> list[ast.AST]:
    out: list[ast.AST] = []
    for e in p.effects:
        out.extend(ast.walk(e.node))
    for _k, _o, t, _ln, _r in p.conds:
        out.extend(ast.walk(t))
    if p.ret is not None:
        out.extend(ast.walk(p.ret))
    return out


def _is_buf(e: ast.AST) -> bool:
    return u(e) == BUF or (isinstance(e, ast.Call) and u(e.func) in ("list", "tuple") and len(e.args) == 1
                           and not e.keywords and u(e.args[0]) == BUF)


def _bisect_edge(prog: Program, mod: Any, arg: ast.AST, scope: ast.AST) -> tuple[ast.AST | None, str, str]:
    """(needle | None, shown, detail) for an index expression that must be bisect_right keyed by timestamp."""
    resolved = _ext(prog, mod, arg)
    if resolved != "bisect.bisect_right":
        return None, u(arg), f"resolved: {resolved or 'n/a'}"
    assert isinstance(arg, ast.Call)
    a = positional(arg, ["a", "x", "lo", "hi"])
    seq, key = a.get("a"), a.get("key")
    if key is None and isinstance(seq, (ast.ListComp, ast.GeneratorExp)) and len(seq.generators) == 1 \
            and not seq.generators[0].ifs and _is_buf(seq.generators[0].iter) \
            and isinstance(seq.generators[0].target, ast.Name) \
            and u(seq.elt) == f"{seq.generators[0].target.id}.timestamp" and isinstance(seq, ast.ListComp):
        key_ok = True     # bisect over the list of timestamps of the buffer, in buffer order
    else:
        key_ok = _timestamp_key(prog, mod, key, scope=scope) and seq is not None and u(seq) == BUF
    ok = key_ok and "lo" not in a and "hi" not in a and "x" in a
    return (a.get("x") if ok else None), u(arg), "bisect_right, but not over the buffer keyed by the sample timestamp"


_NEG = {ast.Gt: ast.LtE, ast.GtE: ast.Lt, ast.Lt: ast.GtE, ast.LtE: ast.Gt}


def _relevance(prog: Program, mod: Any, p: Path, scope: ast.AST) -> dict[str, Any] | None:  # noqa: C901
    """Recognise how the relevant samples are selected on this path.  Three behaviourally equal forms:

      A  list|tuple(islice(buffer, lo, hi))        lo, hi = bisect_right(buffer, needle, key=timestamp)
      B  list|tuple(buffer)[lo:hi]                 same indices
      C  [s for s in buffer if lo_needle < s.timestamp <= hi_needle]   (also list(...)/tuple(...) of a generator)

    Result: rels (texts the selection may appear as), lower/upper = (needle | None, shown, detail),
    one_state (all buffer reads in one state epoch), problems, fatal.  None: no form on this path."""
    out: dict[str, Any] = {"problems": [], "fatal": False, "one_state": True}
    slices = [e for e in p.calls() if _ext(prog, mod, e.node) == "itertools.islice"]
    subs = _subexprs(p)
    form_b = {u(e): e for e in subs if isinstance(e, ast.Subscript) and isinstance(e.slice, ast.Slice)
              and isinstance(e.value, ast.Call) and _is_buf(e.value) and u(e.value) != BUF}
    form_c = {}
    for e in subs:
        comp = e
        if isinstance(e, ast.Call) and u(e.func) in ("list", "tuple") and len(e.args) == 1 and not e.keywords \
                and isinstance(e.args[0], ast.GeneratorExp):
            comp = e.args[0]
        elif not isinstance(e, ast.ListComp):
            continue
        if isinstance(comp, (ast.ListComp, ast.GeneratorExp)) and len(comp.generators) == 1 \
                and _is_buf(comp.generators[0].iter) and comp.generators[0].ifs:
            form_c[u(e)] = (e, comp)
    n = len(slices) + len(form_b) + len(form_c)
    if n == 0:
        return None
    if n != 1:
        out.update(what="relevant samples = one contiguous selection of the buffer", fatal=True, rels=set())
        out["problems"].append(f"the relevant samples are not one contiguous slice of the buffer ({n} selections "
                               "of the buffer on this path)")
        return out
    if slices or form_b:
        if slices:
            sl = slices[0].node
            assert isinstance(sl, ast.Call)
            out["what"] = "islice(self._buffer, lower, upper)"
            if not (len(sl.args) == 3 and not sl.keywords and u(sl.args[0]) == BUF):
                out.update(fatal=True, rels=set())
                out["problems"].append("the relevant samples are not a contiguous slice of the buffer in buffer order")
                return out
            lo, hi = sl.args[1], sl.args[2]
            out["rels"] = {f"list({u(sl)})", f"tuple({u(sl)})"}
            texts = (u(sl), u(lo), u(hi))
        else:
            sub = next(iter(form_b.values()))
            assert isinstance(sub, ast.Subscript) and isinstance(sub.slice, ast.Slice)
            out["what"] = "list(self._buffer)[lower:upper]"
            lo, hi = sub.slice.lower, sub.slice.upper
            if lo is None or hi is None or sub.slice.step is not None:
                out.update(fatal=True, rels=set())
                out["problems"].append("the slice of the buffer is open-ended or strided")
                return out
            out["rels"] = {u(sub)}
            texts = (u(sub.value), u(lo), u(hi))
        out["lower"] = _bisect_edge(prog, mod, lo, scope)
        out["upper"] = _bisect_edge(prog, mod, hi, scope)
        eps = {e.epoch for e in p.calls() if u(e.node) in texts}
        out["one_state"] = len(eps) <= 1
        return out
    whole, comp = next(iter(form_c.values()))
    out["what"] = "[s for s in self._buffer if lower < s.timestamp <= upper]"
    out["rels"] = {u(whole)}
    gen = comp.generators[0]
    if gen.is_async or not isinstance(gen.target, ast.Name) or u(comp.elt) != gen.target.id:
        out["fatal"] = True
        out["problems"].append("the comprehension over the buffer does not select the samples themselves")
        return out
    ts = f"{gen.target.id}.timestamp"
    atoms: list[tuple[ast.AST, ast.cmpop, ast.AST]] = []
    todo = list(gen.ifs)
    while todo:
        c = todo.pop()
        if isinstance(c, ast.BoolOp) and isinstance(c.op, ast.And):
            todo.extend(c.values)
        elif isinstance(c, ast.UnaryOp) and isinstance(c.op, ast.Not) and isinstance(c.operand, ast.Compare) \
                and len(c.operand.ops) == 1 and type(c.operand.ops[0]) in _NEG:
            atoms.append((c.operand.left, _NEG[type(c.operand.ops[0])](), c.operand.comparators[0]))
        elif isinstance(c, ast.Compare):
            left = c.left
            for op, right in zip(c.ops, c.comparators):
                atoms.append((left, op, right))
                left = right
        else:
            out["fatal"] = True
            out["problems"].append(f"the filter `{u(c)[:80]}` is not a comparison of the sample timestamp")
            return out
    lower: list[tuple[ast.AST, bool]] = []   # (needle, strict)
    upper: list[tuple[ast.AST, bool]] = []   # (needle, inclusive)
    for left, op, right in atoms:
        if u(left) == ts and u(right) != ts:
            other, ts_left = right, True
        elif u(right) == ts and u(left) != ts:
            other, ts_left = left, False
        else:
            out["fatal"] = True
            out["problems"].append(f"the filter `{u(left)} {type(op).__name__} {u(right)}` does not bound the sample timestamp")
            return out
        if isinstance(op, (ast.Gt, ast.GtE)) == ts_left and isinstance(op, (ast.Gt, ast.GtE, ast.Lt, ast.LtE)):
            lower.append((other, isinstance(op, (ast.Gt, ast.Lt))))
        elif isinstance(op, (ast.Gt, ast.GtE, ast.Lt, ast.LtE)):
            upper.append((other, isinstance(op, (ast.GtE, ast.LtE))))
        else:
            out["fatal"] = True
            out["problems"].append(f"the filter uses `{type(op).__name__}` on the sample timestamp")
            return out
    shown = " and ".join(u(i) for i in gen.ifs)
    out["lower"] = ((lower[0][0] if len(lower) == 1 and lower[0][1] else None), shown,
                    f"{len(lower)} lower bound(s), strict: {[s for _n, s in lower]}")
    out["upper"] = ((upper[0][0] if len(upper) == 1 and upper[0][1] else None), shown,
                    f"{len(upper)} upper bound(s), inclusive: {[s for _n, s in upper]}")
    return out


def check_edge(run: Run, prog: Program) -> None:  # noqa: C901
    fn = prog.func(f"{HELPER}.resample")
    run.analysed(fn.qual)
    mod = fn.module
    T = fn.params[1]
    norm_node = inline_helpers(prog, fn)
    paths = sym_paths(norm_node, follow=follower(prog, fn))
    if not paths:
        raise AnalysisError(f"{fn.qual}: no path found")
    te = TermEval()
    seen_rel = False
    unrecognised = 0
    for p in paths:
        where = dict(node=fn.node, file=fn.file, path=p.describe())
        ret = p.ret
        if p.exit != "return" or not (isinstance(ret, ast.Call) and u(ret.func) == "Sample"):
            run.violation("C08.NONE", fn.qual, f"{p.exit} {u(ret)[:80]}",
                          "a tick does not produce a Sample on this path", **where)
            continue
        rargs = positional(ret, ["timestamp", "value"])
        run.check(u(rargs.get("timestamp")) == T and "value" in rargs, "C08.NONE", fn.qual,
                  "the emitted sample carries the tick timestamp",
                  "the emitted sample is not stamped with the tick timestamp", **where)
        val = rargs.get("value")
        # ---- the relevant-sample selection (one of three recognised forms, see _relevance)
        form = _relevance(prog, mod, p, norm_node)
        if form is None:
            unrecognised += 1
            continue
        seen_rel = True
        rels, edges = form["rels"], {}
        for msg in form["problems"]:
            run.violation("C08.EDGE", fn.qual, form["what"], msg, **where)
        if form["fatal"]:
            continue
        for edge in ("lower", "upper"):
            ok, shown, detail = form[edge]
            what = ("samples stamped exactly T - age would be included" if edge == "lower"
                    else "samples stamped exactly T would be excluded")
            run.check(ok is not None, "C08.EDGE", fn.qual, f"{edge} edge = {shown[:120]}",
                      f"the {edge} window edge is not {'exclusive' if edge == 'lower' else 'inclusive'} in the sample "
                      f"timestamp over the buffer ({detail}): {what}, or a different ordering key is used",
                      instance=f"{fn.qual}: {edge} edge {'exclusive' if edge == 'lower' else 'inclusive'}, keyed by timestamp",
                      **where)
            edges[edge] = ok
        run.check(form["one_state"], "C08.EDGE", fn.qual, "indices and slice taken from the same buffer state",
                  "the buffer can be replaced/resized between computing the window indices and slicing",
                  **where)
        if edges.get("upper") is not None:
            run.check(u(edges["upper"]) == T, "C08.EDGE", fn.qual, "upper edge at the tick timestamp",
                      "the upper edge is not the tick timestamp: samples stamped later than T could be used",
                      **where)
        # ---- C08.AGE
        if edges.get("lower") is not None:
            back = Poly.atom(T) - te.ev(edges["lower"])
            cands = {"rp": Poly.atom(RP), "sp": Poly.atom(SP),
                     "max": te.ev(ast.parse(f"max({RP}, {SP})", mode="eval").body)}
            which = next((k for k, c in cands.items() if back == c * Poly.atom(AGE)), None)
            unknown = p.outcome(("is", frozenset({SP, "None"})))
            if which == "max":
                ok = unknown is False
            elif which == "rp":
                ok = unknown is True or (unknown is False and _ordered(p, RP, SP))
            elif which == "sp":
                ok = unknown is False and _ordered(p, SP, RP)
            else:
                ok = False
            run.check(ok, "C08.AGE", fn.qual, f"lower needle = {T} - max(resampling period, input period) * max_data_age",
                      "the oldest relevant timestamp is not T - max(resampling period, current input period) * "
                      f"max_data_age_in_periods (with the resampling period while the input period is unknown); "
                      f"found {u(edges['lower'])[:140]}", **where)
        # ---- C08.NONE
        fcalls = p.calls(lambda c: isinstance(c.func, ast.Attribute) and u(c.func) == f"{CONF}.resampling_function")
        ne = None
        for r in rels:
            ne = _nonempty(p, r) if ne is None else ne
        if ne is None:
            run.violation("C08.NONE", fn.qual, "value = f(relevant) if relevant else None",
                          "the emptiness of the relevant samples is not decided on this path: the resampling "
                          "function is not called exactly when there are relevant samples", **where)
            continue
        if ne:
            ok = len(fcalls) == 1
            if ok:
                fc = fcalls[0].node
                assert isinstance(fc, ast.Call)
                fa = [u(a) for a in fc.args]
                ok = not fc.keywords and len(fa) == 3 and fa[0] in rels and fa[1:] == [CONF, PROPS]
                isnone = p.outcome(("is", frozenset({u(fc), "None"})))
                if isinstance(val, ast.Constant) and val.value is None:
                    ok = ok and isnone is True
                else:
                    ok = ok and isinstance(val, ast.Call) and u(val.func) == "Quantity" \
                        and [u(a) for a in val.args] == [u(fc)] and not val.keywords and isnone is not True
            run.check(ok, "C08.NONE", fn.qual, "relevant samples -> Quantity(resampling_function(relevant, conf, props))",
                      "with relevant samples the emitted value is not the resampling function applied to "
                      "exactly those samples", **where)
        else:
            ok = not fcalls and isinstance(val, ast.Constant) and val.value is None
            run.check(ok, "C08.NONE", fn.qual, "no relevant samples -> None, function not called",
                      "without relevant samples the resampling function is still called or the emitted value "
                      "is not None", **where)
    if not seen_rel:
        raise AnalysisError(f"{fn.qual}: relevant-sample selection not found on any path (recognised forms: "
                            "islice over bisect indices, list(buffer)[lo:hi], a comprehension over the buffer "
                            "filtered by the sample timestamp)")
    if unrecognised:
        run.violation("C08.EDGE", fn.qual, "relevant samples selected from the buffer on every path",
                      f"{unrecognised} path(s) emit a sample without selecting the relevant samples from the buffer",
                      node=fn.node, file=fn.file)


def check_filter(run: Run, prog: Program) -> None:
    sites = prog.attr_call_sites("add_sample")
    rs_qual = f"{MOD}:_StreamingHelper._receive_samples"

    def only_from_receive_loop(f: FuncInfo, seen: frozenset[str] = frozenset()) -> bool:
        """`f` is the receive loop or a private helper all of whose callers are (transitively)."""
        if f.qual == rs_qual:
            return True
        if f.qual in seen or not f.name.startswith("_") or f.name.startswith("__"):
            return False
        callers = prog.callers(f.qual)
        return bool(callers) and all(only_from_receive_loop(c, seen | {f.qual}) for c, _ in callers)

    n = 0
    for fn, call in sites:
        if not fn.module.name.endswith("_resampling"):
            continue
        n += 1
        ok = only_from_receive_loop(fn) and u(call.func.value) == "self._helper"  # type: ignore[union-attr]
        run.check(ok, "C08.FILTER", fn.qual, call, "samples are added to a resampling buffer from "
                  "somewhere else than the filtered receive loop", node=call, file=fn.file)
    if n != 1:
        raise AnalysisError(f"C08.FILTER: expected one add_sample call site, found {n}")
    rs = prog.func(f"{MOD}:_StreamingHelper._receive_samples")
    run.analysed(rs.qual)
    node = inline_helpers(prog, rs)
    loops = [s for s in body_walk(node) if isinstance(s, (ast.AsyncFor, ast.For)) and u(s.iter) == "self._source"]
    if len(loops) != 1 or not isinstance(loops[0].target, ast.Name):
        raise AnalysisError(f"{rs.qual}: receive loop not found")
    sv = loops[0].target.id
    for p, _st in sym_block(loops[0].body, follow=follower(prog, rs)):
        adds = p.calls(lambda c: method_call(c, "self._helper", "add_sample"))
        is_none = p.outcome(("is", frozenset({f"{sv}.value", "None"})))
        is_nan = p.outcome(("truthy", f"{sv}.value.isnan()"))
        valid = is_none is False and is_nan is False
        invalid = is_none is True or is_nan is True
        ok = (valid and len(adds) == 1 and [u(a) for a in adds[0].node.args] == [sv]) \
            or (invalid and not valid and not adds)  # type: ignore[attr-defined]
        run.check(ok, "C08.FILTER", rs.qual, "if sample.value is not None and not sample.value.isnan(): add_sample(sample)",
                  "None/NaN samples can reach the buffer (or valid ones are dropped): the filter in the "
                  "receive loop is not exactly `value is not None and not value.isnan()`", node=rs.node,
                  file=rs.file, path=p.describe())
    ad = prog.func(f"{HELPER}.add_sample")
    run.analysed(ad.qual)
    for p in _paths(prog, ad):
        apps = p.calls(lambda c: method_call(c, BUF, "append"))
        ok = p.exit in ("return", "fall") and len(apps) == 1 and [u(a) for a in apps[0].node.args] == [ad.params[1]]  # type: ignore[attr-defined]
        run.check(ok, "C08.FILTER", ad.qual, "self._buffer.append(sample) on every path",
                  "add_sample can return without storing the valid sample it was given (e.g. samples with "
                  "equal timestamps silently discarded)", node=ad.node, file=ad.file, path=p.describe())


def _min_with(e: ast.AST, cap: str) -> bool:
    return isinstance(e, ast.Call) and u(e.func) == "min" and not e.keywords and any(u(a) == cap for a in e.args)


def check_buf(run: Run, prog: Program) -> None:
    cls = prog.cls(HELPER)
    writers = []
    for m in cls.methods.values():
        for s in body_walk(m.node):
            if isinstance(s, (ast.Assign, ast.AnnAssign, ast.AugAssign)):
                tg = s.targets[0] if isinstance(s, ast.Assign) else s.target
                if u(tg) == "self._buffer":
                    writers.append((m, s))
        for c in find_calls(m.node, lambda c: isinstance(c.func, ast.Attribute) and u(c.func.value) == "self._buffer"):
            run.check(c.func.attr in ("append",), "C08.BUF", m.qual, c,  # type: ignore[union-attr]
                      f"the sample buffer is mutated with .{c.func.attr}(): arrival order / recency of "  # type: ignore[union-attr]
                      "the stored samples is no longer guaranteed", node=c, file=m.file)
    if len(writers) != 2:
        run.violation("C08.BUF", cls.qual, "writers of _buffer", f"expected 2 writers of self._buffer, "
                      f"found {len(writers)}", node=cls.node, file=cls.module.rel)
        return
    for m, s in writers:
        run.analysed(m.qual)
        v = s.value
        da = positional(v, ["iterable", "maxlen"]) if isinstance(v, ast.Call) else {}
        ok = isinstance(v, ast.Call) and u(v.func) == "deque" and "maxlen" in da
        if ok and m.name != "__init__":
            ok = u(da.get("iterable")) == "self._buffer"
        elif ok:
            kws = {"maxlen": u(da["maxlen"])}
            ok = "iterable" not in da and kws["maxlen"] in (
                f"{m.params[2] if len(m.params) > 2 else 'config'}.initial_buffer_len", f"{CONF}.initial_buffer_len")
        run.check(ok, "C08.BUF", m.qual, s,
                  "the buffer is not a bounded deque (re-created from its old content on resize)",
                  node=s, file=m.file)
        if ok and m.name != "__init__":
            # "the most recent ones that fit the configured buffer": a resize never exceeds the configured cap
            cap = f"{CONF}.max_buffer_len"
            n = 0
            for p in _paths(prog, m):
                for e in p.effects:
                    if e.kind != "write" or u(e.node.elts[0]) != BUF:  # type: ignore[attr-defined]
                        continue
                    val = e.node.elts[1]  # type: ignore[attr-defined]
                    ml = positional(val, ["iterable", "maxlen"]).get("maxlen") if isinstance(val, ast.Call) else None
                    if ml is None:
                        continue
                    n += 1
                    t = u(ml)
                    capped = t == cap or p.outcome(("<", cap, t)) is False or p.outcome(("<=", t, cap)) is True \
                        or _min_with(ml, cap)
                    run.check(capped, "C08.BUF", m.qual, f"resized buffer length <= {cap}",
                              "the buffer is resized to a length that is not bounded by the configured "
                              f"max_buffer_len on this path (maxlen = {t[:100]}): the resampling function would "
                              "receive more samples than fit the configured buffer", node=s, file=m.file,
                              path=p.describe(), instance=f"{m.qual}: resize bounded by the configured cap")
            if not n:
                raise AnalysisError(f"{m.qual}: no path re-creates the buffer")


def check_est(run: Run, prog: Program) -> None:
    fn = prog.func(f"{HELPER}._update_source_sample_period")
    run.analysed(fn.qual)
    now = fn.params[1]
    te = TermEval()
    n = 0
    for p in _paths(prog, fn):
        writes = [e for e in p.effects if e.kind == "write" and u(e.node.elts[0]) == SP]  # type: ignore[attr-defined]
        if not writes:
            continue
        n += 1
        after = p.outcome(("<=", now, START)) is False or p.outcome(("<", START, now)) is True
        run.check(after, "C08.EST", fn.qual, f"{now} <= props.sampling_start -> no estimate",
                  "the input period is estimated without first excluding `now <= sampling_start` (samples "
                  "that arrive before a tick but are stamped after it): the estimate can be zero or "
                  "negative and then corrupts the relevance window and the buffer length",
                  node=fn.node, file=fn.file, path=p.describe())
        v = writes[0].node.elts[1]  # type: ignore[attr-defined]
        ok = len(writes) == 1 and isinstance(v, ast.Call) and u(v.func) == "timedelta" and not v.args \
            and [k.arg for k in v.keywords] == ["seconds"]
        if ok:
            q = v.keywords[0].value
            ok = isinstance(q, ast.BinOp) and isinstance(q.op, ast.Div) and u(q.right) == RECV \
                and isinstance(q.left, ast.Call) and isinstance(q.left.func, ast.Attribute) \
                and q.left.func.attr == "total_seconds" and not q.left.args \
                and te.ev(q.left.func.value) == Poly.atom(now) - Poly.atom(START)
        run.check(ok, "C08.EST", fn.qual, "sampling_period = (now - sampling_start) / received_samples",
                  "the input period estimate is not elapsed time divided by the number of received samples",
                  node=fn.node, file=fn.file, path=p.describe())
    if not n:
        raise AnalysisError(f"{fn.qual}: assignment of the input sampling period not found")
    # ---- the estimate is reachable exactly when it is needed and possible, and its outcome is reported
    all_paths = _paths(prog, fn)

    def feasible(p: Path) -> bool:
        # a deque never holds more than maxlen items: `len(buffer) <= maxlen` cannot be false
        return p.outcome(("<=", f"len({BUF})", f"{BUF}.maxlen")) is not False and \
            p.outcome(("<", f"{BUF}.maxlen", f"len({BUF})")) is not True

    def writes_sp(p: Path) -> bool:
        return any(e.kind == "write" and u(e.node.elts[0]) == SP for e in p.effects)  # type: ignore[attr-defined]

    first = [p for p in all_paths if writes_sp(p) and feasible(p) and p.outcome(("is", frozenset({SP, "None"}))) is True]
    run.check(bool(first), "C08.EST", fn.qual, "the input period is estimated while it is still unknown",
              "no feasible path estimates the input period while it is unknown: the relevance window then "
              "never takes an input period longer than the resampling period into account",
              node=fn.node, file=fn.file)
    for p in all_paths:
        if p.exit != "return" or not feasible(p):
            continue
        w = writes_sp(p)
        if w:
            run.check(p.outcome(("is", frozenset({START, "None"}))) is False, "C08.EST", fn.qual,
                      "estimate only once the first sample's timestamp is known",
                      "the estimate is computed on a path where sampling_start can still be None",
                      node=fn.node, file=fn.file, path=p.describe())
    # ---- add_sample keeps the two counters the estimate is made of
    ad = prog.func(f"{HELPER}.add_sample")
    te2 = TermEval()
    for p in _paths(prog, ad):
        rec = [e for e in p.effects if e.kind == "write" and u(e.node.elts[0]) == RECV]  # type: ignore[attr-defined]
        ok = len(rec) == 1 and te2.ev(rec[0].node.elts[1]) == Poly.atom(RECV) + Poly.const(1)  # type: ignore[attr-defined]
        run.check(ok, "C08.EST", ad.qual, "received_samples += 1 for every stored sample",
                  "the number of received samples is not incremented by exactly one per stored sample: the "
                  "input period estimate (elapsed / received) is wrong", node=ad.node, file=ad.file, path=p.describe())
        st = [e for e in p.effects if e.kind == "write" and u(e.node.elts[0]) == START]  # type: ignore[attr-defined]
        unknown = p.outcome(("is", frozenset({START, "None"})))
        ok = (unknown is True and len(st) == 1 and u(st[0].node.elts[1]) == f"{ad.params[1]}.timestamp") \
            or (unknown is False and not st)  # type: ignore[attr-defined]
        run.check(ok, "C08.EST", ad.qual, "sampling_start = timestamp of the first stored sample, set once",
                  "sampling_start is not exactly the timestamp of the first stored sample", node=ad.node,
                  file=ad.file, path=p.describe(),
                  instance=f"{ad.qual}: sampling_start set once [{'first sample' if unknown else 'later sample'}]")


# ---------------------------------------------------------------------------------------------- C08.FRESH
UPDATE = "_update_source_sample_period"
SP_ATTR = SP.rsplit(".", 1)[1]


def _always_evaluated(e: ast.AST) -> list[ast.AST]:
    """Sub-expressions evaluated whenever `e` is: not the later operands of and/or, not the arms of a
    conditional expression, not the bodies of comprehensions / lambdas."""
    out: list[ast.AST] = []
    stack = [e]
    while stack:
        n = stack.pop()
        out.append(n)
        if isinstance(n, ast.BoolOp):
            stack.append(n.values[0])
        elif isinstance(n, ast.IfExp):
            stack.append(n.test)
        elif isinstance(n, (ast.ListComp, ast.SetComp, ast.GeneratorExp, ast.DictComp)):
            stack.append(n.generators[0].iter)
        elif isinstance(n, ast.Lambda):
            continue
        else:
            stack.extend(ast.iter_child_nodes(n))
    return out


class _Fresh:
    """Must-precede analysis over the statements of the tick function: on every path the refresh of the
    input-period estimate (the only writer of `sampling_period`) runs before anything of the tick reads
    the estimate - directly, inside a helper of the class / module, or by handing the source properties to
    the resampling function."""

    def __init__(self, fn: FuncInfo) -> None:
        self.fn = fn
        self.memo_reads: dict[str, bool] = {}
        self.memo_upd: dict[str, bool] = {}
        self.early: list[tuple[ast.AST, str]] = []      # reads not preceded by the refresh
        self.late: list[tuple[ast.AST, str]] = []       # reads preceded by it
        self.n_updates = 0

    # ---- callees inside the class / module
    def _callee(self, call: ast.Call) -> FuncInfo | None:
        f = call.func
        if isinstance(f, ast.Attribute) and isinstance(f.value, ast.Name) and f.value.id == "self" and self.fn.cls is not None:
            return self.fn.cls.methods.get(f.attr)
        if isinstance(f, ast.Name):
            return self.fn.module.functions.get(f.id)
        return None

    def _is_update(self, call: ast.Call) -> bool:
        g = self._callee(call)
        if g is None:
            return False
        if g.name == UPDATE:
            return True
        if g.qual not in self.memo_upd:
            self.memo_upd[g.qual] = False      # recursion guard
            sub = _Fresh(g)
            sub.memo_upd, sub.memo_reads = self.memo_upd, self.memo_reads
            exits: list[bool] = []
            end = sub.flow(list(g.node.body), False, exits, record=False)
            self.memo_upd[g.qual] = all(exits) and (end is None or end) and (bool(exits) or end is True)
        return self.memo_upd[g.qual]

    def _fn_reads(self, g: FuncInfo) -> bool:
        if g.name == UPDATE:
            return False
        if g.qual not in self.memo_reads:
            self.memo_reads[g.qual] = False
            self.memo_reads[g.qual] = bool(self._reads_in(g.node, g))
        return self.memo_reads[g.qual]

    def _reads_in(self, node: ast.AST, owner: FuncInfo | None = None) -> list[tuple[ast.AST, str]]:
        """Reads of the estimate an evaluation of `node` performs (nested defs / lambdas are not evaluated here)."""
        from ..engine.resolver import walk_no_nested

        owner = owner or self.fn
        aliases = {t.id for st in ast.walk(owner.node) if isinstance(st, (ast.Assign, ast.AnnAssign)) and st.value is not None
                   and u(st.value) == PROPS for t in (st.targets if isinstance(st, ast.Assign) else [st.target])
                   if isinstance(t, ast.Name)}
        out: list[tuple[ast.AST, str]] = []
        for n in walk_no_nested(node, include_root=not isinstance(node, (ast.FunctionDef, ast.AsyncFunctionDef))):
            if isinstance(n, ast.Attribute) and n.attr == SP_ATTR and isinstance(n.ctx, ast.Load):
                out.append((n, u(n)))
            elif isinstance(n, ast.Call):
                sub = _Fresh(owner) if owner is not self.fn else self
                if owner is not self.fn:
                    sub.memo_upd, sub.memo_reads = self.memo_upd, self.memo_reads
                g = sub._callee(n)
                if g is not None and g.name != UPDATE and self._fn_reads(g):
                    out.append((n, f"{u(n.func)}(...) [reads {SP_ATTR}]"))
                elif g is None and any(u(a) == PROPS or (isinstance(a, ast.Name) and a.id in aliases)
                                       for a in list(n.args) + [k.value for k in n.keywords]):
                    out.append((n, f"{u(n.func)}(..., <source properties>)"))
        return out

    def _expr(self, e: ast.AST | None, seen: bool, record: bool) -> bool:
        if e is None:
            return seen
        upd = [c for c in _always_evaluated(e) if isinstance(c, ast.Call) and self._is_update(c)]
        if record:
            self.n_updates += len(upd)
            for node, text in self._reads_in(e):
                pos = (getattr(node, "lineno", 0), getattr(node, "col_offset", 0))
                before = any((getattr(c, "end_lineno", 0), getattr(c, "end_col_offset", 0)) <= pos for c in upd)
                (self.late if seen or before else self.early).append((node, text))
        return seen or bool(upd)

    def flow(self, stmts: list[ast.stmt], seen: bool, exits: list[bool], record: bool = True) -> bool | None:  # noqa: C901
        """State after the statements (None: every path left the function); `exits` collects the state at
        each return."""
        cur: bool | None = seen
        for s in stmts:
            if cur is None:
                break
            if isinstance(s, (ast.FunctionDef, ast.AsyncFunctionDef, ast.ClassDef)):
                continue
            if isinstance(s, ast.Return):
                cur = self._expr(s.value, cur, record)
                exits.append(cur)
                return None
            if isinstance(s, ast.Raise):
                self._expr(s.exc, cur, record)
                return None
            if isinstance(s, ast.If):
                cur = self._expr(s.test, cur, record)
                a = self.flow(s.body, cur, exits, record)
                b = self.flow(s.orelse, cur, exits, record)
                cur = None if a is None and b is None else (a if b is None else b if a is None else (a and b))
            elif isinstance(s, (ast.For, ast.AsyncFor, ast.While)):
                cur = self._expr(s.iter if not isinstance(s, ast.While) else s.test, cur, record)
                self.flow(s.body, cur, exits, record)       # may run zero times
                self.flow(s.orelse, cur, exits, record)
            elif isinstance(s, (ast.With, ast.AsyncWith)):
                for it in s.items:
                    cur = self._expr(it.context_expr, cur, record)
                cur = self.flow(s.body, cur, exits, record)
            elif isinstance(s, ast.Try):
                entry = cur
                a = self.flow(s.body, cur, exits, record)
                outs = [self.flow(s.orelse, a, exits, record) if a is not None else None]
                outs += [self.flow(h.body, entry, exits, record) for h in s.handlers]
                live = [o for o in outs if o is not None]
                cur = None if not live else all(live)
                if s.finalbody:
                    f = self.flow(s.finalbody, bool(cur) if cur is not None else entry, exits, record)
                    cur = None if cur is None or f is None else f
            elif isinstance(s, ast.Match):
                cur = self._expr(s.subject, cur, record)
                outs = [self.flow(c.body, cur, exits, record) for c in s.cases]
                live = [o for o in outs if o is not None]
                cur = all(live) and cur if live else cur
            else:
                for child in ast.iter_child_nodes(s):
                    if isinstance(child, ast.expr):
                        cur = self._expr(child, cur, record)
        return cur


def check_fresh(run: Run, prog: Program) -> None:
    fn = prog.func(f"{HELPER}.resample")
    run.analysed(fn.qual)
    fr = _Fresh(fn)
    body = list(fn.node.body)
    fr.flow(body, False, [])
    if not fr.n_updates and not fr.early and not fr.late:
        raise AnalysisError(f"{fn.qual}: neither the refresh of the input-period estimate nor a read of it found")
    if not fr.early and not fr.late:
        raise AnalysisError(f"{fn.qual}: no read of `{SP_ATTR}` found in the tick (relevance window not computed here?)")
    for node, text in fr.early:
        run.violation("C08.FRESH", fn.qual, text,
                      f"`{text}` (line {getattr(node, 'lineno', 0)}) is evaluated on a path on which {UPDATE}() has not run "
                      "yet in this tick: on the tick that produces the estimate the relevance window T - max(period, "
                      "input period) * max_age is still computed from the stale value (unknown => resampling period) "
                      "while the buffer is already resized and the resampling function is handed source properties "
                      "carrying the new input period; when up-sampling, the received valid samples stamped in "
                      "(T - max_age*input period, T - max_age*period] are withheld on that tick (the value can even be "
                      "None although the set is not empty).  Excluded alike: refreshing after the slice, after the "
                      "function call, at the end of the tick or only on some paths.",
                      node=node, file=fn.file)
    for node, text in fr.late:
        run.ok("C08.FRESH", f"{fn.qual}: `{text[:80]}` read after the refresh of the estimate")


# ---------------------------------------------------------------------------------------------- C08.UNIT
_TD_FIELDS = {"seconds", "microseconds", "days"}
_TRUNC = {"int", "round", "math.floor", "math.trunc", "floor", "trunc"}


def check_unit(run: Run, prog: Program) -> None:
    """Durations enter the arithmetic of the resampling module whole: `.total_seconds()` (or a ratio of two
    timedeltas), never one component field of a timedelta (`.seconds` / `.microseconds` / `.days` drop the
    rest of the duration) and never truncated to whole seconds before they are used."""
    mod = prog.module(MOD)

    def is_total(e: ast.AST) -> bool:
        return isinstance(e, ast.Call) and isinstance(e.func, ast.Attribute) and e.func.attr == "total_seconds" and not e.args

    funcs = list(mod.functions.values()) + [m for c in mod.classes.values() for m in c.methods.values()]
    for f in funcs:
        for n in ast.walk(f.node):
            if isinstance(n, ast.Attribute) and n.attr in _TD_FIELDS and isinstance(n.ctx, ast.Load):
                run.violation("C08.UNIT", f.qual, n,
                              f"`{u(n)}` is one component field of a timedelta, not the duration: for a fractional, "
                              "sub-second or multi-day period it is smaller than (or unrelated to) `.total_seconds()` "
                              "(0 for 0.5 s, 2 for 2.5 s).  In the buffer sizing this re-creates the buffer for a shorter "
                              "span than the relevance window (T - max_age*period, T]: received valid samples inside the "
                              "window are dropped although config.max_buffer_len would hold them; in the estimate / its "
                              "threshold it corrupts the input period the window is computed from.  Excluded alike: "
                              "`.microseconds`, `.days`, int()/round()/floor() of total_seconds().",
                              node=n, file=f.file)
            elif is_total(n):
                run.ok("C08.UNIT", f"{f.qual}: {u(n)[:80]} (whole duration)")
            if isinstance(n, ast.Call) and (u(n.func) in _TRUNC or prog.external_name(mod, u(n.func)) in _TRUNC) \
                    and len(n.args) >= 1 and is_total(n.args[0]):
                run.violation("C08.UNIT", f.qual, n,
                              f"`{u(n)[:100]}` truncates a duration to whole seconds before it is used: fractional and "
                              "sub-second periods lose their fraction (same effect as reading `.seconds`)",
                              node=n, file=f.file)
            if isinstance(n, ast.BinOp) and isinstance(n.op, ast.FloorDiv) and (is_total(n.left) or is_total(n.right)):
                run.violation("C08.UNIT", f.qual, n,
                              f"`{u(n)[:100]}` floor-divides a duration in seconds: the fraction of the ratio is dropped "
                              "before the max_age factor and the ceil are applied", node=n, file=f.file)


# ---------------------------------------------------------------------------------------------- C08.SINK
def _role_attrs(cls: ClassInfo, annotation: str, fallback: str) -> set[str]:
    """Attributes of `self` in which the constructor of `cls` stores the parameter annotated `annotation`
    (or, without annotations, the parameter named `fallback`)."""
    init = cls.methods.get("__init__")
    if init is None:
        raise AnalysisError(f"{cls.qual}: no constructor (the sink / helper attributes cannot be bound by role)")
    a = init.node.args
    params = a.posonlyargs + a.args + a.kwonlyargs

    def ann(e: ast.AST | None) -> str:
        return u(e).strip("'\"").split("[")[0].split(".")[-1] if e is not None else ""

    names = {p.arg for p in params if ann(p.annotation) == annotation} or {p.arg for p in params if p.arg == fallback}
    out: set[str] = set()
    for s in ast.walk(init.node):
        if isinstance(s, (ast.Assign, ast.AnnAssign)) and isinstance(s.value, ast.Name) and s.value.id in names:
            for t in (s.targets if isinstance(s, ast.Assign) else [s.target]):
                if isinstance(t, ast.Attribute) and u(t.value) == "self":
                    out.add(t.attr)
    return out


_SINK_MSG = ("EDGE / AGE / NONE hold for the value `_ResamplingHelper.resample(T)` returns, so the emitted value is the "
             "resampling function applied to the relevant received samples (None exactly when there are none) only if "
             "that value - and nothing else - is what the sink receives for tick T.  Typical instance: a placeholder "
             "`Sample(T, None)` sent when the source has stopped, although the samples it delivered are still stamped "
             "inside (T - max_age*period, T].  Excluded alike: a default / last value substituted for None, a cached "
             "sample re-sent, a second sample for the same tick, a sample sent from an exception handler or from the "
             "coordinator's error handling.")


def check_sink(run: Run, prog: Program) -> None:  # noqa: C901
    cls = prog.cls(STREAM)
    sinks = _role_attrs(cls, "Sink", "sink")
    helpers = _role_attrs(cls, "_ResamplingHelper", "helper")
    if not sinks or not helpers:
        raise AnalysisError(f"{cls.qual}: the attribute holding the {'sink' if not sinks else 'resampling helper'} "
                            "was not found in the constructor")
    sh = prog.func(f"{STREAM}.resample")
    run.analysed(sh.qual)
    if len(sh.params) < 2:
        raise AnalysisError(f"{sh.qual}: no tick timestamp parameter")
    T = sh.params[1]
    sink_texts = {f"self.{a}" for a in sinks}

    def is_sink(c: ast.Call) -> bool:
        return u(c.func) in sink_texts

    def is_tick(c: ast.Call) -> bool:
        return any(method_call(c, f"self.{h}", "resample") for h in helpers)

    # ---- (a) every path of the per-series tick function, private helpers executed on the path
    node = inline_helpers(prog, sh)
    body = list(node.body)
    if body and isinstance(body[0], ast.Expr) and isinstance(body[0].value, ast.Constant) and isinstance(body[0].value.value, str):
        body = body[1:]
    se = SymExec(follow=follower(prog, sh))
    paths = [p for p, _st in se.block(Path(), body)]
    if not paths:
        raise AnalysisError(f"{sh.qual}: no path found")
    emitting = 0
    for p in paths:
        sent = p.calls(is_sink)
        ticks = {u(h.node) for h in p.calls(is_tick)
                 if len(h.node.args) + len(h.node.keywords) == 1  # type: ignore[attr-defined]
                 and u(positional(h.node, ["timestamp"]).get("timestamp")) == T}  # type: ignore[arg-type]
        kind = "raising" if p.exit == "raise" else "normal"
        if any(k[0] == "except" for k, *_ in p.conds if isinstance(k, tuple)):
            kind += ", in an exception handler"
        for s in sent:
            c = s.node
            assert isinstance(c, ast.Call)
            ok = not c.keywords and len(c.args) == 1 and u(c.args[0]) in ticks
            emitting += ok
            run.check(ok, "C08.SINK", sh.qual, u(c)[:120],
                      f"on a {kind} path of the tick the sink is handed `{u(c.args[0])[:80] if c.args else ''}`, which is not the "
                      f"value of `self.{sorted(helpers)[0]}.resample({T})` computed on that path: " + _SINK_MSG,
                      node=sh.node, file=sh.file, path=p.describe(),
                      instance=f"{sh.qual}: the sink receives the helper's sample for {T} [{kind} path]")
        if len(sent) > 1:
            run.violation("C08.SINK", sh.qual, f"{len(sent)} sink calls on one path",
                          f"the sink is called {len(sent)} times on one path of a tick: more than one sample is emitted for "
                          f"tick {T}. " + _SINK_MSG, node=sh.node, file=sh.file, path=p.describe())
    # ---- (b) census: no sink call outside what (a) has walked
    covered = {sh.name} | set(getattr(node, "_spliced", ())) | set(se.followed)
    mod = sh.module
    funcs = list(mod.functions.values()) + [m for c in mod.classes.values() for m in c.methods.values()]
    seen_sites = 0
    for f in funcs:
        aliases = {t.id for st in ast.walk(f.node) if isinstance(st, (ast.Assign, ast.AnnAssign))
                   and isinstance(st.value, ast.Attribute) and st.value.attr in sinks
                   for t in (st.targets if isinstance(st, ast.Assign) else [st.target]) if isinstance(t, ast.Name)}
        fa = f.node.args
        aliases |= {p.arg for p in fa.posonlyargs + fa.args + fa.kwonlyargs if p.annotation is not None
                    and u(p.annotation).strip("'\"").split("[")[0].split(".")[-1] == "Sink"}
        sites = [c for c in ast.walk(f.node) if isinstance(c, ast.Call) and (
            (isinstance(c.func, ast.Attribute) and c.func.attr in sinks)
            or (isinstance(c.func, ast.Name) and c.func.id in aliases))]
        if not sites:
            continue
        inside = f is sh or (f.name in covered and f.name != sh.name and (f.cls is cls or f.cls is None))
        if not inside:
            for c in sites:
                run.violation("C08.SINK", f.qual, u(c)[:120],
                              f"a sink is called in {f.qual}, outside the per-series tick function {sh.qual} and the private "
                              "helpers it runs: this sample does not come from the resampling helper's tick. " + _SINK_MSG,
                              node=c, file=f.file)
            continue
        parents = parent_map(f.node)
        for c in sites:
            seen_sites += 1
            up, hidden = parents.get(c), None
            while up is not None and up is not f.node:
                if isinstance(up, (ast.For, ast.AsyncFor, ast.While, ast.ListComp, ast.SetComp, ast.DictComp,
                                   ast.GeneratorExp, ast.Lambda, ast.FunctionDef, ast.AsyncFunctionDef)):
                    hidden = up
                up = parents.get(up)
            if hidden is not None:
                raise AnalysisError(f"{f.qual}: the sink is called inside a {type(hidden).__name__} (line "
                                    f"{getattr(c, 'lineno', 0)}); the per-path rule C08.SINK cannot tie its argument to the "
                                    "helper's sample for the tick")
    if not emitting and not run.violations:
        raise AnalysisError(f"{sh.qual}: no path hands the helper's sample to the sink (sink attribute(s): {sorted(sinks)})")
    if not seen_sites:
        raise AnalysisError(f"{sh.qual}: no call site of the sink found in the tick function or its helpers")


# ---------------------------------------------------------------------------------------------- C08.OWN
_OWN_MSG = ("EDGE / AGE / FILTER / NONE are proved for one buffer fed by one receive loop: `the received valid samples` of "
            "a timeseries are those of its own source only if the resampling helper (sample buffer + source properties: "
            "received count, first timestamp, input-period estimate) that its streaming helper appends to and cuts the "
            "window from is owned by exactly this registration - constructed for it, or kept under the identity the "
            "registry itself uses (the source).  A helper reached through a key that two sources can share (a name that is "
            "documented as logging-only, the sink, the config), kept after the timeseries was removed and handed to another "
            "source, shared as a default / class / module level object, or re-bound from outside makes every such timeseries "
            "be resampled from the interleaved mix of all their samples: the value for tick T is not the function applied "
            "to the samples received from its source, it is not None when its own relevant set is empty, and the "
            "input-period estimate and the buffer length are computed from the mix as well.")
_LOOKUPS = {"get", "pop", "setdefault", "__getitem__"}


def _ann_tail(e: ast.AST | None) -> str:
    return u(e).strip("'\"").split("[")[0].split(".")[-1] if e is not None else ""


def _role_params(cls: ClassInfo, annotation: str, fallback: str) -> list[str]:
    """Constructor parameters of `cls` in a role: annotated `annotation` (or, without annotations, named `fallback`)."""
    init = cls.methods.get("__init__")
    if init is None:
        raise AnalysisError(f"{cls.qual}: no constructor (its parameters cannot be bound by role)")
    a = init.node.args
    params = a.posonlyargs + a.args + a.kwonlyargs
    return [p.arg for p in params if _ann_tail(p.annotation) == annotation] or [p.arg for p in params if p.arg == fallback]


def _is_ctor(e: ast.AST | None, cls: ClassInfo) -> bool:
    return isinstance(e, ast.Call) and u(e.func).split(".")[-1] == cls.name


def _mentions(e: ast.AST | None, texts: set[str]) -> bool:
    """`e` evaluates to / contains (in a display, a conditional, a subscript ...) one of the helper
    constructions `texts`; the arguments of inner calls are not entered - those calls are effects of their own."""
    stack = [e] if e is not None else []
    while stack:
        n = stack.pop()
        if isinstance(n, ast.Call):
            if u(n) in texts:
                return True
            continue
        if isinstance(n, (ast.Lambda, ast.Attribute)):
            continue        # deferred / a read of one field of the helper, not the helper
        stack.extend(ast.iter_child_nodes(n))
    return False


def _lookup(e: ast.AST) -> tuple[ast.AST, ast.AST | None, ast.AST | None] | None:
    """(container, key, default) when `e` reads an element of a container: c[k], c.get(k[, d]), c.pop(k[, d]),
    c.setdefault(k, d)."""
    if isinstance(e, ast.Subscript):
        return e.value, e.slice, None
    if isinstance(e, ast.Call) and isinstance(e.func, ast.Attribute) and e.func.attr in _LOOKUPS and not e.keywords \
            and not any(isinstance(a, ast.Starred) for a in e.args):
        return e.func.value, (e.args[0] if e.args else None), (e.args[1] if len(e.args) > 1 else None)
    return None


def _self_rooted_expr(e: ast.AST) -> bool:
    n = e
    while isinstance(n, (ast.Attribute, ast.Subscript)):
        n = n.value
    return isinstance(n, ast.Name) and n.id == "self" and n is not e


def check_own(run: Run, prog: Program) -> None:  # noqa: C901
    stream, helper = prog.cls(STREAM), prog.cls(HELPER)
    hps, sps = _role_params(stream, helper.name, "helper"), _role_params(stream, "Source", "source")
    if len(hps) != 1 or len(sps) != 1:
        raise AnalysisError(f"{stream.qual}: the constructor does not take exactly one resampling helper and one source "
                            f"(helper parameters {hps}, source parameters {sps})")
    hp, sp = hps[0], sps[0]
    init_params = stream.methods["__init__"].params[1:]
    helper_attrs = _role_attrs(stream, helper.name, "helper")
    if not helper_attrs:
        raise AnalysisError(f"{stream.qual}: the attribute holding the resampling helper was not found in the constructor")
    mod = stream.module
    mod_funcs = list(mod.functions.values()) + [m for c in mod.classes.values() for m in c.methods.values()]

    # ---- (a) every construction of a streaming helper gets a resampling helper of its own
    direct: dict[str, tuple[FuncInfo, list[ast.Call]]] = {}
    for f in prog.all_functions():
        sites = [c for c in ast.walk(f.node) if _is_ctor(c, stream)]
        if sites:
            direct[f.qual] = (f, sites)
    if not direct:
        raise AnalysisError(f"{stream.qual}: no construction site found (who registers a timeseries?)")
    analysed: set[str] = set()
    executed: set[str] = set()          # names of functions walked on a path (the function itself + helpers followed)
    seen_lookup: list[tuple[FuncInfo, str]] = []     # containers a helper is accepted from (keyed by the source)
    todo = [f for f, _s in direct.values()]
    while todo:
        f = todo.pop()
        if f.qual in analysed:
            continue
        analysed.add(f.qual)
        run.analysed(f.qual)
        if f.qual in direct:
            parents = parent_map(f.node)
            for c in direct[f.qual][1]:
                up = parents.get(c)
                while up is not None and up is not f.node:
                    if isinstance(up, (ast.For, ast.AsyncFor, ast.While, ast.ListComp, ast.SetComp, ast.DictComp,
                                       ast.GeneratorExp, ast.Lambda, ast.FunctionDef, ast.AsyncFunctionDef)):
                        raise AnalysisError(f"{f.qual}: a streaming helper is constructed inside a {type(up).__name__} (line "
                                            f"{getattr(c, 'lineno', 0)}); the per-path rule C08.OWN cannot tie its resampling "
                                            "helper to one construction")
                    up = parents.get(up)
        node = inline_helpers(prog, f)
        body = list(node.body)
        if body and isinstance(body[0], ast.Expr) and isinstance(body[0].value, ast.Constant) and isinstance(body[0].value.value, str):
            body = body[1:]
        se = SymExec(follow=follower(prog, f))
        paths = [p for p, _st in se.block(Path(), body)]
        executed |= {f.name} | set(getattr(node, "_spliced", ())) | set(se.followed)
        fparams = set(f.params)
        n_ctor = 0
        to_callers = False
        for p in paths:
            where = dict(node=f.node, file=f.file, path=p.describe())
            evals = [e.node for e in p.effects if e.kind == "call" and _is_ctor(e.node, helper)]
            ctors = [e.node for e in p.effects if e.kind == "call" and _is_ctor(e.node, stream)]
            texts = {u(e) for e in evals}
            consumed: set[int] = set()
            src_of: dict[str, set[str]] = {}      # helper construction text -> source-role expressions it was paired with
            for sc in ctors:
                assert isinstance(sc, ast.Call)
                n_ctor += 1
                if any(isinstance(a, ast.Starred) for a in sc.args) or any(k.arg is None for k in sc.keywords):
                    raise AnalysisError(f"{f.qual}: `{u(sc)[:100]}` passes its arguments with */**; the helper role cannot be read")
                a = positional(sc, init_params)
                h, src = a.get(hp), a.get(sp)
                if h is None or src is None:
                    raise AnalysisError(f"{f.qual}: `{u(sc)[:100]}`: no argument in the helper / source role")
                inst = f"{f.qual}: a streaming helper is constructed with a resampling helper of its own"
                operands = list(h.values) if isinstance(h, ast.BoolOp) else [h]
                for op in operands:
                    if _is_ctor(op, helper):
                        idx = next((i for i, e in enumerate(evals) if e is op), None)
                        if idx is None:
                            idx = next((i for i, e in enumerate(evals) if i not in consumed and u(e) == u(op)), None)
                        if idx is None and any(u(e) == u(op) for e in evals):
                            run.violation("C08.OWN", f.qual, u(sc)[:140],
                                          f"the resampling helper `{u(op)[:80]}` constructed once on this path is handed to more than "
                                          "one streaming helper: two sources append to one buffer. " + _OWN_MSG, **where)
                            continue
                        if idx is None:
                            raise AnalysisError(f"{f.qual}: the construction `{u(op)[:80]}` handed to `{u(sc.func)}` is not "
                                                "evaluated on the path")
                        consumed.add(idx)
                        src_of.setdefault(u(op), set()).add(u(src))
                        run.ok("C08.OWN", inst)
                        continue
                    if isinstance(op, ast.Constant) and op.value is None and len(operands) > 1:
                        continue
                    if isinstance(op, ast.Name) and op.id.startswith("<"):
                        raise AnalysisError(f"{f.qual}: the helper handed to `{u(sc.func)}` is bound in a loop / try body "
                                            f"({op.id}); C08.OWN cannot tie it to one construction")
                    if isinstance(op, ast.Name) and op.id in fparams:
                        to_callers = True        # decided where the argument is made: in the callers, executed on their paths
                        continue
                    look = _lookup(op)
                    if look is not None:
                        cont, key, dflt = look
                        by_source = key is not None and u(key) == u(src) and _self_rooted_expr(cont)
                        if dflt is not None and _is_ctor(dflt, helper):
                            src_of.setdefault(u(dflt), set()).add(u(src))
                        if by_source:
                            seen_lookup.append((f, u(cont)))
                            run.ok("C08.OWN", f"{f.qual}: resampling helper kept under the source it belongs to")
                            continue
                        run.violation("C08.OWN", f.qual, u(sc)[:140],
                                      f"the resampling helper handed to `{u(sc.func)}` is looked up, `{u(op)[:100]}`, under the key "
                                      f"`{u(key)[:60] if key is not None else ''}`, which is not the source `{u(src)[:60]}` this "
                                      "timeseries is registered under: whatever else is (or was) registered under the same key feeds "
                                      "and reads the same buffer and source properties. " + _OWN_MSG, **where)
                        continue
                    if isinstance(op, ast.Call):
                        raise AnalysisError(f"{f.qual}: the helper handed to `{u(sc.func)}` is the result of `{u(op.func)[:80]}(...)`, "
                                            "which is not followed; C08.OWN cannot decide whether it is constructed for this "
                                            "registration")
                    run.violation("C08.OWN", f.qual, u(sc)[:140],
                                  f"the resampling helper handed to `{u(sc.func)}` is `{u(op)[:100]}`: not a "
                                  f"`{helper.name}` constructed for this registration (an attribute, a default, a module or "
                                  "class level object outlives it and is shared by every timeseries that gets it). " + _OWN_MSG,
                                  **where)
            if not texts:
                continue
            # ---- the constructed helper goes to its streaming helper and nowhere else
            for e in p.effects:
                if e.kind == "call":
                    c = e.node
                    assert isinstance(c, ast.Call)
                    if u(c) in texts:
                        continue
                    args = list(c.args) + [k.value for k in c.keywords]
                    if _is_ctor(c, stream):
                        role = positional(c, init_params)
                        args = [x for x in args if x is not role.get(hp)]
                    elif isinstance(c.func, ast.Attribute) and c.func.attr in ("setdefault", "__setitem__") and len(c.args) == 2 \
                            and _self_rooted_expr(c.func.value) and _mentions(c.args[1], texts) \
                            and all(src_of.get(t, set()) == {u(c.args[0])} for t in texts if _mentions(c.args[1], {t})):
                        continue        # kept under the source it is paired with
                    elif _is_logging(c):
                        continue
                    hit = next((x for x in args if _mentions(x, texts)), None)
                    if hit is not None:
                        run.violation("C08.OWN", f.qual, u(c)[:140],
                                      f"the resampling helper constructed for this registration is also handed to `{u(c.func)[:80]}(...)`"
                                      ": it escapes its registration and can be reached again for another source. " + _OWN_MSG, **where)
                elif e.kind == "write":
                    tgt, val = e.node.elts  # type: ignore[attr-defined]
                    base = tgt
                    while isinstance(base, (ast.Attribute, ast.Subscript)):
                        base = base.value
                    if isinstance(base, ast.Call) and u(base) in texts:
                        run.violation("C08.OWN", f.qual, f"{u(tgt)[:100]} = {u(val)[:60]}",
                                      "state of the newly constructed resampling helper is replaced from outside: its buffer / "
                                      "source properties are then whatever object the caller supplies. " + _OWN_MSG, **where)
                        continue
                    if not _mentions(val, texts):
                        continue
                    mine = [t for t in texts if _mentions(val, {t})]
                    keyed = isinstance(tgt, ast.Subscript) and _self_rooted_expr(tgt.value) \
                        and all(src_of.get(t, set()) == {u(tgt.slice)} for t in mine)
                    run.check(keyed, "C08.OWN", f.qual, f"{u(tgt)[:100]} = {u(val)[:80]}",
                              f"the resampling helper constructed for this registration is also stored in `{u(tgt)[:100]}`"
                              + (f", under the key `{u(tgt.slice)[:60]}` and not under the source "
                                 f"`{', '.join(sorted(s for t in mine for s in src_of.get(t, set())))[:80]}` it is registered with"
                                 if isinstance(tgt, ast.Subscript) else "")
                              + ": it outlives the registration and the next timeseries that finds it there appends to and reads the "
                              "same buffer. " + _OWN_MSG,
                              instance=f"{f.qual}: the kept resampling helper is keyed by the source it is registered with", **where)
            if p.ret is not None and _mentions(p.ret, texts):
                run.violation("C08.OWN", f.qual, f"return {u(p.ret)[:100]}",
                              "the resampling helper constructed for this registration is returned to the caller as well. "
                              + _OWN_MSG, **where)
        if not n_ctor:
            raise AnalysisError(f"{f.qual}: no path constructs a `{stream.name}` (the construction is inside a helper that is "
                                "not followed?)")
        if to_callers:
            callers = [c for c, _call in prog.callers(f.qual)]
            if not callers:
                run.violation("C08.OWN", f.qual, f"{stream.name}(<parameter>)",
                              f"`{stream.name}` is constructed around a resampling helper that {f.qual} receives as a parameter and "
                              "nothing in the package is seen to call it: the helper is not constructed for this registration. "
                              + _OWN_MSG, node=f.node, file=f.file)
            todo.extend(callers)
    # a helper accepted because it is looked up under the source: everything stored in that container is judged above
    for f, cont in seen_lookup:
        for g in mod_funcs:
            if g.name in executed:
                continue
            for n in ast.walk(g.node):
                store = (isinstance(n, ast.Subscript) and isinstance(n.ctx, ast.Store) and u(n.value) == cont) or (
                    isinstance(n, ast.Call) and isinstance(n.func, ast.Attribute) and u(n.func.value) == cont
                    and n.func.attr in ("setdefault", "update", "__setitem__"))
                if store:
                    run.violation("C08.OWN", g.qual, n,
                                  f"{f.qual} takes the resampling helper of a timeseries from `{cont}`, which is also filled in "
                                  f"{g.qual}, outside the registration paths C08.OWN walks: what is kept there is not known to belong "
                                  "to the source it is found under. " + _OWN_MSG, node=n, file=g.file)

    # ---- (b) the helper's constructor starts from an empty buffer and new source properties on every path
    hi = helper.methods.get("__init__")
    if hi is None:
        raise AnalysisError(f"{helper.qual}: no constructor (buffer / source properties cannot be shown to be per instance)")
    run.analysed(hi.qual)

    def new_buffer(v: ast.AST) -> bool:
        return isinstance(v, ast.Call) and u(v.func).split(".")[-1] == "deque" \
            and "iterable" not in positional(v, ["iterable", "maxlen"])

    def new_props(v: ast.AST) -> bool:
        return isinstance(v, ast.Call) and u(v.func).split(".")[-1] == "SourceProperties" \
            and all(isinstance(x, ast.Constant) for x in list(v.args) + [k.value for k in v.keywords])

    n_init = 0
    for p in _paths(prog, hi):
        if p.exit == "raise":
            continue
        n_init += 1
        for loc, fresh, what in ((BUF, new_buffer, "an empty bounded deque"), (PROPS, new_props, "a new SourceProperties()")):
            ws = [e for e in p.effects if e.kind == "write" and u(e.node.elts[0]) == loc]  # type: ignore[attr-defined]
            ok = len(ws) == 1 and fresh(ws[0].node.elts[1])  # type: ignore[attr-defined]
            shown = u(ws[0].node.elts[1])[:80] if ws else "never assigned"  # type: ignore[attr-defined]
            run.check(ok, "C08.OWN", hi.qual, f"{loc} = {shown}",
                      f"the constructor of the resampling helper does not bind `{loc}` to {what} created for this instance on this "
                      f"path ({shown}): an object handed in, a default argument, a class or module level object is the same "
                      "one for every helper that gets it. " + _OWN_MSG, node=hi.node, file=hi.file, path=p.describe(),
                      instance=f"{hi.qual}: {loc} is created per instance")
    if not n_init:
        raise AnalysisError(f"{hi.qual}: no normal path")

    # ---- (c) who may bind: the helper of a streaming helper, and buffer / properties of a helper, from inside only
    guarded = set(helper_attrs) | {BUF.rsplit(".", 1)[1], PROPS.rsplit(".", 1)[1]}
    sinit = stream.methods["__init__"]
    for g in mod_funcs:
        for n in ast.walk(g.node):
            if not (isinstance(n, ast.Attribute) and isinstance(n.ctx, (ast.Store, ast.Del)) and n.attr in guarded):
                continue
            if u(n.value) != "self":
                run.violation("C08.OWN", g.qual, n,
                              f"`{u(n)}` is bound from outside the object it belongs to: the buffer / helper a timeseries is resampled "
                              "from is replaced by one that another registration may own. " + _OWN_MSG, node=n, file=g.file)
            elif g.cls is stream and n.attr in helper_attrs and g is not sinit:
                run.violation("C08.OWN", g.qual, n,
                              f"`{u(n)}` is re-bound after construction: the receive loop and the tick no longer use the helper "
                              "this registration was constructed with. " + _OWN_MSG, node=n, file=g.file)
    for s in ast.walk(sinit.node):
        if isinstance(s, (ast.Assign, ast.AnnAssign)) and s.value is not None:
            for t in (s.targets if isinstance(s, ast.Assign) else [s.target]):
                if isinstance(t, ast.Attribute) and u(t.value) == "self" and t.attr in helper_attrs:
                    run.check(isinstance(s.value, ast.Name) and s.value.id == hp, "C08.OWN", sinit.qual, s,
                              f"`{u(t)}` is not bound to the `{hp}` argument alone: " + _OWN_MSG, node=s, file=sinit.file,
                              instance=f"{sinit.qual}: the helper attribute is the constructor argument")


def _is_logging(c: ast.Call) -> bool:
    from ..engine.util import is_logging_call

    return is_logging_call(c)


CONTROLS = [
    ("bisect_left on the lower edge", MOD,
     "        min_index = bisect(\n", "        min_index = bisect_left(\n", "C08.EDGE"),
    ("NaN filter dropped", MOD, "            if sample.value is not None and not sample.value.isnan():",
     "            if sample.value is not None:", "C08.FILTER"),
    ("appendleft", MOD, "        self._buffer.append(sample)\n", "        self._buffer.appendleft(sample)\n", "C08.BUF"),
    ("min instead of max of the two periods", MOD,
     "            max(\n                conf.resampling_period,\n                props.sampling_period,\n            )",
     "            min(\n                conf.resampling_period,\n                props.sampling_period,\n            )", "C08.AGE"),
    ("function called on the empty set", MOD,
     "            conf.resampling_function(relevant_samples, conf, props)\n            if relevant_samples\n            else None",
     "            conf.resampling_function(relevant_samples, conf, props)\n            if relevant_samples is not None\n            else None",
     "C08.NONE"),
    ("race guard weakened", MOD, "            or now <= props.sampling_start\n", "            or now == props.sampling_start\n", "C08.EST"),
    ("estimate never taken while unknown", MOD, "            props.sampling_period is not None\n", "            props.sampling_period is None\n", "C08.EST"),
    ("buffer-full test made a tautology", MOD, "            or len(self._buffer) < self._buffer.maxlen\n",
     "            or len(self._buffer) <= self._buffer.maxlen\n", "C08.EST"),
    ("estimate not refreshed before the window is computed", MOD,
     "        if self._update_source_sample_period(timestamp):\n            self._update_buffer_len()\n\n        conf = self._config\n",
     "        conf = self._config\n", "C08.FRESH"),
    ("input period read before the refresh", MOD,
     "        if self._update_source_sample_period(timestamp):\n            self._update_buffer_len()\n",
     "        known = self._source_properties.sampling_period is not None\n"
     "        if self._update_source_sample_period(timestamp) or known:\n            self._update_buffer_len()\n", "C08.FRESH"),
    ("component field of the resampling period", MOD,
     "                config.resampling_period.total_seconds()\n                / input_sampling_period.total_seconds()",
     "                config.resampling_period.seconds\n                / input_sampling_period.total_seconds()", "C08.UNIT"),
    ("sample not counted", MOD, "        self._source_properties.received_samples += 1\n", "", "C08.EST"),
    ("placeholder sample on the source-stopped path", MOD,
     "            raise SourceStoppedError(self._source)\n",
     "            await self._sink(Sample(timestamp, None))\n            raise SourceStoppedError(self._source)\n", "C08.SINK"),
    ("None replaced by a default before the sink", MOD,
     "        await self._sink(self._helper.resample(timestamp))\n",
     "        new_sample = self._helper.resample(timestamp)\n        if new_sample.value is None:\n"
     "            new_sample = Sample(timestamp, Quantity(0.0))\n        await self._sink(new_sample)\n", "C08.SINK"),
    ("sink called from the coordinator", MOD,
     "        self._resamplers[source] = resampler\n",
     "        self._resamplers[source] = resampler\n        asyncio.ensure_future(sink(Sample(self._window_end, None)))\n"
     "        asyncio.ensure_future(resampler._sink(Sample(self._window_end, None)))\n", "C08.SINK"),
    ("resampling helper kept per (logging) name", MOD,
     "            _ResamplingHelper(name, self._config), source, sink\n",
     "            self._by_name.setdefault(name, _ResamplingHelper(name, self._config)), source, sink\n", "C08.OWN"),
    ("resampling helper re-bound from the coordinator", MOD,
     "        self._resamplers[source] = resampler\n",
     "        self._resamplers[source] = resampler\n        resampler._helper = self._spare_helper\n", "C08.OWN"),
    ("source properties shared by all helpers", MOD,
     "        self._source_properties: SourceProperties = SourceProperties()\n",
     "        self._source_properties: SourceProperties = _SHARED_PROPERTIES\n", "C08.OWN"),
]


def check_tick(run: Run, prog: Program) -> None:
    """The T of the statement is the tick being served: the timestamp every helper is asked for is the
    coordinator's window end, and that advances exactly one period per tick, also on the tick in which
    a sink or source fails (otherwise every later tick at T emits f over (T - p - age, T - p] stamped
    T - p).  Decided by the per-tick rules of the C07 checker, reported here under C08.TICK."""
    from . import c07

    scratch = Run("C07", run.tier, run.seed)
    scratch.quiet = True
    c07.check_step(scratch, prog)
    c07.check_same(scratch, prog)
    run.functions |= scratch.functions
    bad = [v for v in scratch.violations]
    for inst in sorted(scratch.distinct):
        run.ok("C08.TICK", inst)
    for v in bad:
        run.violation("C08.TICK", v.function, v.construct,
                      "the timestamp a tick hands to the helpers is not the tick being served: " + v.message,
                      path=v.path, file=v.where.split(":")[0] if v.where else None)


def run_rules(run: Run, prog: Program) -> None:
    check_edge(run, prog)
    check_filter(run, prog)
    check_buf(run, prog)
    check_est(run, prog)
    check_fresh(run, prog)
    check_unit(run, prog)
    check_tick(run, prog)
    check_sink(run, prog)
    check_own(run, prog)


def check(run: Run, prog: Program, tier: str) -> str:
    run.rule("C08.EDGE", "both edges use bisect_right keyed by timestamp over the buffer; slice in buffer order; "
             "upper needle is the tick timestamp")
    run.rule("C08.AGE", "oldest relevant timestamp = T - max(period, input period or period) * max_data_age")
    run.rule("C08.FILTER", "only valid samples reach add_sample, only from the receive loop; add_sample "
             "stores every sample it gets")
    run.rule("C08.NONE", "function called iff relevant samples exist; None otherwise")
    run.rule("C08.BUF", "bounded deque, right-append only, re-created from old content on resize")
    run.rule("C08.EST", "input period estimated only after excluding now <= sampling_start, reachable while unknown, "
             "= elapsed / received; add_sample counts every stored sample once and records the first timestamp")
    run.rule("C08.FRESH", "on every path of a tick the input-period estimate is refreshed before the relevance window, "
             "the buffer sizing or the resampling function read it (one value of the estimate per tick)")
    run.rule("C08.UNIT", "durations are converted whole (total_seconds()): no timedelta component field, no truncation "
             "to whole seconds, in the resampling module")
    run.rule("C08.SINK", "on every path of the per-series tick (normal, raising, handler) the sink is handed exactly the "
             "helper's sample for T, at most once; no other function of the module calls a sink")
    run.rule("C08.OWN", "every streaming helper is constructed with a resampling helper made for this registration (one "
             "construction each, kept nowhere but under the source it is registered with); the helper's constructor creates "
             "an empty buffer and new source properties; helper / buffer / properties are never re-bound from outside")
    run_rules(run, prog)
    run.floor("C08.OWN", 4)
    run.floor("C08.SINK", 1)
    run.floor("C08.FRESH", 2)
    run.floor("C08.UNIT", 4)
    run.floor("C08.EDGE", 4)
    run.floor("C08.FILTER", 3)
    run.floor("C08.BUF", 3)
    from ..engine.controls import run_controls

    run_controls(run, CONTROLS, run_rules, tier)
    run.assume("stdlib fact: bisect.bisect is bisect.bisect_right; buffer order is arrival order and, "
               "per the property's quantifier, time order")
    run.undecided("the numeric value of the buffer length (how many of the most recent samples fit)")
    return ("Resolved-callee and term-shape rules on the relevance window of _ResamplingHelper.resample, "
            "who-may-call + guard-dominance on the sample filter, who-may-write on the buffer, and "
            "dominance on the input-period estimate.")
