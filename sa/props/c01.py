"""C01  Battery power distribution conserves the requested power — ledger discipline.

Decided (necessary conditions of the sum identity; the numeric content is not decided):
  C01.L1  paired update: in every statement suite of the three allocation functions the total
          change of the allocation cells equals the change of the mirror ledger and the negated
          change of the complement ledger (polynomial normal forms), and no ledger changes alone.
  C01.L2  no dead residual: a complement ledger that is decremented in a loop is read again
          after that loop (its residual must flow into the remainder or a cell).
  C01.L3  remainder provenance: DistributionResult.remaining_power is the complement ledger
          (request - mirror), threaded through the greedy top-up and the per-inverter split.
  C01.S   sign mirror: the supply path negates the request in and every cell and the remainder
          out; the supply branch of _inclusion_exclusion_bounds is the dual of the consume branch.
  C01.B   reported == commanded: the map sent to the API is the distribution itself and the
          reported distributed power is request - remainder.
"""
from __future__ import annotations

import ast
import re
from typing import Any

from ..engine.cfg import CFG
from ..engine.report import AnalysisError, Run
from ..engine.resolver import FuncInfo, Program, body_walk, walk_no_nested
from ..engine.terms import Poly, TermEval
from ..engine.util import find_calls, method_call, node_writes, u

BDA = ("microgrid._power_distributing._distribution_algorithm._battery_distribution_algorithm:"
       "BatteryDistributionAlgorithm")
BM = "microgrid._power_distributing._component_managers._battery_manager:BatteryManager"
ALLOC_FUNCS = ("_distribute_power", "_greedy_distribute_remaining_power",
               "_distribute_multi_inverter_pairs")


# ---------------------------------------------------------------------------------------------
class Ledgers:
    """Cells, mirror and complement ledgers of one allocation function, discovered from dataflow."""

    def __init__(self, fn: FuncInfo) -> None:
        self.fn = fn
        self.te = TermEval()
        self.cell_dicts: set[str] = set()      # dicts whose values are cells (float or _Power)
        self.cell_objs: set[str] = set()       # locals bound to a _Power cell object
        self.mirrors: set[str] = set()
        self.complements: set[str] = set()
        self.suites: list[list[ast.stmt]] = []
        self._collect_suites(fn.node)
        self._discover()

    def _collect_suites(self, node: ast.AST) -> None:
        for n in ast.walk(node):
            for field in ("body", "orelse", "finalbody"):
                stmts = getattr(n, field, None)
                if isinstance(stmts, list) and stmts and isinstance(stmts[0], ast.stmt) \
                        and not isinstance(n, (ast.ClassDef,)) and not (
                            isinstance(n, (ast.FunctionDef, ast.AsyncFunctionDef, ast.Lambda))
                            and n is not self.fn.node):
                    self.suites.append(stmts)

    # ---- classification of statements
    def _discover(self) -> None:
        fn = self.fn.node
        # dicts of cells: annotated `dict[..., _Power]` / `dict[int, float]` results named *distribution*
        for a in fn.args.args:
            if a.annotation is not None and "_Power" in u(a.annotation):
                self.cell_dicts.add(a.arg)
        for n in walk_no_nested(fn):
            if isinstance(n, ast.AnnAssign) and isinstance(n.target, ast.Name):
                ann = u(n.annotation)
                if "_Power" in ann or (ann.startswith("dict[int, float]") and "distribution" in n.target.id):
                    self.cell_dicts.add(n.target.id)
        # locals bound to cell objects: loop vars over <celldict>.items(), X = <celldict>[k]
        for n in walk_no_nested(fn):
            if isinstance(n, ast.For) and isinstance(n.iter, ast.Call) and isinstance(
                    n.iter.func, ast.Attribute) and n.iter.func.attr == "items" \
                    and u(n.iter.func.value) in self.cell_dicts and isinstance(n.target, ast.Tuple):
                self.cell_objs.add(u(n.target.elts[1]))
            if isinstance(n, ast.Assign) and isinstance(n.value, ast.Subscript) \
                    and u(n.value.value) in self.cell_dicts and isinstance(n.targets[0], ast.Name):
                self.cell_objs.add(n.targets[0].id)
        # ledgers
        for suite in self.suites:
            cells = self.cell_deltas(suite)
            if not cells:
                continue
            cell_sum = sum((d for _s, d in cells), Poly())
            for s in suite:
                upd = self.name_update(s)
                if upd is None:
                    continue
                name, delta = upd
                if delta == cell_sum and not cell_sum.is_zero():
                    self.mirrors.add(name)
                if delta == -cell_sum and not cell_sum.is_zero():
                    self.complements.add(name)

    def cell_value(self, e: ast.AST) -> Poly | None:
        """Value put into a new cell by storing expression `e` into a cell dict (None: re-store)."""
        if isinstance(e, ast.Call) and u(e.func) == "_Power":
            kws = {k.arg: k.value for k in e.keywords}
            if "power" in kws:
                return self.te.ev(kws["power"])
            if len(e.args) >= 2:
                return self.te.ev(e.args[1])
            raise AnalysisError(f"{self.fn.qual}: _Power(...) without power argument")
        if isinstance(e, ast.Name) and e.id in self.cell_objs:
            return None  # re-storing an existing cell object
        return self.te.ev(e)

    def cell_deltas(self, suite: list[ast.stmt]) -> list[tuple[ast.stmt, Poly]]:
        out = []
        for s in suite:
            if isinstance(s, ast.Assign) and len(s.targets) == 1 and isinstance(s.targets[0], ast.Subscript) \
                    and u(s.targets[0].value) in self.cell_dicts:
                v = self.cell_value(s.value)
                if v is not None:
                    out.append((s, v))
            elif isinstance(s, ast.AugAssign) and isinstance(s.target, ast.Attribute) \
                    and s.target.attr == "power" and u(s.target.value) in self.cell_objs:
                d = self.te.ev(s.value)
                if isinstance(s.op, ast.Sub):
                    d = -d
                elif not isinstance(s.op, ast.Add):
                    raise AnalysisError(f"{self.fn.qual}: cell updated with {type(s.op).__name__}")
                out.append((s, d))
            elif isinstance(s, ast.AugAssign) and isinstance(s.target, ast.Subscript) \
                    and u(s.target.value) in self.cell_dicts:
                d = self.te.ev(s.value)
                if isinstance(s.op, ast.Sub):
                    d = -d
                elif not isinstance(s.op, ast.Add):
                    raise AnalysisError(f"{self.fn.qual}: cell updated with {type(s.op).__name__}")
                out.append((s, d))
            elif isinstance(s, ast.Assign) and len(s.targets) == 1 and isinstance(s.targets[0], ast.Attribute) \
                    and s.targets[0].attr == "power" and u(s.targets[0].value) in self.cell_objs:
                # X.power = X.power + e
                cur = Poly.atom(u(s.targets[0]))
                out.append((s, self.te.ev(s.value) - cur))
        return out

    def name_update(self, s: ast.stmt) -> tuple[str, Poly] | None:
        """`L += e`, `L -= e`, `L = L ± e` on a plain local name -> (L, delta)."""
        if isinstance(s, ast.AugAssign) and isinstance(s.target, ast.Name) \
                and isinstance(s.op, (ast.Add, ast.Sub)):
            d = self.te.ev(s.value)
            return s.target.id, (d if isinstance(s.op, ast.Add) else -d)
        if isinstance(s, ast.Assign) and len(s.targets) == 1 and isinstance(s.targets[0], ast.Name):
            name = s.targets[0].id
            if any(isinstance(x, ast.Name) and x.id == name for x in ast.walk(s.value)):
                d = self.te.ev(s.value) - Poly.atom(name)
                if name not in d.atoms():
                    return name, d
        return None


def check_l1(run: Run, prog: Program) -> dict[str, Ledgers]:
    out = {}
    for fname in ALLOC_FUNCS:
        fn = prog.func(f"{BDA}.{fname}")
        run.analysed(fn.qual)
        lg = Ledgers(fn)
        out[fname] = lg
        if not lg.cell_dicts:
            raise AnalysisError(f"{fn.qual}: no allocation cells identified")
        ledgers = lg.mirrors | lg.complements
        if not ledgers:
            raise AnalysisError(f"{fn.qual}: no ledger identified (mirror/complement)")
        run.sample({"function": fn.qual, "cells": sorted(lg.cell_dicts), "cell_objects": sorted(lg.cell_objs),
                    "mirror": sorted(lg.mirrors), "complement": sorted(lg.complements)})
        for suite in lg.suites:
            cells = lg.cell_deltas(suite)
            cell_sum = sum((d for _s, d in cells), Poly())
            upd: dict[str, Poly] = {}
            stmts: dict[str, list[ast.stmt]] = {}
            for s in suite:
                nu = lg.name_update(s)
                if nu and nu[0] in ledgers:
                    upd[nu[0]] = upd.get(nu[0], Poly()) + nu[1]
                    stmts.setdefault(nu[0], []).append(s)
            if not cells and not upd:
                continue
            if not upd:
                # cells change, no ledger in this suite: allowed only if the net change is zero
                # or the cells are created from another ledger-neutral re-split (handled by L3)
                if lg.mirrors and not cell_sum.is_zero():
                    for s, d in cells:
                        run.violation("C01.L1", fn.qual, s,
                                      f"allocation cell changes by `{d!r}` but the mirror ledger "
                                      f"{sorted(lg.mirrors)} is not updated in the same suite",
                                      node=s, file=fn.file)
                else:
                    run.ok("C01.L1", f"{fn.qual}: suite@{suite[0].lineno} cells {cell_sum!r} (no "
                           "mirror in this function)" if not lg.mirrors else
                           f"{fn.qual}: suite@{suite[0].lineno} zero-valued cell creation")
                continue
            for name, delta in upd.items():
                want = cell_sum if name in lg.mirrors else -cell_sum
                role = "mirror" if name in lg.mirrors else "complement"
                for s in stmts[name][:1]:
                    run.check(delta == want, "C01.L1", fn.qual, s,
                              f"{role} ledger `{name}` changes by `{delta!r}` in this suite while the "
                              f"allocation cells change by `{cell_sum!r}`: the ledger no longer "
                              "reflects what is commanded (power is created or lost)",
                              node=s, file=fn.file,
                              instance=f"{fn.qual}: suite@{suite[0].lineno} Δ{name}={delta!r} "
                                       f"Δcells={cell_sum!r}")
    return out


# ---------------------------------------------------------------------------------------------
def check_l2(run: Run, prog: Program, ledgers: dict[str, Ledgers]) -> None:
    """A complement ledger decremented inside a loop must be read after that loop."""
    n = 0
    for fname, lg in ledgers.items():
        fn = lg.fn
        cfg = CFG(fn.node, fn.file)
        for name in sorted(lg.complements):
            dec_nodes = [x.id for x in cfg.nodes if x.kind == "stmt" and x.ast is not None
                         and (nu := lg.name_update(x.ast)) is not None and nu[0] == name]  # type: ignore[arg-type]
            if not dec_nodes:
                continue
            # innermost loop header containing the decrements
            loops = [h for h in cfg.nodes if h.kind in ("for", "while") and all(
                d in cfg.reachable([m for m, lab in cfg.succ[h.id] if lab in ("iter", "true")],
                                   avoid=[h.id]) for d in dec_nodes)]
            if not loops:
                continue
            inner = min(loops, key=lambda h: len(cfg.reachable(
                [m for m, lab in cfg.succ[h.id] if lab in ("iter", "true")], avoid=[h.id])))
            after = [m for m, lab in cfg.succ[inner.id] if lab in ("done", "false", "break")]
            # walk forward from loop exit until the name is overwritten; is it read?
            read = False
            seen = set()
            stack = list(after)
            while stack:
                x = stack.pop()
                if x in seen:
                    continue
                seen.add(x)
                node = cfg.nodes[x]
                if node.ast is not None and _reads(cfg, x, name):
                    read = True
                    break
                if any(u(w) == name for w in node_writes(cfg, x)) and not _reads(cfg, x, name):
                    continue  # overwritten: this path's residual is dead
                for m, lab in cfg.succ[x]:
                    if not lab.startswith("exc:"):
                        stack.append(m)
            n += 1
            run.check(read, "C01.L2", fn.qual, f"residual of `{name}` after `{inner.text(70)}`",
                      f"complement ledger `{name}` is decremented in the loop `{inner.text(60)}` but "
                      "its residual is never read afterwards: power that could not be placed is "
                      "silently dropped instead of being reported as remainder", node=inner.ast,
                      file=fn.file, instance=f"{fn.qual}: residual of `{name}` is consumed after its loop")
    if n < 2:
        raise AnalysisError(f"C01.L2: only {n} complement-ledger loops found")


def _reads(cfg: CFG, nid: int, name: str) -> bool:
    from ..engine.cfg import own_parts

    for part in own_parts(cfg.nodes[nid]):
        for x in walk_no_nested(part):
            if isinstance(x, ast.Name) and x.id == name and isinstance(x.ctx, ast.Load):
                # `L -= e` reads L only to update itself: not a consumption
                s = cfg.nodes[nid].ast
                if isinstance(s, ast.AugAssign) and u(s.target) == name:
                    continue
                return True
    return False


# ---------------------------------------------------------------------------------------------
def check_l3(run: Run, prog: Program, ledgers: dict[str, Ledgers]) -> None:
    fn = prog.func(f"{BDA}._distribute_power")
    lg = ledgers["_distribute_power"]
    te = TermEval()
    all_rets = [n for n in body_walk(fn.node) if isinstance(n, ast.Return)]
    rets = [n for n in all_rets if isinstance(n.value, ast.Call) and u(n.value.func) == "DistributionResult"]
    for r in all_rets:
        if r not in rets:
            run.violation("C01.L3", fn.qual, r,
                          "a return path of the allocation routine does not build its DistributionResult "
                          "from the allocation cells and the remainder ledger (e.g. it reuses the "
                          "zero-request result, so set-points + remainder no longer equal the request)",
                          node=r, file=fn.file)
    if len(rets) < 2:
        if not rets:
            raise AnalysisError(f"{fn.qual}: no DistributionResult return found")
        rets = [rets[0], rets[0]] if all_rets and all_rets[-1] is rets[0] else rets + rets
    request = fn.params[2]  # power_w
    final = rets[-1]
    kws = {k.arg: k.value for k in final.value.keywords}  # type: ignore[union-attr]
    rem = kws.get("remaining_power") or (final.value.args[1] if len(final.value.args) > 1 else None)  # type: ignore[union-attr]
    dist = kws.get("distribution") or (final.value.args[0] if final.value.args else None)  # type: ignore[union-attr]
    if rem is None or dist is None or not isinstance(rem, ast.Name):
        raise AnalysisError(f"{fn.qual}: final DistributionResult shape not recognised")
    L = rem.id
    # all writes to L, in order
    writes = [s for s in body_walk(fn.node) if isinstance(s, (ast.Assign, ast.AugAssign, ast.AnnAssign))
              and any(u(w) == L for w in _targets(s))]
    # the last plain definition from the mirror
    defs = [s for s in writes if isinstance(s, ast.Assign) and isinstance(s.targets[0], ast.Name)]
    ok_def = False
    for s in defs:
        p = te.ev(s.value)
        for m in lg.mirrors:
            if p == Poly.atom(request) - Poly.atom(m):
                ok_def = True
    run.check(ok_def, "C01.L3", fn.qual, f"{L} = {request} - <mirror>",
              f"the reported remainder `{L}` is not defined as request minus the distributed-power "
              "ledger", node=final, file=fn.file)
    # every later change of L: threaded through the greedy top-up (arg -> 2nd result) or
    # increased by the residual returned from the per-inverter split
    greedy = find_calls(fn.node, lambda c: method_call(c, "self", "_greedy_distribute_remaining_power"))
    split = find_calls(fn.node, lambda c: method_call(c, "self", "_distribute_multi_inverter_pairs"))
    if len(greedy) != 1 or len(split) != 1:
        raise AnalysisError(f"{fn.qual}: greedy/split call sites not found")
    g = greedy[0]
    ok_thread = len(g.args) == 2 and u(g.args[1]) == L
    g_assign = [s for s in writes if isinstance(s, ast.Assign) and s.value is g]
    ok_thread = ok_thread and len(g_assign) == 1 and isinstance(g_assign[0].targets[0], ast.Tuple) \
        and u(g_assign[0].targets[0].elts[1]) == L
    run.check(ok_thread, "C01.L3", fn.qual, g,
              "the remainder is not threaded through the greedy top-up (passed in and re-bound from "
              "its second result)", node=g, file=fn.file)
    # split: either returns only the map (then its residual must be provably zero -> L2 of the
    # split function) or returns (map, residual) and the residual is added to L
    sp = split[0]
    sp_assign = [s for s in body_walk(fn.node) if isinstance(s, ast.Assign) and s.value is sp]
    residual_name = None
    if sp_assign and isinstance(sp_assign[0].targets[0], ast.Tuple) and len(sp_assign[0].targets[0].elts) == 2:
        residual_name = u(sp_assign[0].targets[0].elts[1])
    other = [s for s in writes if s not in defs and s not in g_assign]
    ok_other = True
    for s in other:
        if isinstance(s, ast.AugAssign) and isinstance(s.op, ast.Add) and residual_name \
                and u(s.value) == residual_name:
            continue
        if isinstance(s, ast.AnnAssign):
            continue
        ok_other = False
        run.violation("C01.L3", fn.qual, s,
                      f"the remainder `{L}` is modified by a statement that is neither the greedy "
                      "top-up nor the residual of the per-inverter split", node=s, file=fn.file)
    if ok_other:
        run.ok("C01.L3", f"{fn.qual}: remainder `{L}` only changed by top-up threading"
               + (f" and += {residual_name}" if residual_name else ""))
    # the split function's second result is its own residual ledger
    sfn = prog.func(f"{BDA}._distribute_multi_inverter_pairs")
    srets = [n for n in body_walk(sfn.node) if isinstance(n, ast.Return) and n.value is not None]
    if residual_name:
        ok = all(isinstance(r.value, ast.Tuple) and len(r.value.elts) == 2 for r in srets)
        if ok:
            acc = u(srets[-1].value.elts[1])  # type: ignore[union-attr]
            comp = ledgers["_distribute_multi_inverter_pairs"].complements
            feeds = [s for s in body_walk(sfn.node) if isinstance(s, ast.AugAssign)
                     and u(s.target) == acc and isinstance(s.op, ast.Add) and u(s.value) in comp]
            ok = bool(feeds)
        run.check(ok, "C01.L3", sfn.qual, "return new_distribution, <accumulated residual>",
                  "the split's second result is not the accumulated residual of its complement ledger",
                  node=sfn.node, file=sfn.file)
    # returned cells are the split's map
    ok = isinstance(dist, ast.Name) and sp_assign and (
        u(sp_assign[0].targets[0]) == dist.id or (
            isinstance(sp_assign[0].targets[0], ast.Tuple) and u(sp_assign[0].targets[0].elts[0]) == dist.id))
    run.check(bool(ok), "C01.L3", fn.qual, "distribution=<result of the per-inverter split>",
              "the returned set-points are not the per-inverter split of the allocated cells",
              node=final, file=fn.file)
    # early exit: all zero cells, remainder == request
    early = rets[0]
    if early is final:
        return
    args = list(early.value.args) + [k.value for k in early.value.keywords]  # type: ignore[union-attr]
    ok = len(args) == 2
    if ok:
        cells, r = args
        cdef = cells
        if isinstance(cells, ast.Name):
            for s in body_walk(fn.node):
                if isinstance(s, ast.Assign) and u(s.targets[0]) == cells.id:
                    cdef = s.value
        ok = isinstance(cdef, ast.DictComp) and te.ev(cdef.value).is_zero() and not any(
            g.ifs for g in cdef.generators) and te.ev(r) == Poly.atom(request)
    run.check(ok, "C01.L3", fn.qual, early,
              "the nothing-available early exit does not return all-zero set-points with the whole "
              "request as remainder", node=early, file=fn.file)
    # distribute_power: zero request -> zeros, remainder 0
    dp = prog.func(f"{BDA}.distribute_power")
    run.analysed(dp.qual)
    zr = [n for n in body_walk(dp.node) if isinstance(n, ast.Return) and isinstance(n.value, ast.Call)
          and u(n.value.func) == "DistributionResult"]
    ok = len(zr) == 1
    if ok:
        kws = {k.arg: k.value for k in zr[0].value.keywords}  # type: ignore[union-attr]
        ok = isinstance(kws.get("distribution"), ast.DictComp) and te.ev(kws["distribution"].value).is_zero() \
            and te.ev(kws["remaining_power"]).is_zero()
    run.check(ok, "C01.L3", dp.qual, "zero request -> zero set-points, zero remainder",
              "a zero request does not yield zero set-points and zero remainder", node=dp.node,
              file=dp.file)
    # dispatch by sign
    txt = u(dp.node)
    ok = bool(re.search(r"if power > 0(\.0)?:\s*return self\._distribute_consume_power\(power, components\)", txt)) \
        and "return self._distribute_supply_power(power, components)" in txt
    run.check(ok, "C01.S", dp.qual, "positive -> consume path, negative -> supply path",
              "requests are not dispatched to the consume/supply paths by their sign",
              node=dp.node, file=dp.file)


def _targets(s: ast.stmt) -> list[ast.AST]:
    if isinstance(s, ast.Assign):
        out: list[ast.AST] = []
        for t in s.targets:
            out.extend(t.elts if isinstance(t, ast.Tuple) else [t])
        return out
    if isinstance(s, (ast.AugAssign, ast.AnnAssign)):
        return [s.target]
    return []


# ---------------------------------------------------------------------------------------------
def check_sign(run: Run, prog: Program) -> None:
    sp = prog.func(f"{BDA}._distribute_supply_power")
    run.analysed(sp.qual)
    te = TermEval()
    p = sp.params[1]
    calls = find_calls(sp.node, lambda c: method_call(c, "self", "_distribute_power"))
    ok = len(calls) == 1 and len(calls[0].args) >= 2 and te.ev(calls[0].args[1]) == -Poly.atom(p)
    run.check(ok, "C01.S", sp.qual, f"self._distribute_power(components, -{p}, ...)",
              "the supply request is not passed negated into the common allocation routine",
              node=sp.node, file=sp.file)
    res = None
    for s in body_walk(sp.node):
        if isinstance(s, (ast.Assign, ast.AnnAssign)) and getattr(s, "value", None) is (calls[0] if calls else None):
            res = u(s.targets[0]) if isinstance(s, ast.Assign) else u(s.target)
    ok_cells = ok_rem = False
    if res:
        for s in body_walk(sp.node):
            if isinstance(s, ast.For) and u(s.iter) in (f"{res}.distribution.keys()", f"{res}.distribution") \
                    and len(s.body) == 1 and isinstance(s.body[0], ast.AugAssign):
                b = s.body[0]
                ok_cells = u(b.target) == f"{res}.distribution[{u(s.target)}]" and isinstance(b.op, ast.Mult) \
                    and te.ev(b.value) == Poly.const(-1)
            if isinstance(s, ast.AugAssign) and u(s.target) == f"{res}.remaining_power":
                ok_rem = isinstance(s.op, ast.Mult) and te.ev(s.value) == Poly.const(-1)
        rets = [n for n in body_walk(sp.node) if isinstance(n, ast.Return)]
        ok_ret = len(rets) == 1 and u(rets[0].value) == res
    else:
        ok_ret = False
    run.check(ok_cells, "C01.S", sp.qual, "every set-point negated on the way out",
              "not every set-point of the supply result is negated back", node=sp.node, file=sp.file)
    run.check(ok_rem, "C01.S", sp.qual, "remainder negated on the way out",
              "the remainder of a supply request is not negated back (wrong sign / double count)",
              node=sp.node, file=sp.file)
    run.check(ok_ret, "C01.S", sp.qual, "returns the negated result",
              "the supply path does not return the negated result object", node=sp.node, file=sp.file)
    cp = prog.func(f"{BDA}._distribute_consume_power")
    run.analysed(cp.qual)
    calls = find_calls(cp.node, lambda c: method_call(c, "self", "_distribute_power"))
    rets = [n for n in body_walk(cp.node) if isinstance(n, ast.Return)]
    ok = len(calls) == 1 and u(calls[0].args[1]) == cp.params[1] and len(rets) == 1 and rets[0].value is calls[0]
    run.check(ok, "C01.S", cp.qual, "consume path passes the request unchanged",
              "the consume path alters the request or the result", node=cp.node, file=cp.file)
    # supply branch of the bounds is the dual of the consume branch
    ib = prog.func(f"{BDA}._inclusion_exclusion_bounds")
    run.analysed(ib.qual)
    pairs = 0
    for n in ast.walk(ib.node):
        if isinstance(n, ast.If) and u(n.test) == "supply" and n.orelse:
            sup = {u(s.targets[0]): s.value for s in n.body if isinstance(s, ast.Assign)}
            con = {u(s.targets[0]): s.value for s in n.orelse if isinstance(s, ast.Assign)}
            run.check(set(sup) == set(con), "C01.S", ib.qual, n,
                      "supply and consume branches assign different bound tables", node=n, file=ib.file)
            for k in sup:
                if k not in con:
                    continue
                pairs += 1
                d = dual(sup[k])
                run.check(d == u(con[k]).replace(" ", ""), "C01.S", ib.qual,
                          f"{k} = {u(sup[k])}",
                          f"the supply bound `{k} = {u(sup[k])}` is not the mirror image "
                          f"(upper<->lower, min<->max, negated) of the consume bound `{u(con[k])}`",
                          node=sup[k], file=ib.file,
                          instance=f"{ib.qual}: {k} supply is the dual of consume")
    if pairs < 4:
        raise AnalysisError(f"{ib.qual}: only {pairs} supply/consume bound pairs found")


def dual(e: ast.AST) -> str | None:
    """Dual of a supply-side bound expression: must be `-X`; swap lower->upper, max->min."""
    if not (isinstance(e, ast.UnaryOp) and isinstance(e.op, ast.USub)):
        return None
    t = u(e.operand).replace(" ", "")
    t = t.replace("_lower", "_UPPER").replace("_upper", "_lower").replace("_UPPER", "_upper")
    t = re.sub(r"\bmax\(", "MIN(", t)
    t = re.sub(r"\bmin\(", "max(", t).replace("MIN(", "min(")
    return t


# ---------------------------------------------------------------------------------------------
def check_b(run: Run, prog: Program) -> None:
    """Reported == commanded.  Roles are bound by dataflow on the normalised functions (simple private
    helpers spliced in, single-assignment locals substituted): the request / distribution are the
    parameters typed `Request` / `DistributionResult`; call arguments are matched to the callee's
    parameter names (keyword == positional); the reported power is what actually flows into the
    Success / PartialFailure fields."""
    from ..engine.normalize import normalize
    from ..engine.terms import flow_eval
    from ._c15_util import (
        all_ctors, bound_args, ctor_kind, match_send, method_params, plain_def_value, result_fields,
        splice_tail_helpers, typed_param,
    )
    from ..engine.util import reaching_defs

    def norm(q: str) -> FuncInfo:
        return normalize(prog, splice_tail_helpers(prog, prog.func(q))[0], diamonds=False)

    def typed(f: FuncInfo, tname: str, default: str) -> str:
        p = typed_param(f, tname, default)
        if p is None:
            raise AnalysisError(f"{f.qual}: no `{tname}` parameter")
        return p

    fn = norm(f"{BM}._distribute_power")
    run.analysed(fn.qual)
    te = TermEval()
    req, dist = typed(fn, "Request", "request"), typed(fn, "DistributionResult", "distribution")
    cfg = CFG(fn.node, fn.file)
    want = Poly.atom(f"{req}.power") - Poly.atom(f"{dist}.remaining_power")
    ctors = all_ctors(fn.node)
    if not any(ctor_kind(c) == "Success" for c in ctors):
        raise AnalysisError(f"{fn.qual}: no Success result is built")
    ok = True
    for c in ctors:
        kind = ctor_kind(c)
        f = bound_args(c, result_fields(prog, kind), f"{fn.qual}: {kind}(...)")
        sites = cfg.node_containing(c)
        if not sites or "succeeded_power" not in f or (kind == "PartialFailure" and "failed_power" not in f):
            raise AnalysisError(f"{fn.qual}: {kind}(...) site / power fields not found")
        reported = flow_eval(cfg, sites[0], f["succeeded_power"])
        if kind == "PartialFailure":
            reported = reported + flow_eval(cfg, sites[0], f["failed_power"])
        ok = ok and reported == want
    run.check(ok, "C01.B", fn.qual, "reported set power = request.power - distribution.remaining_power",
              "the power reported as set is not the request minus the algorithm's remainder",
              node=fn.node, file=fn.file,
              instance=f"{fn.qual}: reported set power == request.power - remainder of the algorithm")
    sd0 = prog.func(f"{BM}._set_distributed_power")
    calls = find_calls(fn.node, lambda c: method_call(c, "self", "_set_distributed_power"))
    ok = len(calls) == 1
    if ok:
        args = bound_args(calls[0], method_params(sd0), f"{fn.qual}: self._set_distributed_power(...)")
        ok = u(args.get(typed(sd0, "DistributionResult", "distribution"))) == dist
    run.check(ok, "C01.B", fn.qual, "self._set_distributed_power(<the computed distribution>, ...)",
              "the distribution handed to the API layer is not the one that was computed",
              node=fn.node, file=fn.file,
              instance=f"{fn.qual}: the computed distribution is handed to _set_distributed_power")
    gp = norm(f"{BM}._get_power_distribution")
    run.analysed(gp.qual)
    gp_req = typed(gp, "Request", "request")
    calls = find_calls(gp.node, lambda c: method_call(c, "self._distribution_algorithm", "distribute_power"))
    ok = len(calls) == 1
    if ok:
        args = bound_args(calls[0], method_params(prog.func(f"{BDA}.distribute_power")),
                          f"{gp.qual}: distribute_power(...)")
        ok = len(args) == 2 and "power" in args and te.ev(args["power"]) == Poly.atom(f"{gp_req}.power")
    run.check(ok, "C01.B", gp.qual, "distribute_power(request.power.as_watts(), pairs)",
              "the manager does not hand the requested power unchanged to the distribution algorithm",
              node=gp.node, file=gp.file,
              instance=f"{gp.qual}: the requested power is handed unchanged to the algorithm")
    # the algorithm's result is returned as it is: every return yields the call's value (directly or
    # through the one local it is bound to) and nothing is stored into that object
    gcfg = CFG(gp.node, gp.file)
    res_names = set()
    for s2 in body_walk(gp.node):
        if isinstance(s2, ast.Assign) and calls and s2.value is calls[0] and len(s2.targets) == 1 \
                and isinstance(s2.targets[0], ast.Name):
            res_names.add(s2.targets[0].id)
        elif isinstance(s2, ast.AnnAssign) and calls and s2.value is calls[0] and isinstance(s2.target, ast.Name):
            res_names.add(s2.target.id)
    rets = [r for r in body_walk(gp.node) if isinstance(r, ast.Return)]
    tampered = [s2 for s2 in body_walk(gp.node) if isinstance(s2, (ast.Assign, ast.AugAssign, ast.AnnAssign)) and any(
        any(u(t).startswith(f"{rn}.") or u(t).startswith(f"{rn}[") for rn in res_names)
        for t in (s2.targets if isinstance(s2, ast.Assign) else [s2.target]))]

    def returns_call(r: ast.Return) -> bool:
        if calls and r.value is calls[0]:
            return True
        if isinstance(r.value, ast.Name) and r.value.id in res_names:
            sites = gcfg.nodes_of(r)
            return bool(sites) and all(
                len(d := reaching_defs(gcfg, x, r.value.id)) == 1
                and plain_def_value(gcfg, d[0], r.value.id) is calls[0] for x in sites)
        return False

    ok = len(calls) == 1 and len(rets) >= 1 and all(returns_call(r) for r in rets) and not tampered
    run.check(ok, "C01.B", gp.qual, "the algorithm's result is returned untouched",
              "the manager rewrites the algorithm's set-points or remainder after the fact: what is "
              "reported as succeeded/excess no longer matches what is commanded", node=(tampered or [gp.node])[0],
              file=gp.file, instance=f"{gp.qual}: the algorithm's result is returned untouched")
    gd = norm(f"{BM}._get_distribution")
    gd_req = typed(gd, "Request", "request")
    gp0 = prog.func(f"{BM}._get_power_distribution")
    dcalls = find_calls(gd.node, lambda c: method_call(c, "self", "_get_power_distribution"))
    ok = len(dcalls) == 1
    if ok:
        args = bound_args(dcalls[0], method_params(gp0), f"{gd.qual}: self._get_power_distribution(...)")
        ok = u(args.get(typed(gp0, "Request", "request"))) == gd_req
    run.check(ok, "C01.B", gd.qual, "_get_power_distribution(request, ...)",
              "the distribution is computed for a different request", node=gd.node, file=gd.file,
              instance=f"{gd.qual}: the distribution is computed for the processed request")
    sd = norm(f"{BM}._set_distributed_power")
    run.analysed(sd.qual)
    sd_dist = typed(sd, "DistributionResult", "distribution")
    sp = find_calls(sd.node, lambda c: isinstance(c.func, ast.Attribute) and c.func.attr == "set_power")
    ok = False
    if len(sp) == 1:
        send = match_send(sd.node, sp[0])
        ok = send["ok"] and send["map"] == f"{sd_dist}.distribution"
    run.check(ok, "C01.B", sd.qual, "api.set_power(inverter_id, power) for every item of the distribution",
              "the set-points commanded to the API are filtered or transformed relative to the "
              "computed distribution (reported != commanded)", node=sd.node, file=sd.file,
              instance=f"{sd.qual}: set_power(id, power) for every item of the distribution")


MOD = "microgrid._power_distributing._distribution_algorithm._battery_distribution_algorithm"
CONTROLS = [
    ("greedy top-up forgets the ledger", MOD,
     "                power.power += additional_power\n                remaining_power -= additional_power\n",
     "                power.power += additional_power\n", "C01.L1"),
    ("top-up with the upper bound instead of the difference", MOD,
     "                power.power += additional_power\n", "                power.power += power.upper_bound\n",
     "C01.L1"),
    ("supply remainder not negated", MOD, "        result.remaining_power *= -1\n", "", "C01.S"),
    ("supply bounds swapped", MOD,
     "                excl_bounds[battery.component_id] = (\n                    -battery.power_bounds.exclusion_lower\n                )",
     "                excl_bounds[battery.component_id] = (\n                    -battery.power_bounds.inclusion_lower\n                )",
     "C01.S"),
    ("zero set-points filtered out of the API map",
     "microgrid._power_distributing._component_managers._battery_manager",
     "for inverter_id, power in distribution.distribution.items()\n        }",
     "for inverter_id, power in distribution.distribution.items()\n            if power != 0.0\n        }",
     "C01.B"),
    ("mirror ledger bumped without a cell", MOD,
     "            distributed_power += excess\n", "            distributed_power += excess\n            distributed_power += 0.1\n",
     "C01.L1"),
]


def run_rules(run: Run, prog: Program) -> None:
    ledgers = check_l1(run, prog)
    check_l2(run, prog, ledgers)
    check_l3(run, prog, ledgers)
    check_sign(run, prog)
    check_b(run, prog)


def check(run: Run, prog: Program, tier: str) -> str:
    run.rule("C01.L1", "per statement suite: Δ(allocation cells) == Δ(mirror ledger) == -Δ(complement "
             "ledger) as polynomial normal forms; no ledger changes alone")
    run.rule("C01.L2", "a complement ledger decremented in a loop is read after the loop (no dead residual)")
    run.rule("C01.L3", "the returned remainder is request - mirror, threaded through top-up and split; "
             "early exits return zeros with the whole request / zero as remainder")
    run.rule("C01.S", "supply path: request negated in, every cell and the remainder negated out; "
             "supply bounds are the dual of the consume bounds")
    run.rule("C01.B", "reported distributed power == request - remainder; API map == distribution")
    run_rules(run, prog)
    run.floor("C01.L1", 6)
    run.floor("C01.L2", 2)
    run.floor("C01.L3", 6)
    run.floor("C01.S", 9)
    run.floor("C01.B", 6)
    from ..engine.controls import run_controls

    run_controls(run, CONTROLS, run_rules, tier)
    run.undecided("that proportional shares, min-power reservations and deficit covering keep "
                  "Σcells <= request, the sign of each set-point and |remainder| <= |request| "
                  "(numeric content; needs relational invariants over dict-indexed cells)")
    run.assume("the ledger invariant mirror = Σcells ∧ complement = request - Σcells is preserved "
               "by every statement iff L1 holds per suite (algebraic oracle)")
    return ("Ledger-discipline analysis: allocation cells and the mirror/complement ledgers are "
            "discovered from the dataflow of the three allocation functions; every statement suite "
            "is checked for paired updates with polynomial normal forms; residual liveness via the "
            "CFG; remainder provenance, sign mirroring and reported==commanded as term/shape rules. "
            "Decides the bookkeeping structure, not the numeric shares.")
