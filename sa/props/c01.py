"""C01  Battery power distribution conserves the requested power — ledger discipline.

Decided (necessary conditions of the sum identity; the numeric content is not decided):
  C01.L1  paired update: in every statement suite of the three allocation functions the total
          change of the allocation cells equals the change of the mirror ledger and the negated
          change of the complement ledger (polynomial normal forms), and no ledger changes alone.
          Suites are read path-wise: a store / booking that follows an `if` and uses a local bound in its
          arms is read in each arm (tail sinking, Ledgers._sink_tails), and a local bound by a plain
          assignment stands for its value (snapshot) in its suite and the suites nested in it.
  C01.L2  no dead residual: a complement ledger that is decremented in a loop is read again
          after that loop (its residual must flow into the remainder or a cell).
  C01.L3  remainder provenance: DistributionResult.remaining_power is the complement ledger
          (request - mirror), threaded through the greedy top-up and the per-inverter split; the
          zero answer (set-points 0, remainder 0) is given only to a request that is zero to float
          tolerance (the tolerance of the test is resolved through constants and the helper's default).
  C01.S   sign mirror: the supply path negates the request in and every cell and the remainder
          out; the supply branch of _inclusion_exclusion_bounds is the dual of the consume branch.
  C01.SGN sign of the set-points: what a group's cell receives on top of its minimum power (its entry of the
          reserve table) never goes negative -- during deficit covering a donor's entry becomes zero or is
          reduced by an amount that the same pass compared with the entry's *current* value (a value read
          from the table before its last change is stale); decided per symbolic path of the covering
          loop (shared with C02.BOOK).
  C01.GRP every battery group reaches the algorithm at most once: the collection that flows into the `components`
          argument of distribute_power (followed back through parameters, locals and `self.<method>()` results to the
          statements that fill it) is a set / dict, or every addition is dominated by a membership test over
          everything collected so far; the allocation routine keys its cells by inverter set but books once per
          entry, so a repeated entry books its minimum power twice (_c01_util.py).
  C01.B   reported == commanded: the map sent to the API is the distribution itself, the
          reported distributed power is request - remainder, a call booked as failed always
          has its set-point booked as failed power (and vice versa), and the wait over the set_power
          tasks ends only when all are done or the request timeout expires (ALL_COMPLETED), so a
          set-point in flight is never written off because another call failed or finished first.
"""
from __future__ import annotations

import ast
import re
from typing import Any

from ..engine.cfg import CFG
from ..engine.report import AnalysisError, Run
from ..engine.resolver import FuncInfo, Program, body_walk, walk_no_nested
from ..engine.terms import Poly, TermEval
from ..engine.util import find_calls, method_call, node_writes, u

BDA = ("microgrid._power_distributing._distribution_algorithm._battery_distribution_algorithm:"
       "BatteryDistributionAlgorithm")
BM = "microgrid._power_distributing._component_managers._battery_manager:BatteryManager"
ALLOC_FUNCS = ("_distribute_power", "_greedy_distribute_remaining_power",
               "_distribute_multi_inverter_pairs")


# ---------------------------------------------------------------------------------------------
class Ledgers:
    """Cells, mirror and complement ledgers of one allocation function, discovered from dataflow."""

    def __init__(self, fn: FuncInfo) -> None:
        self.fn = fn
        self.te = TermEval()
        self.cell_dicts: set[str] = set()      # dicts whose values are cells (float or _Power)
        self.cell_objs: set[str] = set()       # locals bound to a _Power cell object
        self.mirrors: set[str] = set()
        self.complements: set[str] = set()
        self.suites: list[list[ast.stmt]] = []
        self._fx: dict[int, tuple[list[ast.stmt], list[tuple[ast.stmt, Poly]], list[tuple[ast.stmt, str, Poly]]]] = {}
        self._discover_cells()
        # the ledger view: statements that follow an `if` and book / store a value chosen in its arms are read
        # in each arm (path-wise), so that a merged store is paired with the arm's ledger update
        self.lnode: Any = self._sink_tails()
        self.view = fn if self.lnode is fn.node else FuncInfo(fn.name, fn.module, self.lnode, fn.cls, fn.outer)
        self._collect_suites(self.lnode)
        self._walk_suite(self.lnode.body, {})
        self._discover_ledgers()

    def _collect_suites(self, node: ast.AST) -> None:
        for n in ast.walk(node):
            for field in ("body", "orelse", "finalbody"):
                stmts = getattr(n, field, None)
                if isinstance(stmts, list) and stmts and isinstance(stmts[0], ast.stmt) \
                        and not isinstance(n, (ast.ClassDef,)) and not (
                            isinstance(n, (ast.FunctionDef, ast.AsyncFunctionDef, ast.Lambda))
                            and n is not node):
                    self.suites.append(stmts)

    # ---- merged tails
    SINK_BUDGET = 600
    """Upper bound of statements duplicated by tail sinking in one function (beyond it the suites stay as written)."""

    def _ledger_stmt(self, s: ast.stmt) -> bool:
        """Syntactically a cell store / cell update / `L += e` / `L = L ± e` (ledgers are not known yet)."""
        if isinstance(s, ast.AugAssign):
            t = s.target
            return isinstance(t, ast.Name) or (isinstance(t, ast.Subscript) and u(t.value) in self.cell_dicts) \
                or (isinstance(t, ast.Attribute) and t.attr == "power" and self.is_cell_obj(t.value))
        tgt = val = None
        if isinstance(s, ast.Assign) and len(s.targets) == 1:
            tgt, val = s.targets[0], s.value
        elif isinstance(s, ast.AnnAssign) and s.value is not None:
            tgt, val = s.target, s.value
        if tgt is None or val is None:
            return False
        if isinstance(tgt, ast.Subscript):
            return u(tgt.value) in self.cell_dicts
        if isinstance(tgt, ast.Attribute):
            return tgt.attr == "power" and self.is_cell_obj(tgt.value)
        return isinstance(tgt, ast.Name) and any(isinstance(x, ast.Name) and x.id == tgt.id for x in ast.walk(val))

    @staticmethod
    def _falls_through(stmts: list[ast.stmt]) -> bool:
        if not stmts:
            return True
        last = stmts[-1]
        if isinstance(last, (ast.Continue, ast.Break, ast.Return, ast.Raise)):
            return False
        if isinstance(last, ast.If):
            return Ledgers._falls_through(last.body) or Ledgers._falls_through(last.orelse)
        return True

    def _sink_tails(self) -> Any:
        """`if c: A else: B; T` -> `if c: A; T else: B; T` for the statements T up to the last cell / ledger statement
        that reads a local bound in A or B (an arm that leaves the suite does not get T).  Exact: the paths are the
        same; only the suites in which L1 sums the changes follow the paths instead of the layout.  Returns the
        function node itself when there is nothing to sink."""
        import copy

        budget = [self.SINK_BUDGET]
        changed = [False]

        def bound_in(stmts: list[ast.stmt]) -> set[str]:
            out: set[str] = set()
            for st in stmts:
                for x in walk_no_nested(st):
                    if isinstance(x, ast.Name) and isinstance(x.ctx, (ast.Store, ast.Del)):
                        out.add(x.id)
            return out

        def reads(st: ast.stmt) -> set[str]:
            return {x.id for x in walk_no_nested(st) if isinstance(x, ast.Name) and isinstance(x.ctx, ast.Load)}

        def sink(stmts: list[ast.stmt]) -> None:
            i = 0
            while i < len(stmts):
                st = stmts[i]
                if isinstance(st, ast.If) and i + 1 < len(stmts):
                    names = bound_in(st.body) | bound_in(st.orelse)
                    last = max((j for j in range(i + 1, len(stmts)) if self._ledger_stmt(stmts[j])
                                and reads(stmts[j]) & names), default=None)
                    fb, fo = self._falls_through(st.body), self._falls_through(st.orelse)
                    if last is not None and (fb or fo):
                        tail = stmts[i + 1:last + 1]
                        size = sum(1 for t in tail for x in ast.walk(t) if isinstance(x, ast.stmt))
                        if size * (int(fb) + int(fo)) <= budget[0]:
                            budget[0] -= size * (int(fb) + int(fo))
                            if fb:
                                st.body = st.body + copy.deepcopy(tail)
                            if fo:
                                st.orelse = st.orelse + copy.deepcopy(tail)
                            del stmts[i + 1:last + 1]
                            changed[0] = True
                for field in ("body", "orelse", "finalbody"):
                    sub = getattr(st, field, None)
                    if isinstance(sub, list) and sub and isinstance(sub[0], ast.stmt) \
                            and not isinstance(st, (ast.FunctionDef, ast.AsyncFunctionDef, ast.ClassDef)):
                        sink(sub)
                for h in getattr(st, "handlers", []) or []:
                    sink(h.body)
                for c in getattr(st, "cases", []) or []:
                    sink(c.body)
                i += 1

        root = copy.deepcopy(self.fn.node)
        sink(root.body)
        return root if changed[0] else self.fn.node

    # ---- classification of statements
    def _discover_cells(self) -> None:
        fn = self.fn.node
        # dicts of cells, by dataflow rather than by name:
        #   * parameters / locals whose annotation mentions the cell class `_Power`;
        #   * local dicts into which `_Power(...)` objects are stored;
        #   * local dicts that receive subscript stores and flow into the function's return value
        #     (the per-inverter set-point map handed back to the caller)
        for a in fn.args.args:
            if a.annotation is not None and "_Power" in u(a.annotation):
                self.cell_dicts.add(a.arg)
        returned: set[str] = set()
        stored: set[str] = set()
        for n in walk_no_nested(fn):
            if isinstance(n, ast.AnnAssign) and isinstance(n.target, ast.Name) and "_Power" in u(n.annotation):
                self.cell_dicts.add(n.target.id)
            if isinstance(n, ast.Return) and n.value is not None:
                returned |= {x.id for x in ast.walk(n.value) if isinstance(x, ast.Name)}
            tgt = None
            if isinstance(n, ast.Assign) and len(n.targets) == 1:
                tgt = n.targets[0]
            elif isinstance(n, ast.AugAssign):
                tgt = n.target
            if isinstance(tgt, ast.Subscript) and isinstance(tgt.value, ast.Name):
                stored.add(tgt.value.id)
                if isinstance(n, ast.Assign) and isinstance(n.value, ast.Call) and u(n.value.func) == "_Power":
                    self.cell_dicts.add(tgt.value.id)
            if isinstance(n, ast.Expr) and isinstance(n.value, ast.Call) and isinstance(n.value.func, ast.Attribute) \
                    and n.value.func.attr == "update" and isinstance(n.value.func.value, ast.Name):
                stored.add(n.value.func.value.id)   # filled by merging another dict
            if isinstance(tgt, ast.Name) and isinstance(n, ast.AugAssign) and isinstance(n.op, ast.BitOr):
                stored.add(tgt.id)
        params = {a.arg for a in fn.args.args + fn.args.kwonlyargs + fn.args.posonlyargs}
        self.cell_dicts |= {n for n in stored & returned if n not in params}
        #   * local dicts that are merged into a cell dict (`cells.update(part)`, `cells |= part`)
        for _ in range(3):
            for n in walk_no_nested(fn):
                part = None
                if isinstance(n, ast.Expr) and isinstance(n.value, ast.Call) and isinstance(n.value.func, ast.Attribute) \
                        and n.value.func.attr == "update" and u(n.value.func.value) in self.cell_dicts \
                        and len(n.value.args) == 1 and not n.value.keywords:
                    part = n.value.args[0]
                elif isinstance(n, ast.AugAssign) and isinstance(n.op, ast.BitOr) and u(n.target) in self.cell_dicts:
                    part = n.value
                if isinstance(part, ast.Name) and part.id in stored and part.id not in params:
                    self.cell_dicts.add(part.id)
        # locals bound to cell objects: loop vars over <celldict>.items() / .values(), X = <celldict>[k]
        for n in walk_no_nested(fn):
            if isinstance(n, ast.For) and isinstance(n.iter, ast.Call) and isinstance(
                    n.iter.func, ast.Attribute) and n.iter.func.attr == "items" \
                    and u(n.iter.func.value) in self.cell_dicts and isinstance(n.target, ast.Tuple):
                self.cell_objs.add(u(n.target.elts[1]))
            if isinstance(n, ast.For) and isinstance(n.iter, ast.Call) and isinstance(
                    n.iter.func, ast.Attribute) and n.iter.func.attr == "values" \
                    and u(n.iter.func.value) in self.cell_dicts and isinstance(n.target, ast.Name):
                self.cell_objs.add(n.target.id)
            if isinstance(n, ast.Assign) and isinstance(n.value, ast.Subscript) \
                    and u(n.value.value) in self.cell_dicts and isinstance(n.targets[0], ast.Name):
                self.cell_objs.add(n.targets[0].id)

    def _discover_ledgers(self) -> None:
        for suite in self.suites:
            cells = self.cell_deltas(suite)
            if not cells:
                continue
            cell_sum = sum((d for _s, d in cells), Poly())
            for _s, name, delta in self.name_updates(suite):
                if delta == cell_sum and not cell_sum.is_zero():
                    self.mirrors.add(name)
                if delta == -cell_sum and not cell_sum.is_zero():
                    self.complements.add(name)

    def cell_value(self, e: ast.AST, te: TermEval | None = None) -> Poly | None:
        """Value put into a new cell by storing expression `e` into a cell dict (None: re-store)."""
        te = te or self.te
        if isinstance(e, ast.Call) and u(e.func) == "_Power":
            kws = {k.arg: k.value for k in e.keywords}
            if "power" in kws:
                return te.ev(kws["power"])
            if len(e.args) >= 2:
                return te.ev(e.args[1])
            raise AnalysisError(f"{self.fn.qual}: _Power(...) without power argument")
        if isinstance(e, ast.Name) and e.id in self.cell_objs:
            return None  # re-storing an existing cell object
        return te.ev(e)

    def is_cell_obj(self, e: ast.AST) -> bool:
        """A cell object: a local bound to one, or `<cell dict>[key]` itself."""
        if isinstance(e, ast.Name):
            return e.id in self.cell_objs
        return isinstance(e, ast.Subscript) and u(e.value) in self.cell_dicts

    def _effects(self, suite: list[ast.stmt]) -> tuple[list[tuple[ast.stmt, Poly]], list[tuple[ast.stmt, str, Poly]]]:
        """(cell changes, name updates) of one suite, read in order: a local bound by a plain assignment earlier in
        the same suite (`v = min(a, b)` ... `cells[k] = v` / `rem -= v`) stands for the value it was given (its
        snapshot: later writes to what the value was computed from do not change it)."""
        got = self._fx.get(id(suite))
        if got is None or got[0] is not suite:
            self._walk_suite(suite, {})
            got = self._fx[id(suite)]
        return got[1], got[2]

    def _walk_suite(self, suite: list[ast.stmt], env_in: dict[str, Poly]) -> None:
        """Effects of `suite` entered with the bindings `env_in`, and (top-down) of the suites nested in it: the arms
        of an `if` start from the bindings at the `if`; a loop / with / try body from those it does not rebind."""
        env = dict(env_in)
        cells: list[tuple[ast.stmt, Poly]] = []
        upds: list[tuple[ast.stmt, str, Poly]] = []
        for s in suite:
            te = TermEval(env=env)
            c = self._cell_delta(s, te)
            if c is not None:
                cells.append((s, c))
            nu = self.name_update(s, te)
            if nu is not None:
                upds.append((s, nu[0], nu[1]))
            subs = [sub for field in ("body", "orelse", "finalbody") if isinstance(sub := getattr(s, field, None), list)
                    and sub and isinstance(sub[0], ast.stmt)]
            subs += [h.body for h in getattr(s, "handlers", []) or []] + [c2.body for c2 in getattr(s, "cases", []) or []]
            if subs and not isinstance(s, (ast.FunctionDef, ast.AsyncFunctionDef, ast.ClassDef)):
                inner = dict(env)
                if not isinstance(s, ast.If) or any(isinstance(x, ast.NamedExpr) for x in ast.walk(s.test)):
                    for x in walk_no_nested(s):
                        if isinstance(x, ast.Name) and isinstance(x.ctx, (ast.Store, ast.Del)):
                            inner.pop(x.id, None)
                for sub in subs:
                    self._walk_suite(sub, inner)
            self._bind(s, env, te)
        self._fx[id(suite)] = (suite, cells, upds)

    def _bind(self, s: ast.stmt, env: dict[str, Poly], te: TermEval) -> None:
        tgt = val = None
        if isinstance(s, ast.Assign) and len(s.targets) == 1:
            tgt, val = s.targets[0], s.value
        elif isinstance(s, ast.AnnAssign) and s.value is not None:
            tgt, val = s.target, s.value
        if isinstance(tgt, ast.Name) and val is not None and tgt.id not in self.cell_objs \
                and tgt.id not in self.cell_dicts \
                and not any(isinstance(x, ast.Name) and x.id == tgt.id for x in ast.walk(val)) \
                and not any(isinstance(x, (ast.Await, ast.Yield, ast.YieldFrom, ast.NamedExpr, ast.Lambda,
                                           ast.DictComp, ast.ListComp, ast.SetComp, ast.GeneratorExp, ast.Dict,
                                           ast.List, ast.Set)) for x in ast.walk(val)):
            env[tgt.id] = te.ev(val)
            return
        for x in walk_no_nested(s):
            if isinstance(x, ast.Name) and isinstance(x.ctx, (ast.Store, ast.Del)):
                env.pop(x.id, None)

    def _cell_delta(self, s: ast.stmt, te: TermEval) -> Poly | None:
        if isinstance(s, ast.Assign) and len(s.targets) == 1 and isinstance(s.targets[0], ast.Subscript) \
                and u(s.targets[0].value) in self.cell_dicts:
            return self.cell_value(s.value, te)
        if isinstance(s, ast.AugAssign) and (
                (isinstance(s.target, ast.Attribute) and s.target.attr == "power" and self.is_cell_obj(s.target.value))
                or (isinstance(s.target, ast.Subscript) and u(s.target.value) in self.cell_dicts)):
            d = te.ev(s.value)
            if isinstance(s.op, ast.Sub):
                return -d
            if not isinstance(s.op, ast.Add):
                raise AnalysisError(f"{self.fn.qual}: cell updated with {type(s.op).__name__}")
            return d
        if isinstance(s, ast.Assign) and len(s.targets) == 1 and isinstance(s.targets[0], ast.Attribute) \
                and s.targets[0].attr == "power" and self.is_cell_obj(s.targets[0].value):
            # X.power = X.power + e
            cur = Poly.atom(u(s.targets[0]))
            return te.ev(s.value) - cur
        return None

    def cell_deltas(self, suite: list[ast.stmt]) -> list[tuple[ast.stmt, Poly]]:
        return list(self._effects(suite)[0])

    def name_updates(self, suite: list[ast.stmt]) -> list[tuple[ast.stmt, str, Poly]]:
        return list(self._effects(suite)[1])

    def name_update(self, s: ast.stmt, te: TermEval | None = None) -> tuple[str, Poly] | None:
        """`L += e`, `L -= e`, `L = L ± e` on a plain local name -> (L, delta)."""
        te = te or self.te
        if isinstance(s, ast.AugAssign) and isinstance(s.target, ast.Name) \
                and isinstance(s.op, (ast.Add, ast.Sub)):
            d = te.ev(s.value)
            return s.target.id, (d if isinstance(s.op, ast.Add) else -d)
        tgt = val = None
        if isinstance(s, ast.Assign) and len(s.targets) == 1:
            tgt, val = s.targets[0], s.value
        elif isinstance(s, ast.AnnAssign) and s.value is not None:
            tgt, val = s.target, s.value
        if isinstance(tgt, ast.Name) and val is not None:
            name = tgt.id
            if any(isinstance(x, ast.Name) and x.id == name for x in ast.walk(val)):
                env = dict(te.env)
                env.pop(name, None)
                d = TermEval(env=env).ev(val) - Poly.atom(name)
                if name not in d.atoms():
                    return name, d
        return None


def check_l1(run: Run, prog: Program) -> dict[str, Ledgers]:
    out = {}
    from ._c15_util import anchors

    anc = anchors(prog)
    split_role = anc.roles.get("bda.split")
    for fname, role in zip(ALLOC_FUNCS, ("bda.core", "bda.greedy", "bda.split")):
        if role == "bda.greedy" and anc.roles.get(role) is None:
            continue   # the top-up is part of the core routine: its pairs are decided there
        fn = _view_of(prog, anc.get(role))
        run.analysed(fn.qual)
        lg = Ledgers(fn)
        out[fname] = lg
        if not lg.cell_dicts:
            raise AnalysisError(f"{fn.qual}: no allocation cells identified")
        ledgers = lg.mirrors | lg.complements
        n_before = len(run.violations)
        run.sample({"function": fn.qual, "cells": sorted(lg.cell_dicts), "cell_objects": sorted(lg.cell_objs),
                    "mirror": sorted(lg.mirrors), "complement": sorted(lg.complements)})
        for suite in lg.suites:
            cells = lg.cell_deltas(suite)
            cell_sum = sum((d for _s, d in cells), Poly())
            upd: dict[str, Poly] = {}
            stmts: dict[str, list[ast.stmt]] = {}
            deltas: dict[int, Poly] = {}
            for s, nm, dl in lg.name_updates(suite):
                if nm in ledgers:
                    upd[nm] = upd.get(nm, Poly()) + dl
                    stmts.setdefault(nm, []).append(s)
                    deltas[id(s)] = dl
            if not cells and not upd:
                continue
            if not upd:
                # cells change, no ledger in this suite: allowed only if every non-zero store is the
                # transfer of a whole input cell (`out[k] = <input cell>.power`); anything else creates
                # or loses power whether or not the function keeps a mirror
                stray = [(s, d) for s, d in cells if not d.is_zero()
                         and not any(d == Poly.atom(f"{x}.power") for x in lg.cell_objs)]
                if lg.mirrors:
                    stray = [(s, d) for s, d in cells if not d.is_zero()]
                for s, d in stray:
                    run.violation("C01.L1", fn.qual, s,
                                  f"allocation cell changes by `{d!r}` but no ledger "
                                  f"{sorted(ledgers)} is updated in the same suite and the value is not a "
                                  "whole input cell: power is created or lost", node=s, file=fn.file)
                if not stray:
                    run.ok("C01.L1", f"{fn.qual}: suite@{suite[0].lineno} cells {cell_sum!r} "
                           + ("(transfer of input cells / zero-valued creation)" if not cell_sum.is_zero()
                              else "(zero-valued cell creation)"))
                continue
            for name, delta in upd.items():
                want = cell_sum if name in lg.mirrors else -cell_sum
                role = "mirror" if name in lg.mirrors else "complement"
                if delta != want and name in lg.complements and split_role is not None:
                    # `remainder += <residual returned by the per-inverter split>`: the cells changed inside the
                    # split, whose own pairing and residual are decided there and under L3
                    l1c = CFG(lg.view.node, fn.file)
                    l1p = Prov(prog, lg.view, l1c)
                    extra = Poly()
                    for st in stmts[name]:
                        sites = l1c.nodes_of(st)
                        if sites and isinstance(st, ast.AugAssign) and isinstance(st.op, ast.Add):
                            t = l1p.term(sites[0], st.value)
                            a = t.as_atom()
                            if a in l1p.calls and l1p.calls[a][0] == split_role.name and l1p.calls[a][1] == 1:
                                extra = extra + deltas[id(st)]
                    delta = delta - extra
                for s in stmts[name][:1]:
                    run.check(delta == want, "C01.L1", fn.qual, s,
                              f"{role} ledger `{name}` changes by `{delta!r}` in this suite while the "
                              f"allocation cells change by `{cell_sum!r}`: the ledger no longer "
                              "reflects what is commanded (power is created or lost)",
                              node=s, file=fn.file,
                              instance=f"{fn.qual}: suite@{suite[0].lineno} Δ{name}={delta!r} "
                                       f"Δcells={cell_sum!r}")
        if not ledgers and len(run.violations) == n_before:
            # nothing is paired with the cells and nothing was found wrong either: the rule is vacuous here
            raise AnalysisError(f"{fn.qual}: no ledger identified (mirror/complement)")
        # a mirror ledger starts at zero (no cell exists yet) or continues another mirror
        l1cfg = CFG(fn.node, fn.file)
        l1pv = Prov(prog, fn, l1cfg)
        for m in sorted(lg.mirrors):
            plain = [st for st in walk_no_nested(fn.node) if isinstance(st, (ast.Assign, ast.AnnAssign))
                     and getattr(st, "value", None) is not None and any(u(w) == m for w in _targets(st))
                     and lg.name_update(st) is None]
            def starts_ok(st: ast.stmt) -> bool:
                if isinstance(st.targets[0] if isinstance(st, ast.Assign) else st.target, ast.Tuple):  # type: ignore[attr-defined]
                    return False
                v = lg.te.ev(st.value)  # type: ignore[attr-defined]
                if v.is_zero() or v.as_atom() in lg.mirrors:
                    return True
                # handed back from a spliced helper: resolve the value through its single definitions
                sites = l1cfg.nodes_of(st)
                return bool(sites) and l1pv.term(sites[0], st.value).as_atom() in lg.mirrors  # type: ignore[attr-defined]

            ok = all(starts_ok(st) for st in plain)
            run.check(ok and bool(plain), "C01.L1", fn.qual, f"{m} = 0",
                      f"the mirror ledger `{m}` does not start at zero: the reported remainder is off by its "
                      "initial value", node=(plain or [fn.node])[0], file=fn.file,
                      instance=f"{fn.qual}: mirror ledger `{m}` starts at zero")
        _check_carry_over(run, fn, lg)
    return out


def _check_carry_over(run: Run, fn: FuncInfo, lg: Ledgers) -> None:
    """A routine that re-splits input cells (a cell-dict parameter) into a new cell dict must carry every
    input cell over: each iteration over the input either stores the whole `cell.power` into the new
    map or starts a complement ledger with it (whose residual L1/L2/L3 follow)."""
    from ._c15_util import loop_binding

    a = fn.node.args
    params = {x.arg for x in a.posonlyargs + a.args + a.kwonlyargs}
    ins, outs = lg.cell_dicts & params, lg.cell_dicts - params
    if not ins or not outs:
        return
    cfg = CFG(fn.node, fn.file)
    for h in cfg.nodes:
        if h.kind != "for" or not isinstance(h.ast, ast.For):
            continue
        b = loop_binding(h.ast)
        if b is None or b[0] not in ins:
            continue
        cellv = Poly.atom(f"{b[2]}.power") if b[2] is not None else Poly.atom(f"{b[0]}[{b[1]}].power")
        first = [m for m, lab in cfg.succ[h.id] if lab == "iter"]
        body = cfg.reachable(first, avoid=[h.id])
        carry = []
        for x in body:
            st = cfg.nodes[x].ast
            if cfg.nodes[x].kind != "stmt" or not isinstance(st, (ast.Assign, ast.AnnAssign)) or st.value is None:
                continue
            tgt = st.targets[0] if isinstance(st, ast.Assign) and len(st.targets) == 1 else getattr(st, "target", None)
            if lg.te.ev(st.value) != cellv:
                continue
            if isinstance(tgt, ast.Subscript) and u(tgt.value) in outs:
                carry.append(x)
            elif isinstance(tgt, ast.Name) and tgt.id in lg.complements:
                carry.append(x)
        wit = cfg.path(first[0], [h.id, cfg.exit], avoid=carry,
                       edge_ok=lambda _a, _b, lab: not lab.startswith("exc:")) if first and first[0] not in carry else None
        run.check(wit is None, "C01.L1", fn.qual, f"every input cell of `{b[0]}` is carried over",
                  "an input cell can be dropped: an iteration neither stores its whole power into the new "
                  "set-point map nor starts a remainder ledger with it (its power is lost)",
                  node=h.ast, file=fn.file, path=cfg.describe_path(wit),
                  instance=f"{fn.qual}: every input cell is carried into the new map or a complement ledger")


# ---------------------------------------------------------------------------------------------
def check_l2(run: Run, prog: Program, ledgers: dict[str, Ledgers]) -> None:
    """A complement ledger decremented inside a loop must be read after that loop."""
    n = 0
    for fname, lg in ledgers.items():
        fn = lg.fn
        cfg = CFG(fn.node, fn.file)
        for name in sorted(lg.complements):
            dec_nodes = [x.id for x in cfg.nodes if x.kind == "stmt" and x.ast is not None
                         and (nu := lg.name_update(x.ast)) is not None and nu[0] == name]  # type: ignore[arg-type]
            if not dec_nodes:
                continue
            # innermost loop header containing the decrements
            bodies = {h.id: _loop_body(cfg, h.id) for h in cfg.nodes if h.kind in ("for", "while")}
            # updates outside every loop (e.g. a residual handed over afterwards) are not decrement loops
            dec_nodes = [d for d in dec_nodes if any(d in b for b in bodies.values())]
            loops = [h for h in cfg.nodes if h.id in bodies and dec_nodes and all(d in bodies[h.id] for d in dec_nodes)]
            if not loops:
                continue
            inner = min(loops, key=lambda h: len(bodies[h.id]))
            after = [m for m, lab in cfg.succ[inner.id] if lab in ("done", "false", "break")]
            # walk forward from loop exit until the name is overwritten; is it read?
            read = False
            seen = set()
            stack = list(after)
            while stack:
                x = stack.pop()
                if x in seen:
                    continue
                seen.add(x)
                node = cfg.nodes[x]
                if node.ast is not None and _reads(cfg, x, name):
                    read = True
                    break
                if any(u(w) == name for w in node_writes(cfg, x)) and not _reads(cfg, x, name):
                    nu2 = lg.name_update(node.ast) if node.kind == "stmt" and node.ast is not None else None  # type: ignore[arg-type]
                    if nu2 is None or nu2[0] != name:
                        continue  # overwritten: this path's residual is dead
                    # `L += e` keeps the residual in L: go on
                for m, lab in cfg.succ[x]:
                    if not lab.startswith("exc:"):
                        stack.append(m)
            n += 1
            run.check(read, "C01.L2", fn.qual, f"residual of `{name}` after `{inner.text(70)}`",
                      f"complement ledger `{name}` is decremented in the loop `{inner.text(60)}` but "
                      "its residual is never read afterwards: power that could not be placed is "
                      "silently dropped instead of being reported as remainder", node=inner.ast,
                      file=fn.file, instance=f"{fn.qual}: residual of `{name}` is consumed after its loop")
    if n < 2 and not run.violations:
        raise AnalysisError(f"C01.L2: only {n} complement-ledger loops found")


def _loop_body(cfg: CFG, header: int) -> set[int]:
    """Nodes of one loop: reachable from the body's entry without passing the header and without
    leaving through `break` (what follows a break belongs to the code after the loop)."""
    return cfg.reachable([m for m, lab in cfg.succ[header] if lab in ("iter", "true")], avoid=[header],
                         edge_ok=lambda _a, _b, lab: lab != "break")


def _reads(cfg: CFG, nid: int, name: str) -> bool:
    from ..engine.cfg import own_parts

    for part in own_parts(cfg.nodes[nid]):
        for x in walk_no_nested(part):
            if isinstance(x, ast.Name) and x.id == name and isinstance(x.ctx, ast.Load):
                # `L -= e` reads L only to update itself: not a consumption
                s = cfg.nodes[nid].ast
                if isinstance(s, ast.AugAssign) and u(s.target) == name:
                    continue
                if isinstance(s, (ast.Assign, ast.AnnAssign)) and cfg.nodes[nid].kind == "stmt":
                    tg = s.targets[0] if isinstance(s, ast.Assign) and len(s.targets) == 1 else getattr(s, "target", None)
                    val = s.value
                    if isinstance(tg, ast.Name) and tg.id == name and val is not None:
                        d = TermEval().ev(val) - Poly.atom(name)
                        if name not in d.atoms():
                            continue  # `L = L - e`: same as `L -= e`
                return True
    return False


# ---------------------------------------------------------------------------------------------
def _view_of(prog: Program, fn: FuncInfo) -> FuncInfo:
    from ._c15_util import analysis_view

    return analysis_view(prog, fn)


def _float_param(fn: FuncInfo, position: int) -> str:
    """The power parameter of an allocation routine: the one parameter annotated `float`
    (fallback: its position in the signature)."""
    a = fn.node.args
    hits = [x.arg for x in a.posonlyargs + a.args + a.kwonlyargs if x.annotation is not None and u(x.annotation) == "float"]
    if len(hits) == 1:
        return hits[0]
    if len(fn.params) > position:
        return fn.params[position]
    raise AnalysisError(f"{fn.qual}: power parameter not identified")


class Prov:
    """Provenance terms on a CFG: the polynomial of an expression at a node in which every local is
    replaced by what it was computed from -- plain definitions are expanded, `x += e` / `x -= e` add to
    the previous term, and an element of a tuple unpacked from a method call becomes the atom
    `<callee>#<index>@<line>` whose call (and argument terms) is kept in `self.calls`."""

    def __init__(self, prog: Program, fn: FuncInfo, cfg: CFG) -> None:
        self.prog, self.fn, self.cfg = prog, fn, cfg
        self.calls: dict[str, tuple[str, int, dict[str, Poly]]] = {}   # atom -> (callee, index, args by parameter)

    def term(self, nid: int, e: ast.AST, depth: int = 10) -> Poly:
        def hook(x: ast.AST, _te: TermEval) -> Poly | None:
            if isinstance(x, ast.Name):
                return self.name(nid, x.id, depth - 1)
            return None

        return TermEval(atom_hook=hook).ev(e)

    def call_atom(self, nid: int, call: ast.Call, index: int, depth: int) -> Poly | None:
        from ._c15_util import bound_args, method_params

        f = call.func
        if not (isinstance(f, ast.Attribute) and isinstance(f.value, ast.Name) and f.value.id in ("self", "cls")
                and self.fn.cls is not None):
            return None
        callee = self.prog.resolve_method(self.fn.cls, f.attr)
        if callee is None:
            return None
        args = bound_args(call, method_params(callee), f"{self.fn.qual}: self.{f.attr}(...)")
        atom = f"{f.attr}#{index}@{getattr(call, 'lineno', 0)}"
        self.calls[atom] = (f.attr, index, {k: self.term(nid, v, depth - 1) for k, v in args.items()})
        return Poly.atom(atom)

    def name(self, nid: int, name: str, depth: int = 10) -> Poly:
        from ..engine.util import reaching_defs

        if depth <= 0:
            return Poly.atom(name)
        defs = reaching_defs(self.cfg, nid, name)
        if len(defs) != 1:
            return Poly.atom(name)
        d = defs[0]
        n = self.cfg.nodes[d]
        st = n.ast
        if n.kind != "stmt" or st is None:
            return Poly.atom(name)
        if isinstance(st, ast.AugAssign) and isinstance(st.target, ast.Name) and st.target.id == name \
                and isinstance(st.op, (ast.Add, ast.Sub)):
            prev = self.name(d, name, depth - 1)
            delta = self.term(d, st.value, depth - 1)
            return prev + delta if isinstance(st.op, ast.Add) else prev - delta
        tgt = val = None
        if isinstance(st, ast.Assign) and len(st.targets) == 1:
            tgt, val = st.targets[0], st.value
        elif isinstance(st, ast.AnnAssign) and st.value is not None:
            tgt, val = st.target, st.value
        if isinstance(tgt, ast.Name) and tgt.id == name and val is not None:
            if isinstance(val, ast.Call):
                got = self.call_atom(d, val, -1, depth)  # the whole result of a method call
                if got is not None:
                    return got
            return self.term(d, val, depth - 1)
        if isinstance(tgt, (ast.Tuple, ast.List)) and isinstance(val, ast.Call):
            for i, e in enumerate(tgt.elts):
                if isinstance(e, ast.Name) and e.id == name:
                    got = self.call_atom(d, val, i, depth)
                    if got is not None:
                        return got
        return Poly.atom(name)


def _zero_cells(cfg: CFG, nid: int, e: ast.AST) -> bool:
    """`e` (at node nid) is a dict comprehension giving 0 to every element of its domain, unfiltered."""
    from ..engine.util import reaching_defs
    from ._c15_util import plain_def_value

    for _ in range(4):
        if not isinstance(e, ast.Name):
            break
        defs = reaching_defs(cfg, nid, e.id)
        v = plain_def_value(cfg, defs[0], e.id) if len(defs) == 1 else None
        if v is None:
            return False
        e, nid = v, defs[0]
    return isinstance(e, ast.DictComp) and TermEval().ev(e.value).is_zero() \
        and not any(g.ifs for g in e.generators)


def _dr_fields(prog: Program) -> list[str]:
    from ._c15_util import dataclass_fields

    fields = dataclass_fields(prog, prog.cls(f"{MOD}:DistributionResult"))
    if fields[:2] != ["distribution", "remaining_power"]:
        raise AnalysisError(f"DistributionResult fields not recognised: {fields}")
    return fields


def _is_dr(e: ast.AST | None) -> bool:
    return isinstance(e, ast.Call) and u(e.func).split(".")[-1] == "DistributionResult"


FLOAT_TOL_W = 1e-6
"""Largest magnitude (in watts) that still counts as "zero to float tolerance" for a request: the helper's
own default is 1e-9; anything a caller can tell from zero (the API takes fractional watts) is a request."""


def _const_number(prog: Program, fn: FuncInfo, e: ast.AST, depth: int = 0) -> float | None:
    """Numeric value of an expression made of literals and named constants: module-level `NAME = <number>`
    of the function's module, constants imported from another module of the package, class attributes
    (`self.X` / `cls.X` / `<Class>.X`).  None: not a compile-time number."""
    from ..engine.resolver import PKG, dotted

    c = TermEval().ev(e).const_value()
    if c is not None:
        return float(c)
    if depth > 5:
        return None
    if isinstance(e, ast.UnaryOp) and isinstance(e.op, (ast.USub, ast.UAdd)):
        v = _const_number(prog, fn, e.operand, depth + 1)
        return None if v is None else (-v if isinstance(e.op, ast.USub) else v)
    if isinstance(e, ast.Call) and u(e.func) in ("abs", "float") and len(e.args) == 1 and not e.keywords:
        v = _const_number(prog, fn, e.args[0], depth + 1)
        return None if v is None else (abs(v) if u(e.func) == "abs" else v)
    if isinstance(e, ast.Call) and u(e.func) in ("min", "max") and e.args and not e.keywords:
        vs = [_const_number(prog, fn, a, depth + 1) for a in e.args]
        return None if any(v is None for v in vs) else (min if u(e.func) == "min" else max)(vs)  # type: ignore[type-var]
    name = dotted(e)
    if name is None:
        return None
    head, _, tail = name.partition(".")
    mod = fn.module
    if not tail:
        if head in mod.assigns:
            return _const_number(prog, fn, mod.assigns[head], depth + 1)
        target = mod.imports.get(head, "")
        if target.startswith(PKG + "."):
            modname, _, attr = target[len(PKG) + 1:].rpartition(".")
            other = prog.modules.get(modname)
            if other is not None and attr in other.assigns:
                return _const_number(prog, FuncInfo(fn.name, other, fn.node), other.assigns[attr], depth + 1)
        return None
    if "." in tail:
        return None
    cls = fn.cls if head in ("self", "cls") else mod.classes.get(head)
    if cls is None:
        return None
    for k in prog.mro(cls):
        if tail in k.class_assigns:
            return _const_number(prog, FuncInfo(fn.name, k.module, fn.node, k), k.class_assigns[tail], depth + 1)
    return None


def _zero_helper(prog: Program, fn: FuncInfo, call: ast.Call) -> tuple[list[str], ast.AST, FuncInfo] | None:
    """`call` is a call of the package's close-to-zero predicate: (its parameters [value, tolerance], the
    tolerance's default).  The predicate is followed through the import and must be what its name says:
    `math.isclose(value, 0, abs_tol=<tolerance parameter>)` with no relative tolerance that could reach 0."""
    from ..engine.resolver import dotted
    from ..engine.sympath import sym_paths

    if u(call.func).split(".")[-1] != "is_close_to_zero":
        return None
    target = prog.resolve_name(fn.module, dotted(call.func))
    if not isinstance(target, FuncInfo):
        raise AnalysisError(f"{fn.qual}: `{u(call.func)}` does not resolve to a function of the package")
    a = target.node.args
    params = [x.arg for x in a.posonlyargs + a.args]
    if len(params) != 2 or a.kwonlyargs or a.vararg or a.kwarg or len(a.defaults) != 1:
        raise AnalysisError(f"{target.qual}: expected (value, tolerance=<default>) parameters")
    te = TermEval()
    paths = [p for p in sym_paths(target.node) if p.exit == "return"]
    r0 = paths[0].ret if len(paths) == 1 and not paths[0].conds else None
    if isinstance(r0, ast.Compare) and len(r0.ops) == 1:
        # the same predicate spelled `abs(value) <= tolerance` (either orientation)
        left, right, kind = r0.left, r0.comparators[0], type(r0.ops[0])
        if kind in (ast.Gt, ast.GtE):
            left, right, kind = right, left, {ast.Gt: ast.Lt, ast.GtE: ast.LtE}[kind]
        if kind in (ast.Lt, ast.LtE) and isinstance(left, ast.Call) and u(left.func) == "abs" and len(left.args) == 1 \
                and te.ev(left.args[0]) == Poly.atom(params[0]) and te.ev(right) == Poly.atom(params[1]):
            return params, a.defaults[0], target
    ok = isinstance(r0, ast.Call) and (d0 := dotted(r0.func)) is not None \
        and prog.external_name(target.module, d0) == "math.isclose"
    if ok:
        r = paths[0].ret
        kws = {k.arg: k.value for k in r.keywords}  # type: ignore[union-attr]
        pos = dict(zip(("a", "b"), r.args))  # type: ignore[union-attr]
        ops = [pos.get("a", kws.get("a")), pos.get("b", kws.get("b"))]
        rel = kws.get("rel_tol")
        ok = all(x is not None for x in ops) \
            and sorted(repr(te.ev(x)) for x in ops) == sorted((params[0], "0")) \
            and "abs_tol" in kws and te.ev(kws["abs_tol"]) == Poly.atom(params[1]) \
            and (rel is None or ((c := te.ev(rel).const_value()) is not None and 0 <= c < 1))
    if not ok:
        raise AnalysisError(f"{target.qual}: not `math.isclose(value, 0, abs_tol=<tolerance>)`: what the zero test "
                            "of a request admits cannot be read")
    return params, a.defaults[0], target


def _zero_test(prog: Program, fn: FuncInfo, atom: ast.AST, outcome: bool, power: str) -> tuple[float | None, str] | None:
    """Does the branch condition `atom` (taken with `outcome`) say "the request `power` is zero"?  Then
    (largest |power| it lets through -- 0.0 for an exact comparison, None if it is not a constant --, text)."""
    from ._c15_util import bound_args

    te = TermEval()
    if isinstance(atom, ast.Call):
        zh = _zero_helper(prog, fn, atom)
        if zh is None or not outcome:
            return None
        params, default, helper = zh
        try:
            a = bound_args(atom, params, f"{fn.qual}: {u(atom.func)}(...)")
        except AnalysisError:
            return None
        if params[0] not in a or te.ev(a[params[0]]) != Poly.atom(power):
            return None
        if params[1] in a:
            return _const_number(prog, fn, a[params[1]]), u(atom)
        # the helper's default, read in the helper's own module
        return _const_number(prog, helper, default), f"{u(atom)} [default {params[1]}={u(default)}]"
    if isinstance(atom, ast.Compare) and len(atom.ops) == 1:
        op, left, right = atom.ops[0], atom.left, atom.comparators[0]
        if isinstance(op, (ast.Eq, ast.NotEq)):
            if {repr(te.ev(left)), repr(te.ev(right))} == {power, "0"} and outcome == isinstance(op, ast.Eq):
                return 0.0, u(atom)
            return None
        # abs(power) < eps / eps > abs(power), or the negation of abs(power) > eps
        flip = {ast.Lt: ast.Gt, ast.LtE: ast.GtE, ast.Gt: ast.Lt, ast.GtE: ast.LtE}
        if type(op) not in flip:
            return None
        kind = type(op)
        if not (isinstance(left, ast.Call) and u(left.func) == "abs"):
            left, right, kind = right, left, flip[kind]
        if not (isinstance(left, ast.Call) and u(left.func) == "abs" and len(left.args) == 1
                and te.ev(left.args[0]) == Poly.atom(power)):
            return None
        if outcome != (kind in (ast.Lt, ast.LtE)):
            return None
        return _const_number(prog, fn, right), (u(atom) if outcome else f"not ({u(atom)})")
    return None


def check_l3(run: Run, prog: Program, ledgers: dict[str, Ledgers]) -> None:
    from ._c15_util import bound_args

    from ._c15_util import anchors

    anc = anchors(prog)
    fn = _view_of(prog, anc.get("bda.core"))
    lg = ledgers["_distribute_power"]
    cfg = CFG(fn.node, fn.file)
    te = TermEval()
    dr_fields = _dr_fields(prog)
    request = _float_param(fn, 2)
    pv = Prov(prog, fn, cfg)
    all_rets = [n for n in body_walk(fn.node) if isinstance(n, ast.Return)]
    rets = [n for n in all_rets if _is_dr(n.value)]
    for r in all_rets:
        if r not in rets:
            run.violation("C01.L3", fn.qual, r,
                          "a return path of the allocation routine does not build its DistributionResult "
                          "from the allocation cells and the remainder ledger (e.g. it reuses the "
                          "zero-request result, so set-points + remainder no longer equal the request)",
                          node=r, file=fn.file)
    if not rets:
        raise AnalysisError(f"{fn.qual}: no DistributionResult return found")
    if len(rets) == len(all_rets):
        run.ok("C01.L3", f"{fn.qual}: every return builds a DistributionResult from cells and remainder")
    # the top-up may be a callee (role bda.greedy) or part of this routine (inlined): then its residual
    # is a complement ledger of this routine itself
    greedy_fn, split_fn = anc.roles.get("bda.greedy"), anc.get("bda.split")
    greedy_name, split_name = (greedy_fn.name if greedy_fn is not None else "<top-up inlined>"), split_fn.name
    n_final = 0
    split_has_residual = False
    for r in rets:
        sites = cfg.nodes_of(r)
        if not sites:
            raise AnalysisError(f"{fn.qual}: return site not found in the CFG")
        site = sites[0]
        f = bound_args(r.value, dr_fields, f"{fn.qual}: DistributionResult(...)")  # type: ignore[arg-type]
        if "distribution" not in f or "remaining_power" not in f:
            raise AnalysisError(f"{fn.qual}: DistributionResult(...) without set-points / remainder")
        cells_t = pv.term(site, f["distribution"])
        rem_t = pv.term(site, f["remaining_power"])
        ca = cells_t.as_atom()
        from_split = ca is not None and ca in pv.calls and pv.calls[ca][0] == split_name
        if not from_split:
            # the nothing-available early exit: all zero cells, remainder == request
            ok = _zero_cells(cfg, site, f["distribution"]) and rem_t == Poly.atom(request)
            run.check(ok, "C01.L3", fn.qual, r,
                      "the nothing-available early exit does not return all-zero set-points with the whole "
                      "request as remainder", node=r, file=fn.file,
                      instance=f"{fn.qual}: early exit returns zero set-points and the whole request")
            continue
        n_final += 1
        # returned cells are the split's map (its first / only result)
        run.check(pv.calls[ca][1] in (0, -1), "C01.L3", fn.qual, "distribution=<result of the per-inverter split>",
                  "the returned set-points are not the per-inverter split of the allocated cells",
                  node=r, file=fn.file, instance=f"{fn.qual}: returned set-points are the per-inverter split")
        # the returned remainder is the greedy top-up's residual, started from request - mirror,
        # plus (once) the residual of the per-inverter split -- and nothing else
        atoms = {}
        shape_ok = True
        own: list[str] = []   # complement ledgers of this routine (inlined top-up)
        for mono, coeff in rem_t.terms.items():
            if len(mono) == 1 and mono[0][1] == 1 and coeff == 1 and mono[0][0] in pv.calls:
                atoms[mono[0][0]] = pv.calls[mono[0][0]]
            elif greedy_fn is None and len(mono) == 1 and mono[0][1] == 1 and coeff == 1 \
                    and mono[0][0] in lg.complements:
                own.append(mono[0][0])
                atoms[mono[0][0]] = ("<top-up inlined>", 1, {})
            else:
                shape_ok = False
        g = [a for a, (callee, idx, _args) in atoms.items() if callee == greedy_name and idx == 1]
        sp = [a for a, (callee, idx, _args) in atoms.items() if callee == split_name and idx == 1]
        shape_ok = shape_ok and len(g) == 1 and len(sp) <= 1 and len(atoms) == len(g) + len(sp)
        run.check(shape_ok, "C01.L3", fn.qual, f"remainder = {rem_t!r}",
                  "the reported remainder is not the residual of the greedy top-up (plus the residual of the "
                  "per-inverter split): it is recomputed, dropped or modified by another statement",
                  node=r, file=fn.file,
                  instance=f"{fn.qual}: remainder is the top-up residual plus the split residual, nothing else")
        started = False
        started_with: str | None = None
        if len(g) == 1:
            if greedy_fn is not None:
                gp = method_params_of(greedy_fn)
                arg = atoms[g[0]][2].get(gp[1]) if len(gp) > 1 else None
            else:
                # the ledger's only plain definition is what the top-up starts from
                plain0 = [st for st in body_walk(fn.node) if isinstance(st, (ast.Assign, ast.AnnAssign))
                          and getattr(st, "value", None) is not None and any(u(w) == g[0] for w in _targets(st))
                          and lg.name_update(st) is None]
                s0 = cfg.nodes_of(plain0[0]) if len(plain0) == 1 else []
                arg = pv.term(s0[0], plain0[0].value) if s0 else None  # type: ignore[union-attr]
            started_with = next((m for m in sorted(lg.mirrors)
                                 if arg is not None and arg == Poly.atom(request) - Poly.atom(m)), None)
            started = started_with is not None
        # one ledger: every mirror under which cells were changed is (a copy-ancestor of) the mirror the
        # remainder is computed from -- a ledger continued in a spliced helper must be handed back
        used = None
        if len(g) == 1 and started_with is not None:
            used = started_with
        chain: list[str] = []
        cur = used
        while cur is not None and cur not in chain:
            chain.append(cur)
            plain = [st for st in body_walk(fn.node) if isinstance(st, (ast.Assign, ast.AnnAssign))
                     and getattr(st, "value", None) is not None and any(u(w) == cur for w in _targets(st))
                     and lg.name_update(st) is None]
            cur = None
            if len(plain) == 1:
                site0 = cfg.nodes_of(plain[0])
                a0 = pv.term(site0[0], plain[0].value).as_atom() if site0 else None  # type: ignore[union-attr]
                if a0 in lg.mirrors:
                    cur = a0
        if used is not None:
            stray_mirrors = sorted(m for m in lg.mirrors if m not in chain)
            run.check(not stray_mirrors, "C01.L3", fn.qual, f"every cell change is mirrored in `{used}`",
                      f"allocation cells are changed under the ledger(s) {stray_mirrors} whose value does not flow "
                      f"into `{used}`, the ledger the reported remainder is computed from: that power is lost",
                      node=r, file=fn.file,
                      instance=f"{fn.qual}: all mirrored cell changes flow into the ledger used for the remainder")
        run.check(started, "C01.L3", fn.qual, f"{greedy_name}(<cells>, {request} - <mirror>)",
                  "the remainder handed to the greedy top-up is not defined as request minus the "
                  "distributed-power ledger", node=r, file=fn.file,
                  instance=f"{fn.qual}: top-up starts from request - distributed-power ledger")
        split_has_residual = split_has_residual or bool(sp)
        # does the split return a residual at all?  then it must be part of the remainder
        sfn0 = split_fn
        srets0 = [n for n in body_walk(sfn0.node) if isinstance(n, ast.Return) and n.value is not None]
        returns_pair = bool(srets0) and all(isinstance(x.value, ast.Tuple) and len(x.value.elts) == 2 for x in srets0)
        run.check(bool(sp) == returns_pair, "C01.L3", fn.qual, "remainder += <residual of the per-inverter split>",
                  "the residual of the per-inverter split is not added to the reported remainder",
                  node=r, file=fn.file, instance=f"{fn.qual}: split residual is added to the remainder")
    if n_final == 0 and not run.violations:
        raise AnalysisError(f"{fn.qual}: no return built from the per-inverter split found")
    # the split function's second result is its own residual ledger
    sfn = _view_of(prog, split_fn)
    slg = ledgers["_distribute_multi_inverter_pairs"]
    srets = [n for n in body_walk(sfn.node) if isinstance(n, ast.Return) and n.value is not None]
    if split_has_residual:
        ok = bool(srets) and all(isinstance(r.value, ast.Tuple) and len(r.value.elts) == 2
                                 and isinstance(r.value.elts[1], ast.Name) for r in srets)
        if ok:
            accs = {r.value.elts[1].id for r in srets}  # type: ignore[union-attr]
            ok = len(accs) == 1
        if ok:
            acc = next(iter(accs))
            comp = slg.complements
            writes = [s for s in body_walk(sfn.node) if isinstance(s, (ast.Assign, ast.AugAssign, ast.AnnAssign))
                      and any(u(w) == acc for w in _targets(s))]
            scfg = CFG(sfn.node, sfn.file)
            spv = Prov(prog, sfn, scfg)

            def fed_by_complement(st: ast.stmt) -> bool:
                # `acc += c` / `acc = acc + c` where c is (an alias of) a complement ledger's current value
                nu = slg.name_update(st)
                if nu is None or nu[0] != acc:
                    return False
                if any(nu[1] == Poly.atom(c) for c in comp):
                    return True
                sites = scfg.nodes_of(st)
                if not sites or not isinstance(st, (ast.AugAssign, ast.Assign, ast.AnnAssign)):
                    return False
                val = st.value if isinstance(st, ast.AugAssign) and isinstance(st.op, ast.Add) else None
                if val is None and not isinstance(st, ast.AugAssign):
                    d = spv.term(sites[0], st.value) - Poly.atom(acc)  # type: ignore[arg-type]
                    return any(d == Poly.atom(c) for c in comp)
                return val is not None and any(spv.term(sites[0], val) == Poly.atom(c) for c in comp)

            feeds = [s for s in writes if fed_by_complement(s)]
            inits = [s for s in writes if s not in feeds]
            ok = bool(feeds) and len(inits) == 1 and getattr(inits[0], "value", None) is not None \
                and te.ev(inits[0].value).is_zero()  # type: ignore[union-attr]
        run.check(ok, "C01.L3", sfn.qual, "return <set-points>, <accumulated residual>",
                  "the split's second result is not the accumulated residual of its complement ledger",
                  node=sfn.node, file=sfn.file,
                  instance=f"{sfn.qual}: second result is the accumulated residual of the complement ledger")
    # distribute_power: zero request -> zeros, remainder 0; dispatch by sign (path-wise)
    from ..engine.normalize import inline_helpers
    from ..engine.sympath import sym_paths

    dp = anc.get("bda.public")
    run.analysed(dp.qual)
    consume_name, supply_name = anc.name("bda.consume"), anc.name("bda.supply")
    dnode = inline_helpers(prog, dp, exclude=anc.names)
    dview = FuncInfo(dp.name, dp.module, dnode, dp.cls, dp.outer)
    dparams = method_params_of(dview)
    if len(dparams) != 2:
        raise AnalysisError(f"{dp.qual}: expected (power, components) parameters")
    power, comps = dparams
    paths = sym_paths(dnode)
    zero_paths = [p for p in paths if p.exit == "return" and _is_dr(p.ret)]
    ok = bool(zero_paths)
    wide: list[tuple[Any, str, float | None]] = []
    for p in zero_paths:
        # ... and only on a path where the request was tested to be (close to) zero
        tests = [t for (_k, _ko, atom, _ln, o) in p.conds if (t := _zero_test(prog, dview, atom, o, power)) is not None]
        ok = ok and bool(tests)
        # ... to float tolerance: the answer "set-points 0, remainder 0" satisfies set-points + remainder ==
        # request only for a request that IS zero; the tightest test on the path decides what gets it
        if tests and all(t[0] is None for t in tests):
            raise AnalysisError(f"{dp.qual}: the tolerance of the zero-request test `{tests[0][1]}` is not a "
                                "compile-time constant: which requests get the zero answer cannot be decided")
        if tests:
            tol, text = min(((t[0], t[1]) for t in tests if t[0] is not None), key=lambda t: t[0])
            if tol > FLOAT_TOL_W:
                wide.append((p, text, tol))
        f = bound_args(p.ret, dr_fields, f"{dp.qual}: DistributionResult(...)")  # type: ignore[arg-type]
        cells = f.get("distribution")
        ok = ok and isinstance(cells, ast.DictComp) and te.ev(cells.value).is_zero() \
            and not any(g.ifs for g in cells.generators) and "remaining_power" in f \
            and te.ev(f["remaining_power"]).is_zero()
    run.check(ok, "C01.L3", dp.qual, "zero request -> zero set-points, zero remainder",
              "a zero request does not yield zero set-points and zero remainder", node=dp.node,
              file=dp.file, instance=f"{dp.qual}: zero request -> zero set-points, zero remainder")
    if zero_paths:
        wp, wtext, wtol = wide[0] if wide else (None, "", None)
        run.check(not wide, "C01.L3", dp.qual, f"zero answer only for a request that is zero to float tolerance: `{wtext}`",
                  f"the zero-request answer (every set-point 0, remainder 0) is given whenever `{wtext}` holds, i.e. to "
                  f"every request up to {wtol} W in magnitude -- beyond float tolerance ({FLOAT_TOL_W} W): such a request "
                  "is non-zero, nothing is commanded and nothing is reported as undistributed, so set-points + remainder "
                  "= 0 != request (and the manager reports the request as set).  Excluded alike: a wider tolerance "
                  "argument or named constant, `abs(request) < eps`, a larger default in the close-to-zero helper; a "
                  "request that is to be ignored must come back as remainder",
                  node=dp.node, file=dp.file, path=wp.describe() if wp is not None else None,
                  instance=f"{dp.qual}: the zero answer is given only to requests that are zero to float tolerance")
    ok_c = ok_s = True
    n_c = n_s = 0
    bad = None
    for p in paths:
        if p.exit != "return" or not isinstance(p.ret, ast.Call) or _is_dr(p.ret):
            continue
        callee = p.ret.func.attr if isinstance(p.ret.func, ast.Attribute) and u(p.ret.func.value) == "self" else None
        if callee not in (consume_name, supply_name):
            continue
        cps = method_params_of(prog.func(f"{BDA}.{callee}"))
        a = bound_args(p.ret, cps, f"{dp.qual}: self.{callee}(...)")
        args_ok = len(cps) == 2 and len(a) == 2 and cps[0] in a and cps[1] in a \
            and te.ev(a[cps[0]]) == Poly.atom(power) and u(a[cps[1]]) == comps
        facts = {f for (_k, _ko, atom, _ln, o) in p.conds if (f := _sign_fact(atom, o, power)) is not None}
        # the zero request was answered before: `is_close_to_zero(power)` is false on this path
        nonzero = any(isinstance(atom, ast.Call) and u(atom.func).split(".")[-1] == "is_close_to_zero"
                      and len(atom.args) >= 1 and te.ev(atom.args[0]) == Poly.atom(power) and not o
                      for (_k, _ko, atom, _ln, o) in p.conds)
        if callee == consume_name:
            n_c += 1
            good = args_ok and ("pos" in facts or ("nonneg" in facts and nonzero)) \
                and not facts & {"neg", "nonpos"}
            ok_c = ok_c and good
        else:
            n_s += 1
            good = args_ok and bool(facts & {"neg", "nonpos"}) and "pos" not in facts
            ok_s = ok_s and good
        if not good and bad is None:
            bad = p
    run.check(ok_c and ok_s and n_c > 0 and n_s > 0, "C01.S", dp.qual, "positive -> consume path, negative -> supply path",
              "requests are not dispatched to the consume/supply paths by their sign",
              node=dp.node, file=dp.file, path=bad.describe() if bad is not None else None,
              instance=f"{dp.qual}: positive -> consume path, negative -> supply path")


def method_params_of(fn: FuncInfo) -> list[str]:
    from ._c15_util import method_params

    return method_params(fn)


def _sign_fact(atom: ast.AST, outcome: bool, name: str) -> str | None:
    """What a branch condition says about the sign of `name`: pos | nonpos | neg | nonneg."""
    if not (isinstance(atom, ast.Compare) and len(atom.ops) == 1):
        return None
    te = TermEval()
    left, right = te.ev(atom.left), te.ev(atom.comparators[0])
    op = atom.ops[0]
    if left == Poly.atom(name) and right.is_zero():
        kind = type(op)
    elif right == Poly.atom(name) and left.is_zero():
        kind = {ast.Gt: ast.Lt, ast.Lt: ast.Gt, ast.GtE: ast.LtE, ast.LtE: ast.GtE}.get(type(op))  # type: ignore[assignment]
    else:
        return None
    table = {ast.Gt: ("pos", "nonpos"), ast.GtE: ("nonneg", "neg"), ast.Lt: ("neg", "nonneg"), ast.LtE: ("nonpos", "pos")}
    if kind not in table:
        return None
    return table[kind][0 if outcome else 1]


def _targets(s: ast.stmt) -> list[ast.AST]:
    if isinstance(s, ast.Assign):
        out: list[ast.AST] = []
        for t in s.targets:
            out.extend(t.elts if isinstance(t, ast.Tuple) else [t])
        return out
    if isinstance(s, (ast.AugAssign, ast.AnnAssign)):
        return [s.target]
    return []


# ---------------------------------------------------------------------------------------------
def _new_value(s: ast.AST) -> tuple[str, Poly] | None:
    """(target text, term of the value stored) of an assignment to an attribute / subscript cell:
    `t *= -1`, `t = t * -1`, `t = -t` all give (t, -t)."""
    te = TermEval()
    if isinstance(s, ast.AugAssign) and isinstance(s.target, (ast.Attribute, ast.Subscript)):
        load = ast.parse(u(s.target), mode="eval").body
        return u(s.target), te.ev(ast.BinOp(left=load, op=s.op, right=s.value))
    if isinstance(s, ast.Assign) and len(s.targets) == 1 and isinstance(s.targets[0], (ast.Attribute, ast.Subscript)):
        return u(s.targets[0]), te.ev(s.value)
    return None


def _negated_result(fn: FuncInfo, res: str) -> tuple[bool, bool]:
    cells, rems, c_other, r_other = _negations(fn, res)
    cfg = CFG(fn.node, fn.file)

    def on_every_path(stmts: list[ast.AST]) -> bool:
        # exactly one negating statement, passed by every normal path from the entry to the exit
        if len(stmts) != 1:
            return False
        nodes = cfg.nodes_of(stmts[0])
        return bool(nodes) and cfg.path(cfg.entry, [cfg.exit], avoid=nodes,
                                        edge_ok=lambda a, b, lab: not lab.startswith("exc:")) is None

    return on_every_path(cells) and not c_other, on_every_path(rems) and not r_other


def _negations(fn: FuncInfo, res: str) -> tuple[list[ast.AST], list[ast.AST], int, int]:
    """(every set-point negated exactly once, remainder negated exactly once) for the result object
    bound to local `res`: in-place negation in one unconditional pass over the set-point map, or the
    map rebuilt by one unfiltered comprehension; `res.remaining_power` replaced by its negation."""
    from ._c15_util import loop_binding

    dist, rem = f"{res}.distribution", f"{res}.remaining_power"
    cell_other = rem_other = 0
    cell_negs: list[ast.AST] = []
    rem_negs: list[ast.AST] = []
    in_loops: set[int] = set()
    for s in body_walk(fn.node):
        if isinstance(s, ast.For):
            b = loop_binding(s)
            if b is not None and b[0] == dist:
                _m, k, v = b
                inner = [x for st in s.body for x in ast.walk(st) if isinstance(x, ast.stmt)]
                in_loops |= {id(x) for x in inner}
                nv = _new_value(s.body[0]) if len(s.body) == 1 and not s.orelse else None
                cur = Poly.atom(f"{dist}[{k}]")
                if nv is not None and nv[0] == f"{dist}[{k}]" and (
                        nv[1] == -cur or (v is not None and nv[1] == -Poly.atom(v))):
                    cell_negs.append(s)
                elif any(isinstance(x, (ast.Assign, ast.AugAssign)) and (w := _new_value(x)) is not None
                         and w[0].startswith(dist) for x in inner):
                    cell_other += 1
    for s in body_walk(fn.node):
        if id(s) in in_loops:
            continue
        nv = _new_value(s) if isinstance(s, (ast.Assign, ast.AugAssign)) else None
        if nv is None:
            continue
        if nv[0] == rem:
            if nv[1] == -Poly.atom(rem):
                rem_negs.append(s)
            else:
                rem_other += 1
        elif nv[0] == dist and isinstance(s, ast.Assign) and isinstance(s.value, ast.DictComp):
            c = s.value
            b = loop_binding(c.generators[0]) if len(c.generators) == 1 and not c.generators[0].ifs else None
            if b is not None and b[0] == dist and u(c.key) == b[1] and (
                    (b[2] is not None and TermEval().ev(c.value) == -Poly.atom(b[2]))
                    or TermEval().ev(c.value) == -Poly.atom(f"{dist}[{b[1]}]")):
                cell_negs.append(s)
            else:
                cell_other += 1
        elif nv[0].startswith(dist):
            cell_other += 1
    return cell_negs, rem_negs, cell_other, rem_other


def check_sign(run: Run, prog: Program) -> None:
    from ._c15_util import bound_args

    from ._c15_util import anchors

    anc = anchors(prog)
    core = anc.get("bda.core")
    core_params = method_params_of(core)
    core_power = _float_param(core, 2)
    sp = _view_of(prog, anc.get("bda.supply"))
    run.analysed(sp.qual)
    te = TermEval()
    p = _float_param(sp, 1)
    calls = find_calls(sp.node, lambda c: method_call(c, "self", core.name))
    ok = len(calls) == 1
    if ok:
        a = bound_args(calls[0], core_params, f"{sp.qual}: self._distribute_power(...)")
        ok = core_power in a and te.ev(a[core_power]) == -Poly.atom(p)
    run.check(ok, "C01.S", sp.qual, f"self._distribute_power(components, -{p}, ...)",
              "the supply request is not passed negated into the common allocation routine",
              node=sp.node, file=sp.file, instance=f"{sp.qual}: the request is passed negated into the allocation routine")
    res = None
    for s in body_walk(sp.node):
        if isinstance(s, (ast.Assign, ast.AnnAssign)) and getattr(s, "value", None) is (calls[0] if calls else None):
            t = s.targets[0] if isinstance(s, ast.Assign) and len(s.targets) == 1 else getattr(s, "target", None)
            res = t.id if isinstance(t, ast.Name) else None
    ok_cells = ok_rem = ok_ret = False
    if res:
        ok_cells, ok_rem = _negated_result(sp, res)
        rets = [n for n in body_walk(sp.node) if isinstance(n, ast.Return)]
        rebinds = [s for s in body_walk(sp.node) if isinstance(s, (ast.Assign, ast.AnnAssign, ast.AugAssign))
                   and any(u(w) == res for w in _targets(s))]
        ok_ret = len(rets) >= 1 and all(u(r.value) == res for r in rets) and len(rebinds) == 1
    run.check(ok_cells, "C01.S", sp.qual, "every set-point negated on the way out",
              "not every set-point of the supply result is negated back", node=sp.node, file=sp.file,
              instance=f"{sp.qual}: every set-point negated on the way out")
    run.check(ok_rem, "C01.S", sp.qual, "remainder negated on the way out",
              "the remainder of a supply request is not negated back (wrong sign / double count)",
              node=sp.node, file=sp.file, instance=f"{sp.qual}: remainder negated on the way out")
    run.check(ok_ret, "C01.S", sp.qual, "returns the negated result",
              "the supply path does not return the negated result object", node=sp.node, file=sp.file,
              instance=f"{sp.qual}: returns the negated result")
    cp = _view_of(prog, anc.get("bda.consume"))
    run.analysed(cp.qual)
    cpow = _float_param(cp, 1)
    calls = find_calls(cp.node, lambda c: method_call(c, "self", core.name))
    rets = [n for n in body_walk(cp.node) if isinstance(n, ast.Return)]
    ok = len(calls) == 1 and len(rets) >= 1 and all(r.value is calls[0] for r in rets)
    if ok:
        a = bound_args(calls[0], core_params, f"{cp.qual}: self._distribute_power(...)")
        ok = core_power in a and te.ev(a[core_power]) == Poly.atom(cpow)
    run.check(ok, "C01.S", cp.qual, "consume path passes the request unchanged",
              "the consume path alters the request or the result", node=cp.node, file=cp.file,
              instance=f"{cp.qual}: consume path passes the request unchanged and returns the result as is")
    # supply branch of the bounds is the dual of the consume branch
    ib = anc.get("bda.bounds")
    run.analysed(ib.qual)
    flag = next((x.arg for x in ib.node.args.args + ib.node.args.kwonlyargs
                 if x.annotation is not None and u(x.annotation) == "bool"), None)
    if flag is None:
        raise AnalysisError(f"{ib.qual}: no boolean supply/consume selector parameter")

    def polarity(test: ast.AST) -> bool | None:
        from ..engine.util import canon

        c = canon(test)
        pos = [("truthy", flag), ("is", frozenset((flag, "True"))), ("==", frozenset((flag, "True"))),
               ("isnot", frozenset((flag, "False"))), ("!=", frozenset((flag, "False")))]
        neg = [("not", ("truthy", flag)), ("is", frozenset((flag, "False"))), ("==", frozenset((flag, "False"))),
               ("isnot", frozenset((flag, "True"))), ("!=", frozenset((flag, "True")))]
        return True if c in pos else False if c in neg else None

    # the bound tables written for supply=True and for supply=False, by partial evaluation of the
    # selector: `if supply: A else: B`, `if not supply: B; continue`, per-statement ternaries and any
    # nesting / unswitching of the loops give the same two tables {cell -> value expression}
    def table_for(flag_value: bool) -> dict[str, list[tuple[ast.AST, ast.AST]]]:
        import copy

        from ..engine.normalize import _is_pure as nz_is_pure

        out: dict[str, list[tuple[ast.AST, ast.AST]]] = {}
        env: dict[str, ast.AST] = {}

        class Sel(ast.NodeTransformer):
            """Substitute the locals bound so far and resolve conditional expressions on the selector."""

            def visit_Name(self, node: ast.Name) -> ast.AST:  # noqa: N802
                if isinstance(node.ctx, ast.Load) and node.id in env:
                    return copy.deepcopy(env[node.id])
                return node

            def visit_IfExp(self, node: ast.IfExp) -> ast.AST:  # noqa: N802
                pol = polarity(node.test)
                if pol is not None:
                    return self.visit(node.body if pol == flag_value else node.orelse)
                return self.generic_visit(node)

        def val(e: ast.AST) -> ast.AST:
            return Sel().visit(copy.deepcopy(e))

        def assign(tgt: ast.AST, v: ast.AST, st: ast.AST) -> None:
            if isinstance(tgt, (ast.Tuple, ast.List)) and isinstance(v, (ast.Tuple, ast.List)) and len(tgt.elts) == len(v.elts):
                for t, x in zip(tgt.elts, v.elts):
                    assign(t, x, st)
            elif isinstance(tgt, ast.Name):
                if nz_is_pure(v) and not any(isinstance(x, ast.Await) for x in ast.walk(v)):
                    env[tgt.id] = v   # a pure value (reads, min/max, arithmetic): no fresh container
                else:
                    env.pop(tgt.id, None)
            elif isinstance(tgt, ast.Subscript):
                out.setdefault(u(val(tgt)), []).append((v, st))

        def block(stmts: list[ast.stmt]) -> bool:
            """False when the suite is left early (continue / break / return / raise)."""
            for st in stmts:
                if isinstance(st, (ast.Continue, ast.Break, ast.Return, ast.Raise)):
                    return False
                if isinstance(st, ast.If):
                    pol = polarity(st.test)
                    if pol is not None:
                        if not block(st.body if pol == flag_value else st.orelse):
                            return False
                        continue
                    a, b = block(st.body), block(st.orelse)
                    if not a and not b:
                        return False
                    continue
                if isinstance(st, (ast.For, ast.While)):
                    block(st.body)   # leaving the inner loop body early does not leave this suite
                    continue
                if isinstance(st, (ast.With, ast.Try)):
                    if not block(st.body):
                        return False
                    continue
                if isinstance(st, ast.Assign) and len(st.targets) == 1:
                    assign(st.targets[0], val(st.value), st)
                elif isinstance(st, ast.AnnAssign) and st.value is not None:
                    assign(st.target, val(st.value), st)
            return True

        block(ibv.node.body)
        return out

    ibv = _view_of(prog, ib)
    sup_t, con_t = table_for(True), table_for(False)
    run.check(set(sup_t) == set(con_t) and all(len(v) == 1 for v in list(sup_t.values()) + list(con_t.values())),
              "C01.S", ib.qual, "supply and consume write the same bound cells, once each",
              "supply and consume branches assign different bound tables", node=ib.node, file=ib.file,
              instance=f"{ib.qual}: supply and consume assign the same bound tables")
    pairs = 0
    for k in sorted(set(sup_t) & set(con_t)):
        (sv, node), cv = sup_t[k][0], con_t[k][0][0]
        if u(sv) == u(cv):
            continue  # a cell that is not selected by the flag at all
        pairs += 1
        sides = (_leaves(bound_form(sv)), _leaves(bound_form(cv)))
        oriented = all(sign == "neg" and "lower" in txt for sign, txt in sides[0]) \
            and all(sign == "pos" and "upper" in txt for sign, txt in sides[1])
        run.check(oriented, "C01.S", ib.qual, f"{k}: supply uses -<lower bounds>, consume <upper bounds>",
                  f"the arm taken for supply requests does not bound `{k}` by the negated lower bounds (or the "
                  "consume arm not by the upper bounds): the two directions are exchanged",
                  node=node, file=ib.file, instance=f"{ib.qual}: {k} supply arm uses negated lower bounds")
        run.check(dual_form(sv) == bound_form(cv), "C01.S", ib.qual,
                  f"{k} = {u(sv)}",
                  f"the supply bound `{k} = {u(sv)}` is not the mirror image "
                  f"(upper<->lower, min<->max, negated) of the consume bound `{u(cv)}`",
                  node=node, file=ib.file,
                  instance=f"{ib.qual}: {k} supply is the dual of consume")
    if pairs < 4:
        raise AnalysisError(f"{ib.qual}: only {pairs} supply/consume bound pairs found")


def bound_form(e: ast.AST, neg: bool = False) -> Any:
    """Normal form of a bound expression with negation pushed to the leaves:
    -max(a, b) == min(-a, -b); min/max are commutative; `-1 * x`, `x * -1`, `-x` coincide."""
    if isinstance(e, ast.UnaryOp) and isinstance(e.op, ast.USub):
        return bound_form(e.operand, not neg)
    if isinstance(e, ast.UnaryOp) and isinstance(e.op, ast.UAdd):
        return bound_form(e.operand, neg)
    if isinstance(e, ast.BinOp) and isinstance(e.op, ast.Mult):
        for a, b in ((e.left, e.right), (e.right, e.left)):
            c = TermEval().ev(a).const_value()
            if c is not None and c in (1, -1):
                return bound_form(b, neg != (c == -1))
    if isinstance(e, ast.Call) and isinstance(e.func, ast.Name) and e.func.id in ("min", "max") \
            and len(e.args) >= 2 and not e.keywords:
        name = e.func.id
        if neg:
            name = "min" if name == "max" else "max"
        return (name, frozenset(bound_form(a, neg) for a in e.args))
    return ("neg" if neg else "pos", u(e))


def _leaves(f: Any) -> list[tuple[str, str]]:
    if f[0] in ("min", "max"):
        return [x for k in f[1] for x in _leaves(k)]
    return [f]


def dual_form(e: ast.AST) -> Any:
    """Image of a supply-side bound under the sign mirror x -> -x: every negated lower bound becomes
    the corresponding positive upper bound (and vice versa); the min/max structure is preserved."""
    def swap(t: str) -> str:
        return t.replace("_lower", "_UPPER").replace("_upper", "_lower").replace("_UPPER", "_upper")

    def walk(f: Any) -> Any:
        if f[0] in ("min", "max"):
            return (f[0], frozenset(walk(x) for x in f[1]))
        return ("pos" if f[0] == "neg" else "neg", swap(f[1]))

    return walk(bound_form(e))


def dual(e: ast.AST) -> str | None:
    """(kept for importers) textual dual of a supply-side bound `-X`."""
    if not (isinstance(e, ast.UnaryOp) and isinstance(e.op, ast.USub)):
        return None
    t = u(e.operand).replace(" ", "")
    t = t.replace("_lower", "_UPPER").replace("_upper", "_lower").replace("_UPPER", "_upper")
    t = re.sub(r"\bmax\(", "MIN(", t)
    t = re.sub(r"\bmin\(", "max(", t).replace("MIN(", "min(")
    return t


# ---------------------------------------------------------------------------------------------
def check_b(run: Run, prog: Program) -> None:
    """Reported == commanded.  Roles are bound by dataflow on the normalised functions (simple private
    helpers spliced in, single-assignment locals substituted): the request / distribution are the
    parameters typed `Request` / `DistributionResult`; call arguments are matched to the callee's
    parameter names (keyword == positional); the reported power is what actually flows into the
    Success / PartialFailure fields."""
    from ..engine.terms import flow_eval
    from ._c15_util import (
        all_ctors, bound_args, ctor_kind, match_send, method_params, plain_def_value, result_fields, typed_param,
    )
    from ..engine.util import reaching_defs

    from ._c15_util import anchors

    anc = anchors(prog)

    def norm(role: str) -> FuncInfo:
        return _view_of(prog, anc.get(role))

    def typed(f: FuncInfo, tname: str, default: str) -> str:
        p = typed_param(f, tname, default)
        if p is None:
            raise AnalysisError(f"{f.qual}: no `{tname}` parameter")
        return p

    fn = norm("bm.dist")
    run.analysed(fn.qual)
    te = TermEval()
    req, dist = typed(fn, "Request", "request"), typed(fn, "DistributionResult", "distribution")
    cfg = CFG(fn.node, fn.file)
    want = Poly.atom(f"{req}.power") - Poly.atom(f"{dist}.remaining_power")
    ctors = all_ctors(fn.node)
    if not any(ctor_kind(c) == "Success" for c in ctors):
        raise AnalysisError(f"{fn.qual}: no Success result is built")
    ok = True
    for c in ctors:
        kind = ctor_kind(c)
        f = bound_args(c, result_fields(prog, kind), f"{fn.qual}: {kind}(...)")
        sites = cfg.node_containing(c)
        if not sites or "succeeded_power" not in f or (kind == "PartialFailure" and "failed_power" not in f):
            raise AnalysisError(f"{fn.qual}: {kind}(...) site / power fields not found")
        reported = flow_eval(cfg, sites[0], f["succeeded_power"])
        if kind == "PartialFailure":
            reported = reported + flow_eval(cfg, sites[0], f["failed_power"])
        ok = ok and reported == want
    run.check(ok, "C01.B", fn.qual, "reported set power = request.power - distribution.remaining_power",
              "the power reported as set is not the request minus the algorithm's remainder",
              node=fn.node, file=fn.file,
              instance=f"{fn.qual}: reported set power == request.power - remainder of the algorithm")
    sd0 = anc.get("bm.send")
    calls = find_calls(fn.node, lambda c: method_call(c, "self", sd0.name))
    ok = len(calls) == 1
    if sd0.qual == fn.qual:
        ok = True     # the sending routine is part of this function: it works on the parameter itself
    elif ok:
        args = bound_args(calls[0], method_params(sd0), f"{fn.qual}: self.{sd0.name}(...)")
        ok = u(args.get(typed(sd0, "DistributionResult", "distribution"))) == dist
    run.check(ok, "C01.B", fn.qual, f"self.{sd0.name}(<the computed distribution>, ...)",
              "the distribution handed to the API layer is not the one that was computed",
              node=fn.node, file=fn.file,
              instance=f"{fn.qual}: the computed distribution is handed to the sending routine")
    gp = norm("bm.gpd")
    run.analysed(gp.qual)
    gp_req = typed(gp, "Request", "request")
    calls = find_calls(gp.node, lambda c: method_call(c, "self._distribution_algorithm", "distribute_power"))
    ok = len(calls) == 1
    if ok:
        args = bound_args(calls[0], method_params(anc.get("bda.public")),
                          f"{gp.qual}: distribute_power(...)")
        ok = len(args) == 2 and "power" in args and te.ev(args["power"]) == Poly.atom(f"{gp_req}.power")
    run.check(ok, "C01.B", gp.qual, "distribute_power(request.power.as_watts(), pairs)",
              "the manager does not hand the requested power unchanged to the distribution algorithm",
              node=gp.node, file=gp.file,
              instance=f"{gp.qual}: the requested power is handed unchanged to the algorithm")
    # the algorithm's result is returned as it is: every return yields the call's value (directly or
    # through the one local it is bound to) and nothing is stored into that object
    gcfg = CFG(gp.node, gp.file)
    res_names = set()
    for s2 in body_walk(gp.node):
        if isinstance(s2, ast.Assign) and calls and s2.value is calls[0] and len(s2.targets) == 1 \
                and isinstance(s2.targets[0], ast.Name):
            res_names.add(s2.targets[0].id)
        elif isinstance(s2, ast.AnnAssign) and calls and s2.value is calls[0] and isinstance(s2.target, ast.Name):
            res_names.add(s2.target.id)
    rets = [r for r in body_walk(gp.node) if isinstance(r, ast.Return)]
    tampered = [s2 for s2 in body_walk(gp.node) if isinstance(s2, (ast.Assign, ast.AugAssign, ast.AnnAssign)) and any(
        any(u(t).startswith(f"{rn}.") or u(t).startswith(f"{rn}[") for rn in res_names)
        for t in (s2.targets if isinstance(s2, ast.Assign) else [s2.target]))]

    def returns_call(r: ast.Return) -> bool:
        if calls and r.value is calls[0]:
            return True
        if isinstance(r.value, ast.Name) and r.value.id in res_names:
            sites = gcfg.nodes_of(r)
            return bool(sites) and all(
                len(d := reaching_defs(gcfg, x, r.value.id)) == 1
                and plain_def_value(gcfg, d[0], r.value.id) is calls[0] for x in sites)
        return False

    ok = len(calls) == 1 and len(rets) >= 1 and all(returns_call(r) for r in rets) and not tampered
    run.check(ok, "C01.B", gp.qual, "the algorithm's result is returned untouched",
              "the manager rewrites the algorithm's set-points or remainder after the fact: what is "
              "reported as succeeded/excess no longer matches what is commanded", node=(tampered or [gp.node])[0],
              file=gp.file, instance=f"{gp.qual}: the algorithm's result is returned untouched")
    gd = norm("bm.gd")
    run.analysed(gd.qual)
    gd_req = typed(gd, "Request", "request")
    gp0 = anc.get("bm.gpd")
    dcalls = find_calls(gd.node, lambda c: method_call(c, "self", gp0.name))
    ok = len(dcalls) == 1
    if ok:
        args = bound_args(dcalls[0], method_params(gp0), f"{gd.qual}: self.{gp0.name}(...)")
        ok = u(args.get(typed(gp0, "Request", "request"))) == gd_req
    run.check(ok, "C01.B", gd.qual, f"{gp0.name}(request, ...)",
              "the distribution is computed for a different request", node=gd.node, file=gd.file,
              instance=f"{gd.qual}: the distribution is computed for the processed request")
    # what is subtracted from the reported set power as "failed" covers every call booked as failed:
    # in the result loop of _parse_result the failed set and the failed power are updated together
    # (roles bound by dataflow from PartialFailure back through _set_distributed_power, see C15)
    from ._c15_util import guarded_by_emptiness
    from .c15 import BatteryRoles, check_fail

    roles = BatteryRoles(prog)
    pr = roles.pr
    run.analysed(pr.qual)
    scratch = Run("C15", run.tier, run.seed)
    for rule, node, msg in roles.issues:
        scratch.violation(rule, roles.dp.qual, node, msg, node=node, file=roles.dp.file)
    check_fail(scratch, prog, roles, battery_only=True)
    bad = scratch.violations
    run.check(not bad, "C01.B", pr.qual, "failed power == sum of the set-points of the calls booked as failed",
              "the failed power subtracted from the reported set power is not exactly the set-points of the calls "
              "that failed, so the power reported as set is not the power the hardware accepted"
              + (f": [{bad[0].rule}] {bad[0].construct}: {bad[0].message}" if bad else ""),
              node=pr.node, file=pr.file, path=bad[0].path if bad else None,
              instance=f"{pr.qual}: failed power is exactly the set-points of the failed calls")
    # Success (no failed power subtracted) is reported only when nothing failed
    ok = True
    n_success = 0
    writes = [n.id for n in roles.dp_cfg.nodes if n.ast is not None and n.kind in ("stmt", "for", "with")
              and any(u(w) == roles.failed_set for w in node_writes(roles.dp_cfg, n.id))]
    for c in all_ctors(roles.dp.node):
        if ctor_kind(c) != "Success":
            continue
        n_success += 1
        sites = roles.dp_cfg.node_containing(c)
        ok = ok and bool(sites) and len(writes) == 1 and guarded_by_emptiness(
            roles.dp_cfg, sites[0], c, roles.failed_set, want_nonempty=False)
    run.check(ok and n_success > 0, "C01.B", roles.dp.qual, "Success only when no call failed",
              "the whole distributed power can be reported as set although some set_power calls failed",
              node=roles.dp.node, file=roles.dp.file,
              instance=f"{roles.dp.qual}: Success is reported only when the failed set is empty")
    sd = norm("bm.send")
    run.analysed(sd.qual)
    sd_dist = typed(sd, "DistributionResult", "distribution")
    sp = find_calls(sd.node, lambda c: isinstance(c.func, ast.Attribute) and c.func.attr == "set_power")
    ok = False
    if len(sp) == 1:
        send = match_send(sd.node, sp[0])
        ok = send["ok"] and send["map"] == f"{sd_dist}.distribution"
    run.check(ok, "C01.B", sd.qual, "api.set_power(inverter_id, power) for every item of the distribution",
              "the set-points commanded to the API are filtered or transformed relative to the "
              "computed distribution (reported != commanded)", node=sd.node, file=sd.file,
              instance=f"{sd.qual}: set_power(id, power) for every item of the distribution")
    _check_wait_all(run, prog, anc.get("bm.send"), sd)


WAIT_MODES = ("ALL_COMPLETED", "FIRST_COMPLETED", "FIRST_EXCEPTION")


def _wait_mode(prog: Program, fn: FuncInfo, e: ast.AST | None, depth: int = 0) -> set[str]:
    """The `return_when` modes an expression can denote ('?' for anything that is not one of asyncio's
    three constants): default, `asyncio.X` / imported `X` / alias module, the constants' string values,
    a module-level or class-level alias, either arm of a conditional expression."""
    from ..engine.resolver import dotted

    if e is None:
        return {"ALL_COMPLETED"}
    if isinstance(e, ast.Constant):
        return {e.value} if e.value in WAIT_MODES else {"?"}
    if isinstance(e, ast.IfExp):
        return _wait_mode(prog, fn, e.body, depth + 1) | _wait_mode(prog, fn, e.orelse, depth + 1)
    name = dotted(e)
    if name is None or depth > 4:
        return {"?"}
    ext = prog.external_name(fn.module, name)
    if ext.split(".")[-1] in WAIT_MODES and ext.split(".")[0] in ("asyncio", "concurrent"):
        return {ext.split(".")[-1]}
    head, _, tail = name.partition(".")
    if not tail and head in fn.module.assigns:
        return _wait_mode(prog, fn, fn.module.assigns[head], depth + 1)
    if tail and "." not in tail:
        cls = fn.cls if head in ("self", "cls") else fn.module.classes.get(head)
        for k in (prog.mro(cls) if cls is not None else []):
            if tail in k.class_assigns:
                return _wait_mode(prog, FuncInfo(fn.name, k.module, fn.node, k), k.class_assigns[tail], depth + 1)
    return {"?"}


def _check_wait_all(run: Run, prog: Program, sd0: FuncInfo, sd: FuncInfo) -> None:
    """Every set_power call gets the whole request timeout before it is written off.

    What the sending routine leaves pending after its wait is cancelled and booked as failed power (C15 decides
    the cancel / book pairing).  A set-point whose call is merely still in flight has been received by the
    hardware; it may only be written off when the request timeout has run out.  So the wait over the tasks must
    end only when all of them are done or the timeout expires: `return_when` is ALL_COMPLETED (asyncio's
    default), never FIRST_EXCEPTION / FIRST_COMPLETED -- with these one early failure (or success) of one
    inverter turns every other, accepted set-point into "failed" power and the reported set power is no longer
    the power commanded.  The wait is looked for in the sending routine (helpers spliced in) and, failing that,
    in the private methods it awaits."""
    from ..engine.resolver import dotted

    def waits_in(f: FuncInfo) -> list[tuple[FuncInfo, ast.Call]]:
        return [(f, c) for c in walk_no_nested(f.node) if isinstance(c, ast.Call) and (d := dotted(c.func)) is not None
                and prog.external_name(f.module, d) == "asyncio.wait"]

    found = waits_in(sd)
    if not found and sd0.cls is not None:
        seen: set[str] = set()
        for c in walk_no_nested(sd.node):
            if isinstance(c, ast.Call) and isinstance(c.func, ast.Attribute) and u(c.func.value) in ("self", "cls"):
                callee = prog.resolve_method(sd0.cls, c.func.attr)
                if callee is not None and callee.qual not in seen:
                    seen.add(callee.qual)
                    found += waits_in(callee)
    if not found:
        raise AnalysisError(f"{sd0.qual}: no `asyncio.wait` over the set_power tasks found: how long a call may "
                            "run before it is cancelled and booked as failed cannot be read")
    for f, w in found:
        rw = next((k.value for k in w.keywords if k.arg == "return_when"), None)
        if any(k.arg is None for k in w.keywords):
            raise AnalysisError(f"{f.qual}: asyncio.wait(**...) cannot be read")
        modes = _wait_mode(prog, f, rw)
        early = sorted(modes & {"FIRST_COMPLETED", "FIRST_EXCEPTION"})
        if not early and "?" in modes:
            raise AnalysisError(f"{f.qual}: `return_when={u(rw)}` of the wait over the set_power tasks is not one of "
                                "asyncio's constants")
        run.check(not early, "C01.B", f.qual, f"await {first_text(w)}",
                  f"the wait over the set_power tasks returns early (return_when={'/'.join(early)}): as soon as one "
                  "call has " + ("raised" if early == ["FIRST_EXCEPTION"] else "finished") + ", every call still in "
                  "flight is left pending, cancelled and booked as failed power / failed batteries although the "
                  "hardware has received (and may have applied) its set-point and the request timeout has not run "
                  "out: the power reported as set is less than the power commanded.  Only ALL_COMPLETED (the "
                  "default) lets a call be written off for the one admissible reason, the timeout; FIRST_COMPLETED, "
                  "FIRST_EXCEPTION or an alias / conditional choice of them are excluded alike",
                  node=w, file=f.file,
                  instance=f"{f.qual}: the wait over the set_power tasks ends only when all are done or the "
                           "request timeout expires")


def check_reserve_sign(run: Run, prog: Program) -> None:
    """C01.SGN -- "every set-point has the sign of the request or is zero".

    A group's set-point is its minimum power plus its entry of the reserve table (handed to the cell, and booked,
    by the loop L1 pairs).  The entry is created non-negative (C02.RES: within [0, cap - min_power]); deficit covering
    then takes from it.  A necessary condition of the sign clause is that no store of the covering makes an entry
    negative: the entry becomes zero, or changes by an amount d for which the same pass through the covering loop
    established `-d <= entry` against the entry's CURRENT value -- the value of this very item as read from the table
    in this pass.  A donor value read before the table was last changed (a donor list sorted once before the loop
    over the deficits, a maximum looked up outside the covering loop, a copy of the table consulted while the table
    itself is reduced) is stale once an earlier deficit has consumed part of it: the guard then licenses a reduction
    the entry no longer covers, the entry goes negative and the hand-out loop adds the negative reserve to the
    donor's cell.  With min power 0 (no exclusion bound) the donor is commanded against the sign of the request; the
    ledger follows the cell, so the sum identity (L1 / L3) still holds and only this clause sees it.

    The decision is the per-path term comparison of C02.BOOK's deficit-covering clause (symbolic paths of the loop
    body, item snapshots `C(*max(T.items()))` / `k, v = max(T.items())` normalised to the entry they denote), run
    on a scratch report; each store into the reserve table during the covering is one instance here."""
    from ._c02_util import at
    from .c02 import check_book

    facts: list[dict[str, Any]] = []
    scratch = Run("C02", run.tier, run.seed)
    try:
        check_book(scratch, prog, facts)
    except AnalysisError as exc:
        if run.violations:
            run.note(f"C01.SGN not decided on this tree (already reported as violating): {exc}")
            return
        raise AnalysisError(f"C01.SGN: the deficit covering cannot be read: {exc}") from exc
    if not facts:
        if run.violations:
            return
        why = f": [{scratch.violations[0].rule}] {scratch.violations[0].message[:200]}" if scratch.violations else ""
        raise AnalysisError("C01.SGN: no store into the reserve table during deficit covering was found" + why)
    for f in facts:
        fn: FuncInfo = f["function"]
        cmp_ = ", ".join(f"`{x}`" for x in f["compared"]) or "nothing"
        run.check(f["ok"], "C01.SGN", fn.qual, f"{f['store']} (deficit covering)",
                  f"`{f['store']}` changes the entry `{f['entry']}` of the reserve table `{f['table']}` by `{f['change']}`, and "
                  f"this pass through the covering loop compared that amount with {cmp_} -- not with the entry's current "
                  "value (the item as read from the table in this very pass).  A donor value read before the table was "
                  "last changed -- a donor list sorted once before the loop over the deficits, a maximum looked up outside "
                  "the covering loop, a copy of the table -- is stale as soon as an earlier deficit has taken part of it: "
                  "the second deficit is covered from reserve that is already gone, the donor's entry goes negative, and "
                  "the hand-out loop adds that negative reserve to the donor's allocation (and books it, so set-points + "
                  "remainder still equal the request).  A donor without exclusion bound (min power 0) ends with a "
                  "set-point of the opposite sign to the request, e.g. {2: 863.9, 4: 300, 6: -263.9} for +900 W; with a "
                  "multi-inverter donor the negative power leaks into the remainder.  Excluded alike: dropping the "
                  "guard, comparing with another item's value, comparing after the entry was already reduced",
                  node=at(f["lineno"]), file=fn.file, path=f["path"].describe(),
                  instance=f"{fn.qual}: deficit covering line {f['lineno']}: `{f['store']}` keeps the reserve entry non-negative "
                           "(zero, or reduced by an amount compared with the entry's current value)")


def first_text(n: ast.AST, limit: int = 110) -> str:
    t = " ".join(u(n).split())
    return t if len(t) <= limit else t[: limit - 3] + "..."


MOD = "microgrid._power_distributing._distribution_algorithm._battery_distribution_algorithm"
CONTROLS = [
    ("greedy top-up forgets the ledger", MOD,
     "                power.power += additional_power\n                remaining_power -= additional_power\n",
     "                power.power += additional_power\n", "C01.L1"),
    ("top-up with the upper bound instead of the difference", MOD,
     "                power.power += additional_power\n", "                power.power += power.upper_bound\n",
     "C01.L1"),
    ("supply remainder not negated", MOD, "        result.remaining_power *= -1\n", "", "C01.S"),
    ("supply bounds swapped", MOD,
     "                excl_bounds[battery.component_id] = (\n                    -battery.power_bounds.exclusion_lower\n                )",
     "                excl_bounds[battery.component_id] = (\n                    -battery.power_bounds.inclusion_lower\n                )",
     "C01.S"),
    ("zero set-points filtered out of the API map",
     "microgrid._power_distributing._component_managers._battery_manager",
     "for inverter_id, power in distribution.distribution.items()\n        }",
     "for inverter_id, power in distribution.distribution.items()\n            if power != 0.0\n        }",
     "C01.B"),
    ("timed-out call booked in the failed set only",
     "microgrid._power_distributing._component_managers._battery_manager",
     "            failed = True\n            try:\n",
     "            if aws.cancelled():\n                failed_batteries.update(battery_ids)\n                continue\n"
     "            failed = True\n            try:\n", "C01.B"),
    ("Success reported although one call failed",
     "microgrid._power_distributing._component_managers._battery_manager",
     "        if len(failed_batteries) > 0:\n", "        if len(failed_batteries) > 1:\n", "C01.B"),
    ("failed power starts at one watt",
     "microgrid._power_distributing._component_managers._battery_manager",
     "        failed_power: float = 0.0\n", "        failed_power: float = 1.0\n", "C01.B"),
    ("single-inverter set dropped by the split", MOD,
     "                new_distribution[inverter_id] = power.power\n", "                pass\n", "C01.L1"),
    ("set-point created without a ledger", MOD,
     "                        new_distribution[inverter_id] = 0.0\n",
     "                        new_distribution[inverter_id] = 1.0\n", "C01.L1"),
    ("mirror ledger starts at one watt", MOD,
     "        distributed_power: float = 0.0\n", "        distributed_power: float = 1.0\n", "C01.L1"),
    ("supply and consume bound arms exchanged", MOD,
     "            if supply:\n                excl_bounds[battery.component_id] = (",
     "            if not supply:\n                excl_bounds[battery.component_id] = (", "C01.S"),
    ("zero answer given to non-zero requests", MOD,
     "        if is_close_to_zero(power):\n            return DistributionResult(",
     "        if not is_close_to_zero(power):\n            return DistributionResult(", "C01.L3"),
    ("mirror ledger bumped without a cell", MOD,
     "            distributed_power += excess\n", "            distributed_power += excess\n            distributed_power += 0.1\n",
     "C01.L1"),
    ("zero answer widened to sub-watt requests", MOD,
     "        if is_close_to_zero(power):\n            return DistributionResult(",
     "        if is_close_to_zero(power, abs_tol=0.5):\n            return DistributionResult(", "C01.L3"),
    ("zero answer for |request| below a threshold", MOD,
     "        if is_close_to_zero(power):\n            return DistributionResult(",
     "        if is_close_to_zero(power) or abs(power) < 0.01:\n            return DistributionResult(", "C01.L3"),
    ("set_power wait ends at the first failed call",
     "microgrid._power_distributing._component_managers._battery_manager",
     "return_when=asyncio.ALL_COMPLETED", "return_when=asyncio.FIRST_EXCEPTION", "C01.B"),
    ("largest donor looked up once per deficit, not once per take", MOD,
     "            while not is_close_to_zero(deficit) and deficit < 0.0:\n                if not excess_reserved:\n"
     "                    break\n                largest = _Allocation(\n"
     "                    *max(excess_reserved.items(), key=lambda item: item[1])\n                )\n",
     "            if not excess_reserved:\n                break\n            largest = _Allocation(\n"
     "                *max(excess_reserved.items(), key=lambda item: item[1])\n            )\n"
     "            while not is_close_to_zero(deficit) and deficit < 0.0:\n", "C01.SGN"),
    ("donor reduced without comparing the deficit with its reserve", MOD,
     "                if largest.power >= -deficit or math.isclose(largest.power, -deficit):\n",
     "                if largest.power >= 0.0 or math.isclose(largest.power, -deficit):\n", "C01.SGN"),
    ("set_power wait ends at the first finished call",
     "microgrid._power_distributing._component_managers._battery_manager",
     "            return_when=asyncio.ALL_COMPLETED,\n", "            return_when=\"FIRST_COMPLETED\",\n", "C01.B"),
    ("battery groups de-duplicated against the previous entry only",
     "microgrid._power_distributing._component_managers._battery_manager",
     "        battery_sets: frozenset[frozenset[int]] = frozenset(\n"
     "            self._bat_bats_map[working_battery] for working_battery in working_batteries\n        )\n",
     "        battery_sets: list[frozenset[int]] = []\n"
     "        for working_battery in sorted(working_batteries):\n"
     "            battery_set = self._bat_bats_map[working_battery]\n"
     "            if not battery_sets or battery_sets[-1] != battery_set:\n"
     "                battery_sets.append(battery_set)\n", "C01.GRP"),
    ("battery groups collected once per battery", "microgrid._power_distributing._component_managers._battery_manager",
     "        battery_sets: frozenset[frozenset[int]] = frozenset(\n"
     "            self._bat_bats_map[working_battery] for working_battery in working_batteries\n        )\n",
     "        battery_sets = [\n"
     "            self._bat_bats_map[working_battery] for working_battery in working_batteries\n        ]\n", "C01.GRP"),
]


def run_rules(run: Run, prog: Program) -> None:
    ledgers = check_l1(run, prog)
    check_l2(run, prog, ledgers)
    check_l3(run, prog, ledgers)
    check_sign(run, prog)
    check_b(run, prog)
    check_reserve_sign(run, prog)
    from ._c01_util import check_groups

    check_groups(run, prog)


def check(run: Run, prog: Program, tier: str) -> str:
    run.rule("C01.L1", "per statement suite: Δ(allocation cells) == Δ(mirror ledger) == -Δ(complement "
             "ledger) as polynomial normal forms; no ledger changes alone")
    run.rule("C01.L2", "a complement ledger decremented in a loop is read after the loop (no dead residual)")
    run.rule("C01.L3", "the returned remainder is request - mirror, threaded through top-up and split; "
             "early exits return zeros with the whole request / zero as remainder; the zero answer only "
             "for requests that are zero to float tolerance")
    run.rule("C01.S", "supply path: request negated in, every cell and the remainder negated out; "
             "supply bounds are the dual of the consume bounds")
    run.rule("C01.SGN", "deficit covering never makes a reserve entry negative: an entry becomes zero or is reduced by an "
             "amount the same pass compared with the entry's current value (no stale donor snapshot), so no set-point "
             "falls below its minimum power / gets the opposite sign")
    run.rule("C01.GRP", "the list of component groups handed to the distribution algorithm holds each battery group at "
             "most once: it is collected in a set / dict, or every addition is dominated by a membership test over "
             "everything collected so far (the algorithm keys its cells by inverter set but books once per entry)")
    run.rule("C01.B", "reported distributed power == request - remainder; API map == distribution; the wait "
             "over the set_power tasks is ALL_COMPLETED-or-timeout")
    run_rules(run, prog)
    run.floor("C01.L1", 6)
    run.floor("C01.L2", 2)
    run.floor("C01.L3", 7)
    run.floor("C01.S", 9)
    run.floor("C01.B", 7)
    run.floor("C01.SGN", 2)
    run.floor("C01.GRP", 2)
    from ..engine.controls import run_controls

    run_controls(run, CONTROLS, run_rules, tier)
    run.undecided("that proportional shares, min-power reservations and deficit covering keep "
                  "Σcells <= request, the sign of each set-point beyond the non-negativity of the reserve "
                  "entries (C01.SGN) and |remainder| <= |request| "
                  "(numeric content; needs relational invariants over dict-indexed cells)")
    run.assume("the ledger invariant mirror = Σcells ∧ complement = request - Σcells is preserved "
               "by every statement iff L1 holds per suite (algebraic oracle)")
    return ("Ledger-discipline analysis: allocation cells and the mirror/complement ledgers are "
            "discovered from the dataflow of the three allocation functions; every statement suite "
            "is checked for paired updates with polynomial normal forms; residual liveness via the "
            "CFG; remainder provenance, sign mirroring and reported==commanded as term/shape rules. "
            "Decides the bookkeeping structure, not the numeric shares.")
