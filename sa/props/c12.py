"""C12  Generated microgrid power formulas balance for every topology — structure only.

The balance identity over all component graphs is a graph-algorithm correctness statement that this
family cannot decide.  Decided necessary conditions (DESIGN.md §2 C12):
  C12.PART  the three sibling predicates that separate consumers from the rest exclude the same set
            of chain kinds, which equals all is_*_chain predicates of the graph and the producer
            kinds plus the two pool-backed kinds.
  C12.METER the four is_*_meter predicates have the same conjunct set up to their leaf predicate;
            each *_chain is leaf-or-meter of its own kind; primary/fallback pairing and the meter
            fallback use the four leaf predicates, each in its own `all`.
  C12.DFS   dfs stops at the first match, marks visited before testing, recurses over all successors.
  C12.EMIT  every sum-emitting loop pushes one metric per term and an operator before every term but
            the first (`-` for every subtracted term); nones_are_zeros is `category != METER` or the
            constant that has for the loop's component kind; grid power takes every grid successor of
            the three admissible categories.
"""
from __future__ import annotations

import ast
from typing import Any

from ..engine.cfg import CFG
from ..engine.report import AnalysisError, Run
from ..engine.resolver import FuncInfo, Program, body_walk, walk_no_nested
from ..engine.util import canon, find_calls, method_call, nodes_with_call, u

CG = "microgrid.component_graph:_MicrogridComponentGraph"
GEN = "timeseries.formula_engine._formula_generators"
KINDS = {"pv": "is_pv_inverter", "battery": "is_battery_inverter", "ev_charger": "is_ev_charger", "chp": "is_chp"}
PRODUCER_KINDS = {"pv", "chp"}
POOL_KINDS = {"battery", "ev_charger"}  # generators take component ids from their pools (frozen table)


def chain_calls(node: ast.AST) -> set[str]:
    return {c.func.attr for c in ast.walk(node) if isinstance(c, ast.Call) and isinstance(c.func, ast.Attribute)
            and c.func.attr.startswith("is_") and c.func.attr.endswith("_chain")}


def check_part(run: Run, prog: Program) -> None:
    cg = prog.cls(CG)
    all_chains = {m for m in cg.methods if m.startswith("is_") and m.endswith("_chain")}
    want = {f"is_{k}_chain" for k in KINDS}
    run.check(all_chains == want, "C12.PART", cg.qual, f"chain predicates {sorted(all_chains)}",
              f"the component graph defines chain kinds {sorted(all_chains)}, the formula generators know "
              f"{sorted(want)}", node=cg.node, file=cg.module.rel)
    cons = prog.cls(f"{GEN}._consumer_power_formula:ConsumerPowerFormula")
    sites: dict[str, tuple[FuncInfo, ast.AST]] = {}
    agm = cons.methods["_are_grid_meters"]
    sites["_are_grid_meters"] = (agm, agm.node)
    for holder, inner in (("_gen_with_grid_meter", "non_consumer_component"), ("_gen_without_grid_meter", "consumer_component")):
        h = cons.methods[holder]
        nf = prog.nested(h, inner)
        sites[inner] = (h, nf.node)
    for name, (fn, node) in sites.items():
        run.analysed(fn.qual)
        got = chain_calls(node)
        run.check(got == want, "C12.PART", fn.qual, f"{name} excludes {sorted(got)}",
                  f"`{name}` separates consumers from {sorted(got)} but the other sibling predicates (and the "
                  f"graph) use {sorted(want)}: the two consumer-formula variants, or consumer vs the device "
                  "formulas, would classify some component differently and the balance breaks",
                  node=node, file=fn.file, instance=f"{name} excludes all chain kinds")
    # shape of each sibling
    rets = [r for r in body_walk(agm.node) if isinstance(r, ast.Return)]
    ok = len(rets) == 1 and isinstance(rets[0].value, ast.Call) and u(rets[0].value.func) == "all"
    if ok:
        ge = rets[0].value.args[0]
        c = canon(ge.elt)
        want_c = ("and", frozenset({("==", frozenset({"successor.category", "ComponentCategory.METER"}))}
                                  | {("not", ("truthy", f"component_graph.{k}(successor)")) for k in want}))
        ok = c == want_c and not ge.generators[0].ifs and u(ge.generators[0].iter) == agm.params[1]
    run.check(ok, "C12.PART", agm.qual, "all(successor is a METER and in no device chain)",
              "`_are_grid_meters` is not `every grid successor is a meter outside every device chain` (e.g. "
              "is_grid_meter() means *the only* grid successor, so two mixed grid meters would take the "
              "no-grid-meter path and consumer power would be the plain sum of the grid meters)",
              node=agm.node, file=agm.file)
    ncc = sites["non_consumer_component"][1]
    r = [x for x in walk_no_nested(ncc) if isinstance(x, ast.Return)]
    ok = len(r) == 1 and canon(r[0].value) == ("or", frozenset(("truthy", f"component_graph.{k}(component)") for k in want))
    run.check(ok, "C12.PART", sites["non_consumer_component"][0].qual, "non_consumer = any device chain",
              "`non_consumer_component` is not the disjunction of all device chains", node=ncc,
              file=sites["non_consumer_component"][0].file)
    cc = sites["consumer_component"][1]
    r = [x for x in walk_no_nested(cc) if isinstance(x, ast.Return)]
    ok = len(r) == 1 and isinstance(canon(r[0].value), tuple) and canon(r[0].value)[0] == "and" and \
        {("not", ("truthy", f"component_graph.{k}(component)")) for k in want} <= set(canon(r[0].value)[1])
    run.check(ok, "C12.PART", sites["consumer_component"][0].qual, "consumer = meter/inverter outside every device chain",
              "`consumer_component` does not exclude every device chain", node=cc, file=sites["consumer_component"][0].file)
    # producer kinds
    prod = prog.func(f"{GEN}._producer_power_formula:ProducerPowerFormula.generate")
    run.analysed(prod.qual)
    dfs_calls = find_calls(prod.node, lambda c: isinstance(c.func, ast.Attribute) and c.func.attr == "dfs")
    got = chain_calls(dfs_calls[0]) if dfs_calls else set()
    run.check(got == {f"is_{k}_chain" for k in PRODUCER_KINDS}, "C12.PART", prod.qual, f"producer kinds {sorted(got)}",
              f"producer power searches {sorted(got)}; with the pool-backed kinds {sorted(POOL_KINDS)} this must "
              f"add up to all chain kinds {sorted(want)}", node=prod.node, file=prod.file)
    run.check({f"is_{k}_chain" for k in PRODUCER_KINDS | POOL_KINDS} == want, "C12.PART", cg.qual,
              "producer kinds + pool-backed kinds = all chain kinds", "frozen kind table out of date",
              node=cg.node, file=cg.module.rel)
    pv = prog.func(f"{GEN}._pv_power_formula:PVPowerFormula.generate")
    run.analysed(pv.qual)
    dfs_calls = find_calls(pv.node, lambda c: isinstance(c.func, ast.Attribute) and c.func.attr == "dfs")
    ok = len(dfs_calls) == 1 and u(dfs_calls[0].args[2]).endswith("is_pv_chain")
    run.check(ok, "C12.PART", pv.qual, "PV power searches is_pv_chain", "PV power does not search the PV chain",
              node=pv.node, file=pv.file)


def conjuncts(fn: FuncInfo) -> tuple[set[Any], str | None]:
    rets = [r for r in body_walk(fn.node) if isinstance(r, ast.Return)]
    if len(rets) != 1:
        return set(), None
    c = canon(rets[0].value)
    if not (isinstance(c, tuple) and c[0] == "and"):
        return set(), None
    leaf = None
    norm = set()
    succ_defs = {u(s.targets[0]): u(s.value) for s in body_walk(fn.node) if isinstance(s, ast.Assign)}
    for k in c[1]:
        if isinstance(k, tuple) and k[0] == "truthy" and k[1].startswith("all("):
            call = ast.parse(k[1], mode="eval").body
            ge = call.args[0]
            it = u(ge.generators[0].iter)
            it = succ_defs.get(it, it)
            pred = ge.elt.func.attr if isinstance(ge.elt, ast.Call) and isinstance(ge.elt.func, ast.Attribute) else "?"
            leaf = pred
            norm.add(("all-successors", it.replace(" ", ""), "LEAF" if not ge.generators[0].ifs else "filtered"))
        elif isinstance(k, tuple) and k[0] == "<" and k[1] == "0" and k[2].startswith("len("):
            inner = k[2][4:-1]
            norm.add(("nonempty", succ_defs.get(inner, inner).replace(" ", "")))
        else:
            norm.add(k)
    return norm, leaf


def check_meter(run: Run, prog: Program) -> None:
    cg = prog.cls(CG)
    ref = None
    for kind, leaf in KINDS.items():
        m = cg.methods.get(f"is_{kind}_meter")
        if m is None:
            raise AnalysisError(f"is_{kind}_meter not found")
        run.analysed(m.qual)
        cs, got_leaf = conjuncts(m)
        want = {("==", frozenset({"component.category", "ComponentCategory.METER"})),
                ("not", ("truthy", "self.is_grid_meter(component)")),
                ("nonempty", "self.successors(component.component_id)"),
                ("all-successors", "self.successors(component.component_id)", "LEAF")}
        run.check(cs == want and got_leaf == leaf, "C12.METER", m.qual, f"is_{kind}_meter conjuncts",
                  f"`is_{kind}_meter` is not `METER and not the grid meter and has successors and all "
                  f"successors satisfy {leaf}` like its three siblings (got leaf {got_leaf}, conjuncts "
                  f"{sorted(map(str, cs ^ want))} differ): e.g. without `not is_grid_meter` a grid meter with "
                  "only such devices below it is classed as a device meter and unmetered load at it is lost",
                  node=m.node, file=m.file, instance=f"is_{kind}_meter has the sibling shape with leaf {leaf}")
        ch = cg.methods.get(f"is_{kind}_chain")
        rets = [r for r in body_walk(ch.node) if isinstance(r, ast.Return)] if ch else []
        ok = len(rets) == 1 and canon(rets[0].value) == ("or", frozenset({("truthy", f"self.{leaf}(component)"),
                                                                          ("truthy", f"self.is_{kind}_meter(component)")}))
        run.check(ok, "C12.METER", ch.qual if ch else cg.qual, f"is_{kind}_chain = {leaf} or is_{kind}_meter",
                  f"`is_{kind}_chain` is not `{leaf} or is_{kind}_meter`", node=ch.node if ch else cg.node, file=cg.module.rel)
    fg = prog.cls(f"{GEN}._formula_generator:FormulaGenerator")
    pf = fg.methods["_is_primary_fallback_pair"]
    run.analysed(pf.qual)
    rets = [r for r in body_walk(pf.node) if isinstance(r, ast.Return)]
    want = ("or", frozenset(("and", frozenset({("truthy", f"graph.{leaf}(fallback)"), ("truthy", f"graph.is_{kind}_meter(primary)")}))
                            for kind, leaf in KINDS.items()))
    ok = len(rets) == 1 and canon(rets[0].value) == want
    run.check(ok, "C12.METER", pf.qual, "each leaf kind paired with its own meter kind",
              "a device is paired as fallback with a meter of another kind (or a kind is missing)", node=pf.node, file=pf.file)
    mf = fg.methods["_get_meter_fallback_components"]
    run.analysed(mf.qual)
    tests = [n for n in body_walk(mf.node) if isinstance(n, ast.If)]
    want = ("or", frozenset(("truthy", f"all((graph.{leaf}(c) for c in successors))") for leaf in KINDS.values()))
    ok = len(tests) == 1 and canon(tests[0].test) == want and u(tests[0].body[0]) == "return successors"
    run.check(ok, "C12.METER", mf.qual, "fallback components only when all successors are of ONE device kind",
              "a meter gets its successors as fallback unless they are *all of one* device kind: with the four "
              "alternatives folded into one `all(a or b or c or d)` a mixed meter (several device kinds plus "
              "unmetered load) would fall back to the sum of its devices and silently drop the load",
              node=mf.node, file=mf.file)
    mfc = fg.methods["_get_metric_fallback_components"]
    run.analysed(mfc.qual)
    t = u(mfc.node).replace(" ", "")
    ok = "ifcomponent.category==ComponentCategory.METER:fallbacks[component]=self._get_meter_fallback_components(component)" in t.replace("\n", "") \
        and "self._is_primary_fallback_pair(predecessor,component)" in t and "iflen(predecessors)==1:" in t
    run.check(ok, "C12.METER", mfc.qual, "meters -> their fallbacks; devices -> their single metering predecessor",
              "primary/fallback selection does not pair a device with its single predecessor meter", node=mfc.node, file=mfc.file)


def check_dfs(run: Run, prog: Program) -> None:
    fn = prog.func(f"{CG}.dfs")
    run.analysed(fn.qual)
    cfg = CFG(fn.node, fn.file)
    cur, vis, cond = fn.params[1], fn.params[2], fn.params[3]
    cond_t = [t for t in cfg.nodes if t.kind == "test" and u(t.ast) == f"{cond}({cur})"]
    rec = nodes_with_call(cfg, lambda c: method_call(c, "self", "dfs"))
    mark = nodes_with_call(cfg, lambda c: method_call(c, vis, "add") and [u(a) for a in c.args] == [cur])
    ok = len(cond_t) == 1 and bool(rec) and len(mark) == 1
    if ok:
        t = cond_t[0]
        hit = cfg.reachable([m for m, lab in cfg.succ[t.id] if lab == "true"])
        ok = not any(r in hit for r in rec) and any(
            isinstance(cfg.nodes[x].ast, ast.Return) and u(cfg.nodes[x].ast.value) == "{" + cur + "}" for x in hit)
    run.check(ok, "C12.DFS", fn.qual, "match -> return {node} without recursing",
              "the search recurses below a matching node (or does not return it): components behind a "
              "matched meter would be counted in addition to the meter", node=fn.node, file=fn.file)
    if not ok:
        return
    wit = cfg.path(cfg.entry, [cond_t[0].id], avoid=mark)
    run.check(wit is None, "C12.DFS", fn.qual, "visited marked before testing", "a node can be tested twice",
              node=fn.node, file=fn.file, path=cfg.describe_path(wit))
    loops = [h for h in cfg.nodes if h.kind == "for"]
    ok = len(loops) == 1 and u(loops[0].ast.iter) == f"self.successors({cur}.component_id)"  # type: ignore[union-attr]
    if ok:
        body = cfg.reachable([m for m, lab in cfg.succ[loops[0].id] if lab == "iter"], avoid=[loops[0].id])
        ok = not any(cfg.nodes[x].kind == "test" or isinstance(cfg.nodes[x].ast, (ast.Break, ast.Continue)) for x in body) \
            and any(r in body for r in rec)
        c = find_calls(loops[0].ast, lambda c: method_call(c, "self", "dfs"))[0]  # type: ignore[arg-type]
        ok = ok and [u(a) for a in c.args] == [u(loops[0].ast.target), vis, cond]  # type: ignore[union-attr]
        ok = ok and "update(" in u(loops[0].ast)
    run.check(ok, "C12.DFS", fn.qual, "recurse into every successor with the same visited set and condition",
              "the search skips successors or changes the condition/visited set while recursing", node=fn.node, file=fn.file)
    seen = [t for t in cfg.nodes if t.kind == "test" and canon(t.ast) == ("in", cur, vis)]
    run.check(len(seen) == 1, "C12.DFS", fn.qual, "already visited -> empty", "revisiting is not cut off", node=fn.node, file=fn.file)


def sum_loops(fn: FuncInfo) -> list[ast.For]:
    return [s for s in ast.walk(fn.node) if isinstance(s, ast.For) and any(
        isinstance(c, ast.Call) and isinstance(c.func, ast.Attribute) and c.func.attr == "push_component_metric"
        for c in ast.walk(s))]


def check_emit(run: Run, prog: Program) -> None:
    targets = [
        f"{GEN}._grid_power_formula_base:GridPowerFormulaBase._generate",
        f"{GEN}._consumer_power_formula:ConsumerPowerFormula._gen_with_grid_meter",
        f"{GEN}._consumer_power_formula:ConsumerPowerFormula._gen_without_grid_meter",
        f"{GEN}._producer_power_formula:ProducerPowerFormula.generate",
        f"{GEN}._pv_power_formula:PVPowerFormula.generate",
        f"{GEN}._battery_power_formula:BatteryPowerFormula.generate",
        f"{GEN}._ev_charger_power_formula:EVChargerPowerFormula.generate",
        f"{GEN}._chp_power_formula:CHPPowerFormula.generate",
    ]
    CONST_TRUE_OK = {"BatteryPowerFormula.generate": "ranges over battery inverters only",
                     "EVChargerPowerFormula.generate": "ranges over EV chargers only"}
    CONST_FALSE_OK = {"CHPPowerFormula.generate": "ranges over CHP meters only",
                      "ConsumerPowerFormula._gen_with_grid_meter": "the `+` loop ranges over the grid meters only"}
    n = 0
    for q in targets:
        fn = prog.func(q)
        run.analysed(fn.qual)
        short = q.split(":")[1]
        defs = {u(s.targets[0]): s.value for s in body_walk(fn.node) if isinstance(s, ast.Assign) and isinstance(s.targets[0], ast.Name)}
        defs.update({u(s.target): s.value for s in body_walk(fn.node) if isinstance(s, ast.AnnAssign) and s.value is not None})
        for loop in sum_loops(fn):
            n += 1
            metrics = [c for c in ast.walk(loop) if isinstance(c, ast.Call) and isinstance(c.func, ast.Attribute)
                       and c.func.attr == "push_component_metric"]
            opers = [s for s in loop.body if isinstance(s, ast.Expr) and isinstance(s.value, ast.Call)
                     and isinstance(s.value.func, ast.Attribute) and s.value.func.attr == "push_oper"]
            guarded = [s for s in loop.body if isinstance(s, ast.If) and any(
                isinstance(c, ast.Call) and isinstance(c.func, ast.Attribute) and c.func.attr == "push_oper" for c in ast.walk(s))]
            idx = None
            if isinstance(loop.iter, ast.Call) and u(loop.iter.func) == "enumerate" and isinstance(loop.target, ast.Tuple):
                idx = u(loop.target.elts[0])
            one_metric = len(metrics) == 1 and any(any(m is x for x in ast.walk(s)) for s in loop.body for m in metrics if not isinstance(s, ast.If))
            subtract = bool(opers) and all(u(o.value.args[0]) in ("'-'", '"-"') for o in opers)
            if subtract:
                ok = one_metric and len(opers) == 1 and not guarded and loop.body.index(opers[0]) < [
                    i for i, s in enumerate(loop.body) if any(metrics[0] is x for x in ast.walk(s))][0]
                shape = "`-` before every subtracted term"
            else:
                ok = one_metric and not opers and len(guarded) == 1 and idx is not None and \
                    canon(guarded[0].test) == ("<", "0", idx) and not guarded[0].orelse and \
                    [u(c.args[0]) for c in ast.walk(guarded[0]) if isinstance(c, ast.Call) and isinstance(c.func, ast.Attribute)
                     and c.func.attr == "push_oper"] in (["'+'"], ['"+"'])
                if ok:
                    gi = loop.body.index(guarded[0])
                    mi = [i for i, s in enumerate(loop.body) if any(metrics[0] is x for x in ast.walk(s))][0]
                    ok = gi < mi
                shape = "`+` before every term but the first"
            run.check(ok, "C12.EMIT", fn.qual, f"sum loop `{u(loop.target)} in {u(loop.iter)[:40]}`: {shape}",
                      "a sum-emitting loop does not push exactly one metric per term with an operator between "
                      "consecutive terms (a leading `+`, a missing operator or two metrics per term yields a "
                      "malformed or different formula)", node=loop, file=fn.file,
                      instance=f"{short}: loop over {u(loop.iter)[:50]} emits a well-formed sum")
            if not metrics:
                continue
            kws = {k.arg: k.value for k in metrics[0].keywords}
            naz = kws.get("nones_are_zeros")
            comp_var = u(metrics[0].args[0]).split(".")[0] if metrics[0].args else "?"
            t = u(naz).replace(" ", "").strip("()") if naz is not None else ""
            if isinstance(naz, ast.Call) and isinstance(naz.func, ast.Name) and naz.func.id in defs and isinstance(defs[naz.func.id], ast.Lambda):
                lam = defs[naz.func.id]
                t = u(lam.body).replace(" ", "").replace(f"{lam.args.args[0].arg}.", f"{u(naz.args[0])}.")
                comp_var = u(naz.args[0])
            ok = t == f"{comp_var}.category!=ComponentCategory.METER"
            why = ""
            if not ok and t == "True" and short in CONST_TRUE_OK:
                ok, why = True, CONST_TRUE_OK[short]
            if not ok and t == "False" and short in CONST_FALSE_OK and (
                    short != "ConsumerPowerFormula._gen_with_grid_meter" or "grid_meters" in u(loop.iter)):
                ok, why = True, CONST_FALSE_OK[short]
            run.check(ok, "C12.EMIT", fn.qual, f"nones_are_zeros={u(naz)}",
                      f"a term's missing values are treated as `{t}` instead of `category != METER` (a silent "
                      "device counts as 0, a silent meter makes the sum unknown)", node=metrics[0], file=fn.file,
                      instance=f"{short}: nones_are_zeros is category != METER{(' (' + why + ')') if why else ''}")
    if n < 10:
        raise AnalysisError(f"C12.EMIT: only {n} sum loops found")
    # grid power: every grid successor of the admissible categories
    gp = prog.func(targets[0])
    comps = [s for s in body_walk(gp.node) if isinstance(s, ast.Assign) and u(s.targets[0]) == "components"]
    ok = len(comps) == 1 and isinstance(comps[0].value, ast.SetComp)
    if ok:
        sc = comps[0].value
        g = sc.generators[0]
        cats = {u(e).split(".")[-1] for i in g.ifs for n2 in ast.walk(i) if isinstance(n2, ast.Set) for e in n2.elts}
        ok = u(g.iter) == "grid_successors" and u(sc.elt) == u(g.target) and len(g.ifs) == 1 and cats == {"INVERTER", "EV_CHARGER", "METER"}
    run.check(ok, "C12.EMIT", gp.qual, "grid power = Σ over every grid successor that is a meter / inverter / EV charger",
              "grid power does not range over every measurable grid successor", node=gp.node, file=gp.file)
    # consumer with grid meter: the subtracted set is found from *every* grid meter
    gw = prog.func(targets[1])
    t = u(gw.node).replace(" ", "").replace("\n", "")
    ok = "forgrid_meteringrid_meters:non_consumer_components=non_consumer_components.union(component_graph.dfs(grid_meter,set(),non_consumer_component))" in t
    run.check(ok, "C12.EMIT", gw.qual, "devices to subtract are searched below every grid meter",
              "devices below some grid meter are not subtracted from the consumer power", node=gw.node, file=gw.file)
    cg = prog.func(f"{GEN}._consumer_power_formula:ConsumerPowerFormula.generate")
    t = u(cg.node).replace(" ", "").replace("\n", "")
    ok = "ifself._are_grid_meters(grid_successors):returnself._gen_with_grid_meter(builder,grid_successors)returnself._gen_without_grid_meter(builder,self._get_grid_component())" in t
    run.check(ok, "C12.EMIT", cg.qual, "grid meters present -> meters minus devices; else sum of consumers",
              "the consumer formula variant is not selected by `_are_grid_meters`", node=cg.node, file=cg.file)


CG_MOD = "microgrid.component_graph"
CONTROLS = [
    ("is_chp_chain dropped from one sibling", f"{GEN}._consumer_power_formula",
     "                component_graph.is_battery_chain(component)\n                or component_graph.is_chp_chain(component)\n",
     "                component_graph.is_battery_chain(component)\n", "C12.PART"),
    ("not is_grid_meter removed from one meter predicate", CG_MOD,
     "            and not self.is_grid_meter(component)\n            and len(successors) > 0\n            and all(self.is_chp(successor) for successor in successors)",
     "            and len(successors) > 0\n            and all(self.is_chp(successor) for successor in successors)", "C12.METER"),
    ("dfs recurses past a match", CG_MOD,
     "        if condition(current_node):\n            return {current_node}\n\n        component: set[Component] = set()\n",
     "        component: set[Component] = set()\n        if condition(current_node):\n            component.add(current_node)\n", "C12.DFS"),
    ("plus emitted for the first term", f"{GEN}._producer_power_formula",
     "            for idx, component in enumerate(producer_components):\n                if idx > 0:\n                    builder.push_oper(\"+\")",
     "            for idx, component in enumerate(producer_components):\n                if idx >= 0:\n                    builder.push_oper(\"+\")", "C12.EMIT"),
    ("nones_are_zeros flipped", f"{GEN}._pv_power_formula",
     "                    nones_are_zeros=component.category != ComponentCategory.METER,",
     "                    nones_are_zeros=component.category == ComponentCategory.METER,", "C12.EMIT"),
    ("fallback alternatives folded", f"{GEN}._formula_generator",
     "            all(graph.is_chp(c) for c in successors)\n            or all(graph.is_pv_inverter(c) for c in successors)\n            or all(graph.is_battery_inverter(c) for c in successors)\n            or all(graph.is_ev_charger(c) for c in successors)",
     "            all(\n                graph.is_chp(c) or graph.is_pv_inverter(c) or graph.is_battery_inverter(c) or graph.is_ev_charger(c)\n                for c in successors\n            )",
     "C12.METER"),
]


def run_rules(run: Run, prog: Program) -> None:
    check_part(run, prog)
    check_meter(run, prog)
    check_dfs(run, prog)
    check_emit(run, prog)


def check(run: Run, prog: Program, tier: str) -> str:
    run.rule("C12.PART", "the three consumer-side sibling predicates, the graph's chain predicates and producer+pool kinds name the same chain kinds")
    run.rule("C12.METER", "four is_*_meter siblings share their conjuncts up to the leaf; chains are leaf-or-meter; "
             "pairing and meter fallback use the four leaf kinds separately")
    run.rule("C12.DFS", "dfs stops at the first match, marks visited first, recurses over all successors")
    run.rule("C12.EMIT", "sum loops emit one metric per term with an operator between terms; nones_are_zeros = category != METER; "
             "grid power over every measurable grid successor")
    run_rules(run, prog)
    run.floor("C12.PART", 8)
    run.floor("C12.METER", 11)
    run.floor("C12.DFS", 4)
    run.floor("C12.EMIT", 20)
    from ..engine.controls import run_controls

    run_controls(run, CONTROLS, run_rules, tier)
    run.undecided("that these traversals produce the true totals on every valid component graph (nested meters, "
                  "mixed meters, unmetered load): a graph-algorithm correctness statement over all topologies — "
                  "enumerating graphs is a different family. Only the classification / traversal / emission "
                  "structure above is decided.")
    run.assume("frozen table: battery and EV-charger formulas take their component ids from the pools, so only "
               "pv and chp are searched by the producer formula")
    return ("Table/sibling extractors: the chain-kind sets named by sibling predicates, the conjunct sets of "
            "the four meter predicates (normalised with canonical boolean forms) and the emission grammar of "
            "every sum loop are extracted from the AST and compared; dfs is checked with CFG path rules. This "
            "decides necessary structural conditions only, not the balance identity over all graphs.")
