"""C12  Generated microgrid power formulas balance for every topology — structure only.

The balance identity over all component graphs is a graph-algorithm correctness statement that this
family cannot decide.  Decided necessary conditions (DESIGN.md §2 C12):
  C12.PART  the three sibling predicates that separate consumers from the rest exclude the same set
            of chain kinds, which equals all is_*_chain predicates of the graph and the producer
            kinds plus the two pool-backed kinds.
  C12.METER the four is_*_meter predicates have the same conjunct set up to their leaf predicate;
            each *_chain is leaf-or-meter of its own kind; primary/fallback pairing and the meter
            fallback use the four leaf predicates, each in its own `all`; in the pairing loop a meter gets its
            fallbacks, a device is filed under its single predecessor when the pair predicate holds (a further
            conjunct `successors(predecessor) <= requested components` may withhold the meter, nothing may grant
            it) and is its own primary with an empty fallback set on every other path.
  C12.DFS   dfs stops at the first match, marks visited before testing, recurses over all successors.
  C12.EMIT  every sum-emitting loop pushes one metric per term and an operator before every term but
            the first (`-` for every subtracted term); nones_are_zeros is `category != METER` or the
            constant that has for the loop's component kind; grid power takes every grid successor of
            the three admissible categories.
  C12.FALLBACK  in every function that turns the primary/fallback pairing into per-primary fallback formulas (bound by
            its call of the pairing function): each record is filed under the loop's own primary; the backward slice
            of the recorded value, cut at the loop header, has no input that the loop body also writes (hoisted
            accumulator, shared object refilled under an alias, value assigned on some paths only) and stores no
            un-run lambda / generator over a per-iteration variable; a non-None record is computed from all of that
            primary's fallback components.  (Assumes: only item/attribute stores, augmented assignments and the
            standard container mutators change an object; helpers called per primary do not keep state in `self`.)
  C12.VISIT every "for all components / successors / primaries" of the generators and of the graph queries is a `for`
            loop or comprehension over a collection: nothing in its body resizes or reorders the object it is walking
            (`.remove/.pop/.clear/.insert/.sort/.discard/.add/...`, `del x[i]`, slice store, in-place `-=`/`|=`), under
            any alias, in an inner loop, or in a private method / nested function that is handed the collection —
            unless the loop is left right after it (no further step of the same iterator).  Walking a copy
            (`list(x)`, `sorted(x)`, a comprehension) and tail growth of a list (`append`, work-list idiom) are fine.
            (Assumes: aliases arise from plain `a = b` assignments and argument passing; calls followed 3 deep.)

How the rules read the code (so that behaviour-preserving rewrites do not matter):
  * predicates are compared as *values*: the function's symbolic return expression (locals
    substituted, early returns / if-else / ternaries folded, private helpers expanded, parameters
    numbered `%1..`, the component graph spelt `GRAPH`) in a canonical boolean form (flattened,
    De Morgan, `all`/`any` as quantifiers over an alpha-normalised variable) — see _c12_util;
  * roles are bound by dataflow: "the `condition` argument of the graph search in this generator",
    "the set the `-` loops range over", "the popped single predecessor", "the enumerate index";
    only public / anchored callee names, attribute names and parameter *positions* are used;
  * control-flow obligations (per loop iteration, per dfs call) are path rules on the CFG: which
    nodes must / must not be passed after the edge on which a canonical fact is established.
"""
from __future__ import annotations

import ast
from typing import Any, Callable

from ..engine.cfg import CFG
from ..engine.normalize import inline_helpers
from ..engine.report import AnalysisError, Run
from ..engine.resolver import FuncInfo, Program, parent_map, walk_no_nested
from ..engine.util import method_call, node_calls, node_writes, nodes_with_call, reaching_defs
from ._c12_util import (EAGER_CONSUMERS, MUTATORS, DupFree, Folder, IterationSlice, LoopMutation, alias, bcanon, call_args, deref,
                        edges_establishing, emptiness, facts, literals, name_aliases, normal, path_avoiding_edges, place_aliases,
                        places_read, pmap, rename, resolve_callable, resizes, simplify_under, single_defs, size_subject, splice_closure_helpers,
                        subset_fact, test_edges, txt, walked_places)

CG = "microgrid.component_graph:_MicrogridComponentGraph"
GEN = "timeseries.formula_engine._formula_generators"
KINDS = {"pv": "is_pv_inverter", "battery": "is_battery_inverter", "ev_charger": "is_ev_charger", "chp": "is_chp"}
PRODUCER_KINDS = {"pv", "chp"}
POOL_KINDS = {"battery", "ev_charger"}  # generators take component ids from their pools (frozen table)

# every way the generators spell "the component graph"; inside the graph class it is `self`
GRAPH_TEXTS = ("connection_manager.get().component_graph",)
METER = "ComponentCategory.METER"


# ------------------------------------------------------------------------------------------------
# shared machinery: every rule reads *values* (locals substituted, private helpers expanded, keyword
# arguments put in parameter order, graph aliases unified), never local names or statement positions
class Ctx:
    def __init__(self, prog: Program) -> None:
        self.prog = prog
        _SUBCLASSES[:] = [prog.subclasses]  # (class-level constant tables: not overridden below the class that reads them)
        fg = prog.cls(f"{GEN}._formula_generator:FormulaGenerator")
        cons = prog.cls(f"{GEN}._consumer_power_formula:ConsumerPowerFormula")
        self.R: dict[str, str | None] = {}     # anchored (historical) name -> name of the function that plays the role
        self.keep: set[str] = set()            # callees never expanded / spliced into their callers
        self.resolve_roles(fg, cons)
        self.folder = Folder(prog, keep=self.keep)
        dfs = prog.func(f"{CG}.dfs")
        self.dfs_params = dfs.params[1:]
        if len(self.dfs_params) != 3:
            raise AnalysisError("dfs does not take (current_node, visited, condition)")
        # signatures of the callees whose arguments the rules look at (attribute name -> parameters)
        self.sigs: dict[str, list[str]] = {"dfs": self.dfs_params,
                                           "push_component_metric": ["component_id", "nones_are_zeros", "fallback"],
                                           "push_oper": ["oper"]}
        for cls, names in ((fg, ("_get_meter_fallback_components", "_is_primary_fallback_pair", "_get_metric_fallback_components")),
                           (cons, ("_are_grid_meters", "_gen_with_grid_meter", "_gen_without_grid_meter"))):
            for n in names:
                actual = self.R.get(n)
                if actual is not None:
                    self.sigs[actual] = cls.methods[actual].params[1:]
        self._prep: dict[str, FuncInfo] = {}
        cg = prog.cls(CG)
        api = {n: cg.methods[n] for n in ("dfs", "successors", "predecessors", "components") if n in cg.methods}
        self.dupfree = DupFree(prog, api, lambda fn, e: txt(self.norm(deref(e, self.defs(fn)))) == "GRAPH")
        self._values: dict[Any, Any] = {}
        self._defs: dict[int, Any] = {}
        self._nested: dict[int, dict[str, Any]] = {}

    def resolve_roles(self, fg: Any, cons: Any) -> None:
        """Bind the private anchors by the role they play; their historical name is only the first guess.
        A role nobody plays is an AnalysisError (exit 2); an inlined *trivial* helper is a role played by its
        caller (None here, handled by the rules)."""
        prog = self.prog

        def private(cls: Any) -> list[FuncInfo]:
            return [m for m in cls.methods.values() if m.name.startswith("_") and not m.name.startswith("__")]

        def pick(cls: Any, hint: str, pred: Callable[[FuncInfo], bool], optional: bool = False) -> FuncInfo | None:
            if hint in cls.methods:
                return cls.methods[hint]
            cands = [m for m in private(cls) if pred(m)]
            if len(cands) == 1:
                return cands[0]
            if optional and not cands:
                return None
            raise AnalysisError(f"{len(cands)} functions of {cls.qual} play the role of `{hint}`")

        def self_calls(node: ast.AST) -> list[ast.Call]:
            return [c for c in ast.walk(node) if isinstance(c, ast.Call) and isinstance(c.func, ast.Attribute)
                    and isinstance(c.func.value, ast.Name) and c.func.value.id == "self"]

        def mentions(m: FuncInfo, dotted_text: str) -> bool:
            return any(isinstance(x, ast.Attribute) and txt(x) == dotted_text for x in ast.walk(m.node))

        gc = pick(fg, "_get_grid_component", lambda m: len(m.params) == 1 and mentions(m, "ComponentCategory.GRID")
                  and not any(c.func.attr.startswith("_") for c in self_calls(m.node)))
        assert gc is not None
        gs = pick(fg, "_get_grid_component_successors", lambda m: len(m.params) == 1 and any(
            c.func.attr == gc.name for c in self_calls(m.node)) and any(
            isinstance(c, ast.Call) and isinstance(c.func, ast.Attribute) and c.func.attr == "successors" for c in ast.walk(m.node)))
        bld = pick(fg, "_get_builder", lambda m: any(isinstance(c, ast.Call) and txt(c.func).endswith("ResampledFormulaBuilder")
                                                     for c in ast.walk(m.node)), optional=True)
        assert gs is not None

        def is_pairing(m: FuncInfo) -> bool:
            if len(m.params) != 2:
                return False
            loops = [n for n in ast.walk(m.node) if isinstance(n, ast.For) and txt(n.iter) == m.params[1]]
            rets = [n.value for n in walk_no_nested(m.node) if isinstance(n, ast.Return)]
            d = single_defs(m.node)
            return bool(loops) and bool(rets) and all(isinstance(r, ast.Name) and r.id in d and txt(d[r.id]) in ("{}", "dict()") for r in rets)

        mfc = pick(fg, "_get_metric_fallback_components", is_pairing)
        assert mfc is not None
        # inside it: the callee whose result becomes the entry of the looped component, and the two-argument
        # predicate asked about (some predecessor, the looped component) — here or in a helper / closure of it
        loop = next((n for n in ast.walk(mfc.node) if isinstance(n, ast.For) and txt(n.iter) == mfc.params[1]
                     and isinstance(n.target, ast.Name)), None)
        x = loop.target.id if loop is not None else ""
        mf_name = "_get_meter_fallback_components" if "_get_meter_fallback_components" in fg.methods else None
        if mf_name is None and loop is not None:
            cands = {s.value.func.attr for s in ast.walk(loop) if isinstance(s, ast.Assign) and isinstance(s.targets[0], ast.Subscript)
                     and isinstance(s.value, ast.Call) and s.value in self_calls(s) and [txt(a) for a in s.value.args] == [x]}
            mf_name = next(iter(cands)) if len(cands) == 1 else None
        pf_name = "_is_primary_fallback_pair" if "_is_primary_fallback_pair" in fg.methods else None
        if pf_name is None:
            scopes: list[ast.AST] = [mfc.node] + [fg.methods[c.func.attr].node for c in self_calls(mfc.node)
                                                  if c.func.attr in fg.methods and c.func.attr != mf_name and c.func.attr.startswith("_")]
            tests = [t.test for sc in scopes for t in ast.walk(sc) if isinstance(t, (ast.If, ast.IfExp, ast.While))]
            cands = {c.func.attr for t in tests for c in self_calls(t) if len(c.args) + len(c.keywords) == 2
                     and c.func.attr in fg.methods and len(fg.methods[c.func.attr].params) == 3 and c.func.attr != mfc.name}
            pf_name = next(iter(cands)) if len(cands) == 1 else None
        if mf_name is None:
            raise AnalysisError(f"no function of {fg.qual} plays the role of `_get_meter_fallback_components`")
        # (no pair predicate: it may have been inlined; the pairing rule then reads the test itself)
        # the consumer formula: which variant `generate` selects, by what test
        cgen = cons.methods.get("generate")
        if cgen is None:
            raise AnalysisError(f"anchor {cons.qual}.generate not found")
        # the variants are the private methods whose *result* `generate` hands back (the returned expression, through
        # conditional expressions and locals) — not any helper that is merely asked something on the way, e.g. a
        # two-argument predicate inside the selecting test once that test is written in line
        rcalls = [c for c in result_exprs(cgen.node) if isinstance(c, ast.Call) and c in self_calls(c)
                  and c.func.attr in cons.methods and len(c.args) + len(c.keywords) == 2 and c.func.attr.startswith("_")]
        gens = []
        for c in rcalls:
            if c.func.attr not in gens and c.func.attr != (bld.name if bld else None):
                gens.append(c.func.attr)
        tests = [c for n in ast.walk(cgen.node) if isinstance(n, (ast.If, ast.IfExp)) for c in self_calls(n.test)
                 if c.func.attr in cons.methods and len(c.args) + len(c.keywords) == 1 and c.func.attr.startswith("_")]
        agm_name = "_are_grid_meters" if "_are_grid_meters" in cons.methods else (tests[0].func.attr if len({t.func.attr for t in tests}) == 1 else None)
        if len(gens) != 2:
            raise AnalysisError(f"{cgen.qual} does not select between two generator variants")
        # the variant that gets the grid successors is the one "with grid meters"
        by_arg = {}
        for c in rcalls:
            args = call_args(c, cons.methods[c.func.attr].params[1:]) or {}
            a2 = list(args.values())[1] if len(args) == 2 else None
            direct = isinstance(a2, ast.Call) and a2 in self_calls(a2) and a2.func.attr == gc.name
            by_arg[c.func.attr] = "_gen_without_grid_meter" if direct or (
                isinstance(a2, ast.Name) and a2.id in single_defs(cgen.node) and txt(single_defs(cgen.node)[a2.id]) == f"self.{gc.name}()") \
                else "_gen_with_grid_meter"
        if sorted(by_arg.values()) != ["_gen_with_grid_meter", "_gen_without_grid_meter"]:
            raise AnalysisError(f"{cgen.qual}: cannot tell the with- from the without-grid-meter variant")
        gridcls = prog.cls(f"{GEN}._grid_power_formula_base:GridPowerFormulaBase")
        ggen = gridcls.methods.get("_generate") or next((m for m in gridcls.methods.values() if any(
            isinstance(c, ast.Call) and isinstance(c.func, ast.Attribute) and c.func.attr == "push_component_metric" for c in ast.walk(m.node))), None)
        if ggen is None:
            raise AnalysisError(f"no function of {gridcls.qual} emits the grid power sum")
        self.R = {"_get_grid_component": gc.name, "_get_grid_component_successors": gs.name, "_get_builder": bld.name if bld else None,
                  "_get_metric_fallback_components": mfc.name, "_get_meter_fallback_components": mf_name,
                  "_is_primary_fallback_pair": pf_name, "_are_grid_meters": agm_name, "_generate": ggen.name}
        self.R.update({role: actual for actual, role in by_arg.items()})
        # helpers whose *result* a sum loop ranges over (fallback formulas, CHP meters, ...): bound by that use
        feeders: set[str] = set()
        for cls in prog.all_classes():
            if not cls.module.name.startswith(GEN):
                continue
            for m in cls.methods.values():
                if not any(isinstance(c, ast.Call) and isinstance(c.func, ast.Attribute) and c.func.attr == "push_component_metric"
                           for c in ast.walk(m.node)):
                    continue
                d = single_defs(m.node)
                for n in ast.walk(m.node):
                    if isinstance(n, ast.For):
                        for c in self_calls(deref(n.iter, d)):
                            if c.func.attr.startswith("_"):
                                feeders.add(c.func.attr)
        # ... except those that hold a generator's graph search: that is part of the generator's own behaviour
        # and is executed in line (spliced) like any other extracted block
        def searches(name: str) -> bool:
            return any(name in c.methods and any(isinstance(x, ast.Call) and isinstance(x.func, ast.Attribute) and x.func.attr == "dfs"
                                                   for x in ast.walk(c.methods[name].node))
                       for c in prog.all_classes() if c.module.name.startswith(GEN))

        feeders = {f for f in feeders if not searches(f)}
        self.feeders = feeders
        self.keep = {v for v in self.R.values() if v} | feeders

    def selection(self, cgen: FuncInfo) -> tuple[ast.AST, ast.AST, ast.AST] | None:
        """ConsumerPowerFormula.generate as (test, value if the test holds, value otherwise); None if it is not a
        two-way selection, or if a guard that refuses to generate is not `the grid has no successors`."""
        gs = f"self.{self.R['_get_grid_component_successors']}()"
        self.folder.mark_raise = True
        try:
            e = self.norm(self.folder.ret_expr(cgen), pmap(cgen))
        finally:
            self.folder.mark_raise = False
        while isinstance(e, ast.IfExp) and "RAISE" in (txt(e.body), txt(e.orelse)):
            if emptiness(bcanon(e.test, txt(e.orelse) == "RAISE")) != (gs, True):
                return None
            e = e.orelse if txt(e.body) == "RAISE" else e.body
        if not isinstance(e, ast.IfExp):
            return None
        test, a, b = e.test, e.body, e.orelse
        while isinstance(test, ast.UnaryOp) and isinstance(test.op, ast.Not):
            test, a, b = test.operand, b, a
        return test, a, b

    def prep(self, fn: FuncInfo) -> FuncInfo:
        """Statements that were extracted into simple private helpers are spliced back (analysis only)."""
        if fn.qual not in self._prep:
            # (first the block helpers that define a closure of their own, e.g. a graph search with a named predicate:
            # the engine's splice leaves those alone)
            pre = splice_closure_helpers(self.prog, fn, exclude=self.keep)
            node = inline_helpers(self.prog, fn, node=pre, exclude=self.keep)
            self._prep[fn.qual] = FuncInfo(fn.name, fn.module, node, fn.cls, fn.outer)
        return self._prep[fn.qual]

    def defs(self, fn: FuncInfo) -> dict[str, ast.AST]:
        if id(fn.node) not in self._defs:
            self._defs[id(fn.node)] = (fn, single_defs(fn.node))
        return self._defs[id(fn.node)][1]

    def positional(self, expr: ast.AST) -> ast.AST:
        """Keyword arguments of the known callees moved to their parameter position (in place on a copy)."""
        for n in ast.walk(expr):
            if isinstance(n, ast.Call) and isinstance(n.func, ast.Attribute) and n.func.attr in self.sigs and n.keywords:
                ps = self.sigs[n.func.attr]
                args = call_args(n, ps)
                if args is None:
                    continue
                ordered = []
                for p in ps:
                    if p not in args:
                        break
                    ordered.append(p)
                if set(ordered) == set(args):
                    n.args = [args[p] for p in ordered]
                    n.keywords = []
                elif len(n.args) < len(ordered):
                    # a prefix can be made positional, the rest stays keyword (sorted)
                    n.args = [args[p] for p in ordered]
                    n.keywords = sorted((k for k in n.keywords if k.arg not in ordered), key=lambda k: k.arg or "")
                else:
                    n.keywords = sorted(n.keywords, key=lambda k: k.arg or "")
        return expr

    def norm(self, expr: ast.AST, mapping: dict[str, str] | None = None) -> ast.AST:
        e = alias(rename(expr, mapping or {}), GRAPH_TEXTS, "GRAPH")
        return self.positional(e)

    def value(self, fn: FuncInfo, defs: dict[str, ast.AST], expr: ast.AST, mapping: dict[str, str] | None = None) -> ast.AST:
        """`expr` inside `fn` as a value: locals substituted, private helpers expanded, aliases unified."""
        key = (id(fn.node), id(expr), id(defs), tuple(sorted((mapping or {}).items())))
        hit = self._values.get(key)
        if hit is not None and hit[0] is expr:
            return hit[1]  # read-only by convention
        nk = id(fn.node)
        if nk not in self._nested:
            self._nested[nk] = {n.name: n for s in fn.node.body for n in walk_no_nested(s) if isinstance(n, (ast.FunctionDef, ast.AsyncFunctionDef))}
        # (second deref: what an expanded nested helper reads from the enclosing function's locals)
        out = self.norm(deref(self.folder.expr(deref(expr, defs), {}, fn, self._nested[nk], 0), defs), mapping)
        self._values[key] = (expr, out, fn, defs)  # keeps the keyed objects alive
        return out

    def predicate(self, fn: FuncInfo, graph_self: bool = False) -> tuple[Any, ast.AST]:
        """(canonical form, expression) of what a predicate function returns over `%1`, `%2`, ..."""
        m = pmap(fn)
        if graph_self:
            m["self"] = "GRAPH"
        e = self.norm(self.folder.ret_expr(fn), m)
        return bcanon(e), e

    def callable_value(self, fn: FuncInfo, defs: dict[str, ast.AST], expr: ast.AST) -> tuple[Any, ast.AST]:
        e = self.norm(resolve_callable(self.folder, fn, expr, defs))
        return bcanon(e), e

    def graph_dfs_calls(self, fn: FuncInfo, defs: dict[str, ast.AST]) -> list[ast.Call]:
        out = []
        for n in ast.walk(fn.node):
            if isinstance(n, ast.Call) and isinstance(n.func, ast.Attribute) and n.func.attr == "dfs" \
                    and txt(self.norm(deref(n.func.value, defs))) == "GRAPH":
                out.append(n)
        return out

    def dfs_condition(self, fn: FuncInfo, defs: dict[str, ast.AST], call: ast.Call) -> tuple[Any, ast.AST] | None:
        args = call_args(call, self.dfs_params)
        if args is None or self.dfs_params[2] not in args:
            return None
        return self.callable_value(fn, defs, args[self.dfs_params[2]])


def result_exprs(fn_node: ast.AST) -> list[ast.AST]:
    """The expressions a function's result can come from: every returned expression, followed through conditional
    expressions, walrus / await wrappers and (all assignments of) plain locals.  Calls are leaves: what is passed to
    them, asked inside a test or computed for another purpose is not a result."""
    stmts = [n for s in getattr(fn_node, "body", []) for n in walk_no_nested(s)]
    binds: dict[str, list[ast.AST]] = {}
    for n in stmts:
        if isinstance(n, ast.Assign) and n.value is not None:
            for t in n.targets:
                if isinstance(t, ast.Name):
                    binds.setdefault(t.id, []).append(n.value)
        elif isinstance(n, (ast.AnnAssign, ast.NamedExpr)) and isinstance(n.target, ast.Name) and n.value is not None:
            binds.setdefault(n.target.id, []).append(n.value)
    todo: list[ast.AST] = [n.value for n in stmts if isinstance(n, ast.Return) and n.value is not None]
    out: list[ast.AST] = []
    seen: set[int] = set()
    while todo:
        e = todo.pop(0)
        if id(e) in seen:
            continue
        seen.add(id(e))
        if isinstance(e, ast.IfExp):
            todo[:0] = [e.body, e.orelse]
        elif isinstance(e, (ast.NamedExpr, ast.Await)):
            todo.insert(0, e.value)
        elif isinstance(e, ast.Name) and e.id in binds:
            todo[:0] = binds[e.id]
        else:
            out.append(e)
    return out


def chain_calls(c: Any) -> set[str]:
    """The is_*_chain predicates of the graph asked by a canonical predicate form (after helpers were read in
    line and quantifiers over literal tuples of predicates were unrolled)."""
    import re
    return set(re.findall(r"GRAPH\.(is_\w+_chain)\(", repr(c)))


def is_empty_set(e: ast.AST | None) -> bool:
    return e is not None and txt(e) in ("set()", "frozenset()", "set(())", "set([])")


def chain_atom(kind_pred: str, var: str) -> Any:
    return ("truthy", f"GRAPH.{kind_pred}({var})")


# ------------------------------------------------------------------------------------------------
def check_part(run: Run, cx: Ctx) -> None:
    prog = cx.prog
    cg = prog.cls(CG)
    all_chains = {m for m in cg.methods if m.startswith("is_") and m.endswith("_chain")}
    want = {f"is_{k}_chain" for k in KINDS}
    run.check(all_chains == want, "C12.PART", cg.qual, f"chain predicates {sorted(all_chains)}",
              f"the component graph defines chain kinds {sorted(all_chains)}, the formula generators know "
              f"{sorted(want)}", node=cg.node, file=cg.module.rel)
    cons = prog.cls(f"{GEN}._consumer_power_formula:ConsumerPowerFormula")
    # the three sibling predicates, bound by role: what `_are_grid_meters` returns, and the `condition`
    # argument of the graph search in each of the two generator variants
    forms: dict[str, tuple[FuncInfo, ast.AST, Any, ast.AST]] = {}
    if cx.R["_are_grid_meters"] is not None:
        agm = cons.methods[cx.R["_are_grid_meters"]]
        c, e = cx.predicate(agm)
    else:
        # the test was inlined into `generate`: it is the predicate, over the grid successors as `%1`
        agm = cons.methods["generate"]
        sel = cx.selection(agm)
        e = alias(sel[0], [f"self.{cx.R['_get_grid_component_successors']}()"], "%1") if sel is not None else ast.Constant(None)
        c = bcanon(e)
    forms["_are_grid_meters"] = (agm, agm.node, c, e)
    for holder, role in (("_gen_with_grid_meter", "non_consumer_component"), ("_gen_without_grid_meter", "consumer_component")):
        h = cx.prep(cons.methods[cx.R[holder]])
        defs = cx.defs(h)
        calls = cx.graph_dfs_calls(h, defs)
        got_c = cx.dfs_condition(h, defs, calls[0]) if len(calls) == 1 else None
        if got_c is None:  # no (single) graph search with a condition: reported below as "excludes nothing"
            forms[role] = (h, h.node, None, ast.Constant(None))
        else:
            forms[role] = (h, calls[0], got_c[0], got_c[1])
    for name, (fn, node, _c, e) in forms.items():
        run.analysed(fn.qual)
        got = chain_calls(_c)
        run.check(got == want, "C12.PART", fn.qual, f"{name} excludes {sorted(got)}",
                  f"`{name}` separates consumers from {sorted(got)} but the other sibling predicates (and the "
                  f"graph) use {sorted(want)}: the two consumer-formula variants, or consumer vs the device "
                  "formulas, would classify some component differently and the balance breaks",
                  node=node, file=fn.file, instance=f"{name} excludes all chain kinds")
    # shape of each sibling
    want_c = ("all", "%1", ("and", frozenset({("==", frozenset({"?0.category", METER}))}
                                             | {("not", chain_atom(k, "?0")) for k in want})))
    run.check(forms["_are_grid_meters"][2] == want_c, "C12.PART", agm.qual, "all(successor is a METER and in no device chain)",
              "`_are_grid_meters` is not `every grid successor is a meter outside every device chain` (e.g. "
              "is_grid_meter() means *the only* grid successor, so two mixed grid meters would take the "
              "no-grid-meter path and consumer power would be the plain sum of the grid meters)",
              node=agm.node, file=agm.file)
    fn, node, c, _e = forms["non_consumer_component"]
    run.check(c == ("or", frozenset(chain_atom(k, "%1") for k in want)), "C12.PART", fn.qual, "non_consumer = any device chain",
              "`non_consumer_component` is not the disjunction of all device chains", node=node, file=fn.file)
    fn, node, c, _e = forms["consumer_component"]
    ok = isinstance(c, tuple) and c[0] == "and" and {("not", chain_atom(k, "%1")) for k in want} <= set(c[1])
    if ok:  # ... and nothing else than "is a meter or an inverter"
        rest = set(c[1]) - {("not", chain_atom(k, "%1")) for k in want}
        ok = len(rest) == 1 and category_set(next(iter(rest)), "%1") == {"METER", "INVERTER"}
    run.check(ok, "C12.PART", fn.qual, "consumer = meter/inverter outside every device chain",
              "`consumer_component` is not `a meter or inverter outside every device chain`", node=node, file=fn.file)
    # producer kinds
    prod = cx.prep(prog.func(f"{GEN}._producer_power_formula:ProducerPowerFormula.generate"))
    run.analysed(prod.qual)
    defs = cx.defs(prod)
    calls = cx.graph_dfs_calls(prod, defs)
    pc = cx.dfs_condition(prod, defs, calls[0]) if len(calls) == 1 else None
    got = chain_calls(pc[0]) if pc else set()
    ok = got == {f"is_{k}_chain" for k in PRODUCER_KINDS} and pc is not None and \
        pc[0] == ("or", frozenset(chain_atom(f"is_{k}_chain", "%1") for k in PRODUCER_KINDS))
    run.check(ok, "C12.PART", prod.qual, f"producer kinds {sorted(got)}",
              f"producer power searches {sorted(got)}; with the pool-backed kinds {sorted(POOL_KINDS)} this must "
              f"add up to all chain kinds {sorted(want)}", node=prod.node, file=prod.file)
    run.check({f"is_{k}_chain" for k in PRODUCER_KINDS | POOL_KINDS} == want, "C12.PART", cg.qual,
              "producer kinds + pool-backed kinds = all chain kinds", "frozen kind table out of date",
              node=cg.node, file=cg.module.rel)
    pv = cx.prep(prog.func(f"{GEN}._pv_power_formula:PVPowerFormula.generate"))
    run.analysed(pv.qual)
    defs = cx.defs(pv)
    calls = cx.graph_dfs_calls(pv, defs)
    pc = cx.dfs_condition(pv, defs, calls[0]) if len(calls) == 1 else None
    run.check(pc is not None and pc[0] == chain_atom("is_pv_chain", "%1"), "C12.PART", pv.qual, "PV power searches is_pv_chain",
              "PV power does not search the PV chain", node=pv.node, file=pv.file)
    # ... and does so whenever no explicit component ids are configured (the default)
    ok = len(calls) == 1
    if ok:
        cfg = CFG(pv.node, pv.file)
        search = set(cfg.node_containing(calls[0]))
        ids = "self._config.component_ids"
        e_none = edges_establishing(cfg, lambda a: emptiness(a) == (ids, True), lambda e: cx.value(pv, defs, e))
        always = cfg.path(cfg.entry, [cfg.exit], avoid=search, edge_ok=normal) is None
        ok = bool(search) and (always or (bool(e_none) and all(
            m in search or cfg.path(m, [cfg.exit], avoid=search, edge_ok=normal) is None for _t, m, _lab in e_none)))
        # the search may also be one alternative of a conditional expression inside its statement: then it is the one
        # taken when no ids are configured
        parents = parent_map(pv.node)
        child: ast.AST = calls[0]
        up = parents.get(child)
        while ok and up is not None and not isinstance(up, ast.stmt):
            if isinstance(up, ast.IfExp) and child is not up.test:
                ok = emptiness(bcanon(cx.value(pv, defs, up.test), child is up.orelse)) == (ids, True)
            elif isinstance(up, (ast.BoolOp, ast.Lambda, ast.GeneratorExp, ast.ListComp, ast.SetComp, ast.DictComp)):
                ok = False  # evaluated only sometimes / later
            child, up = up, parents.get(up)
    run.check(ok, "C12.PART", pv.qual, "no configured ids -> the PV chain is searched",
              "with no component ids configured the PV components are not taken from the PV-chain search "
              "(PV power would be the 0 placeholder although the graph has PV inverters)", node=pv.node, file=pv.file)


# ------------------------------------------------------------------------------------------------
SUCC = "GRAPH.successors(%1.component_id)"


def meter_conjuncts(c: Any) -> tuple[set[Any], str | None]:
    """Conjunct set of an is_*_meter predicate, with its leaf predicate abstracted to LEAF."""
    if not (isinstance(c, tuple) and c and c[0] == "and"):
        return set(), None
    out: set[Any] = set()
    leaf = None
    for k in c[1]:
        if k == ("truthy", SUCC):
            out.add(("nonempty", SUCC))  # a set is truthy iff it is not empty
        elif isinstance(k, tuple) and k[0] == "all" and isinstance(k[2], tuple) and k[2][0] == "truthy" \
                and k[2][1].startswith("GRAPH.") and k[2][1].endswith("(?0)") and leaf is None:
            leaf = k[2][1][len("GRAPH."):-len("(?0)")]
            out.add(("all", k[1], "LEAF"))
        else:
            out.add(k)
    return out, leaf


def check_meter(run: Run, cx: Ctx) -> None:
    prog = cx.prog
    cg = prog.cls(CG)
    for kind, leaf in KINDS.items():
        m = cg.methods.get(f"is_{kind}_meter")
        if m is None:
            raise AnalysisError(f"is_{kind}_meter not found")
        run.analysed(m.qual)
        c, _e = cx.predicate(m, graph_self=True)
        cs, got_leaf = meter_conjuncts(c)
        want = {("==", frozenset({"%1.category", METER})),
                ("not", ("truthy", "GRAPH.is_grid_meter(%1)")),
                ("nonempty", SUCC),
                ("all", SUCC, "LEAF")}
        run.check(cs == want and got_leaf == leaf, "C12.METER", m.qual, f"is_{kind}_meter conjuncts",
                  f"`is_{kind}_meter` is not `METER and not the grid meter and has successors and all "
                  f"successors satisfy {leaf}` like its three siblings (got leaf {got_leaf}, conjuncts "
                  f"{sorted(map(str, cs ^ want))} differ): e.g. without `not is_grid_meter` a grid meter with "
                  "only such devices below it is classed as a device meter and unmetered load at it is lost",
                  node=m.node, file=m.file, instance=f"is_{kind}_meter has the sibling shape with leaf {leaf}")
        ch = cg.methods.get(f"is_{kind}_chain")
        ok = False
        if ch is not None:
            run.analysed(ch.qual)
            c, _e = cx.predicate(ch, graph_self=True)
            ok = c == ("or", frozenset({("truthy", f"GRAPH.{leaf}(%1)"), ("truthy", f"GRAPH.is_{kind}_meter(%1)")}))
        run.check(ok, "C12.METER", ch.qual if ch else cg.qual, f"is_{kind}_chain = {leaf} or is_{kind}_meter",
                  f"`is_{kind}_chain` is not `{leaf} or is_{kind}_meter`", node=ch.node if ch else cg.node, file=cg.module.rel)
    # what every `not is_grid_meter` above (and the consumer variants) relies on: the grid meter is the meter that
    # is the ONLY successor of the grid connection — counted over all successors, not over some of them
    gm = cg.methods.get("is_grid_meter")
    if gm is None:
        raise AnalysisError("is_grid_meter not found")
    run.analysed(gm.qual)
    c, _e = cx.predicate(gm, graph_self=True)
    pred = "GRAPH.predecessors(%1.component_id)"
    forms = []
    for one in (f"next(iter({pred}))", f"{pred}.pop()", f"list({pred})[0]", f"[*{pred}][0]"):
        forms.append(("and", frozenset({("==", frozenset({"%1.category", METER})),
                                        ("==", frozenset({"1", f"len({pred})"})),
                                        ("==", frozenset({f"{one}.category", "ComponentCategory.GRID"})),
                                        ("==", frozenset({"1", f"len(GRAPH.successors({one}.component_id))"}))})))
    run.check(c in forms, "C12.METER", gm.qual, "grid meter = the meter that is the only successor of the grid",
              "`is_grid_meter` is not `a METER whose single predecessor is the GRID and which is that grid's only "
              "successor` (e.g. only *meter* successors counted, `>= 1`, another predecessor category): with several "
              "grid successors a dedicated device meter would be classed as grid meter — it then drops out of its "
              "device chain and the no-grid-meter consumer formula counts its reading as consumption",
              node=gm.node, file=gm.file)
    fg = prog.cls(f"{GEN}._formula_generator:FormulaGenerator")
    if cx.R["_is_primary_fallback_pair"] is not None:
        pf = fg.methods[cx.R["_is_primary_fallback_pair"]]
        run.analysed(pf.qual)
        c, _e = cx.predicate(pf)  # %1 = primary candidate, %2 = fallback candidate (by position)
        ok_pf = c == pair_form("%1", "%2")
    else:
        # inlined into the pairing loop: the test there must be this very predicate (see pairing_ok)
        pf = cx.prep(fg.methods[cx.R["_get_metric_fallback_components"]])  # type: ignore[index]
        ok_pf = pairing_ok(cx, pf)
    run.check(ok_pf, "C12.METER", pf.qual, "each leaf kind paired with its own meter kind",
              "a device is paired as fallback with a meter of another kind (or a kind is missing)", node=pf.node, file=pf.file)
    mf = fg.methods[cx.R["_get_meter_fallback_components"]]
    run.analysed(mf.qual)
    e = cx.norm(cx.folder.ret_expr(mf), pmap(mf))
    want_mf = ("or", frozenset(("all", SUCC, ("truthy", f"GRAPH.{leaf}(?0)")) for leaf in KINDS.values()))
    ok = False
    if isinstance(e, ast.IfExp):
        if is_empty_set(e.orelse):
            ok = bcanon(e.test) == want_mf and txt(e.body) == SUCC
        elif is_empty_set(e.body):
            ok = bcanon(e.test, True) == want_mf and txt(e.orelse) == SUCC
    run.check(ok, "C12.METER", mf.qual, "fallback components only when all successors are of ONE device kind",
              "a meter gets its successors as fallback unless they are *all of one* device kind: with the four "
              "alternatives folded into one `all(a or b or c or d)` a mixed meter (several device kinds plus "
              "unmetered load) would fall back to the sum of its devices and silently drop the load",
              node=mf.node, file=mf.file)
    # what the function asserts about its argument is exactly what its caller established (checked below)
    asserts = [bcanon(cx.norm(a.test, pmap(mf))) for a in ast.walk(mf.node) if isinstance(a, ast.Assert)]
    run.check(all(a == ("==", frozenset({"%1.category", METER})) for a in asserts), "C12.METER", mf.qual,
              "asserts only that its argument is a meter",
              "`_get_meter_fallback_components` asserts something its caller does not guarantee: the fallback "
              "lookup (hence formula generation) fails for every meter", node=mf.node, file=mf.file)
    mfc = cx.prep(fg.methods[cx.R["_get_metric_fallback_components"]])
    run.analysed(mfc.qual)
    run.check(pairing_ok(cx, mfc), "C12.METER", mfc.qual,
              "meters -> their fallbacks; devices -> their single metering predecessor (when it may stand in), else own empty entry",
              "primary/fallback selection does not pair a device with its single predecessor meter whenever the pairing "
              "predicate holds (and, where tested, all that meter's successors are requested), or does not record the device "
              "as its own primary without fallbacks otherwise", node=mfc.node, file=mfc.file)


def pair_form(primary: str, fallback: str) -> Any:
    """Canonical `primary/fallback pair`: some device kind's leaf holds of the fallback and that kind's dedicated
    meter predicate holds of the primary."""
    return ("or", frozenset(("and", frozenset({("truthy", f"GRAPH.{leaf}({fallback})"), ("truthy", f"GRAPH.is_{kind}_meter({primary})")}))
                            for kind, leaf in KINDS.items()))


def pairing_ok(cx: Ctx, fn: FuncInfo) -> bool:
    """_get_metric_fallback_components, decided on the CFG of one loop iteration:
    on `category == METER` the result maps the component to `_get_meter_fallback_components(component)` and
    nothing else happens; otherwise the component is added to the entry of *the popped single predecessor*
    only when `len(predecessors) == 1` and `_is_primary_fallback_pair(predecessor, component)` hold — and
    whenever they hold, unless a further condition that only withholds the meter fails: the one the F24 repair
    added, `successors(predecessor) is a subset of the requested components` (any spelling, see `subset_fact`;
    that it is *there* is C19.COVER's demand, not this rule's) — and gets an own empty entry on every other path,
    in particular where that subset condition is known to fail.  The predecessor lookup, the pair test and the
    subset test may live in a helper / closure that returns `the primary or None`: the key the device is filed
    under is then read given the facts established on the way to the filing statement, and a key that is the
    predecessor only given the subset condition must be reached only over an edge that established it."""
    cfg = CFG(fn.node, fn.file)
    defs = cx.defs(fn)
    if len(fn.params) != 2:
        return False
    heads = [n for n in cfg.nodes if n.kind == "for" and isinstance(n.ast.target, ast.Name)  # type: ignore[union-attr]
             and txt(deref(n.ast.iter, defs)) == fn.params[1]]  # type: ignore[union-attr]
    rets = [n.ast.value for n in cfg.nodes if n.kind == "stmt" and isinstance(n.ast, ast.Return)]
    if len(heads) != 1 or not rets or not all(isinstance(r, ast.Name) for r in rets) or len({r.id for r in rets}) != 1:  # type: ignore[union-attr]
        return False
    res = rets[0].id  # type: ignore[union-attr]
    if res not in defs or txt(defs[res]) not in ("{}", "dict()"):
        return False
    h = heads[0].id
    x = heads[0].ast.target.id  # type: ignore[union-attr]
    entry = [m for m, lab in cfg.succ[h] if lab == "iter"]
    body = cfg.reachable(entry, avoid=[h] + [m for m, lab in cfg.succ[h] if lab == "done"], edge_ok=normal)
    val = lambda e: cx.value(fn, defs, e)  # noqa: E731
    pred = f"GRAPH.predecessors({x}.component_id)"
    pops = (f"{pred}.pop()", f"next(iter({pred}))")

    def stmts(test: Callable[[ast.AST], bool]) -> set[int]:
        return {n for n in body if cfg.nodes[n].kind == "stmt" and cfg.nodes[n].ast is not None and test(cfg.nodes[n].ast)}  # type: ignore[arg-type]

    def assigns_entry(s: ast.AST, value_ok: Callable[[ast.AST], bool]) -> bool:
        return isinstance(s, ast.Assign) and len(s.targets) == 1 and txt(val(s.targets[0])) == f"{res}[{x}]" and value_ok(val(s.value))

    pair_fn, meter_fn = cx.R["_is_primary_fallback_pair"], cx.R["_get_meter_fallback_components"]
    n_mf = stmts(lambda s: assigns_entry(s, lambda v: txt(v) == f"self.{meter_fn}({x})"))
    n_own = stmts(lambda s: assigns_entry(s, is_empty_set))
    # the key the device is filed under is read *given* what the rules below establish on the way to that
    # statement (single predecessor, primary/fallback pair): an optional "primary or None" value resolves
    pair_atoms = {("truthy", f"self.{pair_fn}({q}, {x})") for q in pops} if pair_fn is not None else {pair_form(q, x) for q in pops}
    given = {("==", frozenset({"1", f"len({pred})"}))} | pair_atoms
    adds = {f"{res}.setdefault({q}, set()).add({x})" for q in pops}
    # ... and, since the F24 repair, one further condition may restrict WHEN the meter stands in for the device: every
    # successor of that predecessor is among the requested components (the function's argument), in any spelling
    meter_succ = {f"GRAPH.successors({q}.component_id)" for q in pops}

    def built_once(e: ast.AST) -> ast.AST:
        """A local bound once to a fresh collection (`ids = {c.component_id for c in components}`) that nothing in the
        function changes afterwards, read as that collection."""
        if not (isinstance(e, ast.Name) and e.id in defs):
            return e
        name = e.id
        for n in ast.walk(fn.node):
            if isinstance(n, ast.Call) and isinstance(n.func, ast.Attribute) and txt(n.func.value) == name and n.func.attr in MUTATORS:
                return e
            if isinstance(n, (ast.AugAssign, ast.Delete)) and any(txt(t) == name or (isinstance(t, ast.Subscript) and txt(t.value) == name)
                                                                   for t in ([n.target] if isinstance(n, ast.AugAssign) else n.targets)):
                return e
            if isinstance(n, ast.Assign) and any(isinstance(t, ast.Subscript) and txt(t.value) == name for t in n.targets):
                return e
        return cx.norm(deref(e, defs, containers=True))

    def covered(a: Any) -> bool | None:
        return subset_fact(a, lambda t: t in meter_succ, lambda t: t == fn.params[1], expand=built_once)

    n_add0 = stmts(lambda s: isinstance(s, ast.Expr) and txt(simplify_under(val(s.value), given)) in adds)
    n_add = stmts(lambda s: isinstance(s, ast.Expr) and txt(simplify_under(val(s.value), given, lambda a: covered(a) is True)) in adds)
    meter = ("==", frozenset({f"{x}.category", METER}))
    e_m = edges_establishing(cfg, lambda a: a == meter, val, within=body)
    e_nm = edges_establishing(cfg, lambda a: a == ("!=", meter[1]), val, within=body)
    e_pair = edges_establishing(cfg, lambda a: a in pair_atoms, val, within=body)
    e_len = edges_establishing(cfg, lambda a: a == ("==", frozenset({"1", f"len({pred})"})), val, within=body)
    e_cov = edges_establishing(cfg, lambda a: covered(a) is True, val, within=body)
    e_ncov = edges_establishing(cfg, lambda a: covered(a) is False, val, within=body)
    t_pair = {e[0] for e in e_pair}
    if not (n_mf and n_own and n_add and e_m and e_nm and e_pair and e_len):
        return False
    # every component is looked at: an iteration ends at the loop header, never leaves the loop
    if not all(m in body or m == h for x in body for m, lab in cfg.succ[x] if normal(x, m, lab)):
        return False

    def after(m: int) -> set[int]:
        return cfg.reachable([m], avoid=[h], edge_ok=normal)

    def must_pass(m: int, through: set[int]) -> bool:
        return m in through or cfg.path(m, [h], avoid=through, edge_ok=normal) is None

    for _t, m, _lab in e_m:  # a meter: its fallbacks, nothing else
        if not must_pass(m, n_mf) or after(m) & (n_add | n_own | t_pair):
            return False
    if path_avoiding_edges(cfg, entry, n_mf, e_m, avoid=[h]):
        return False
    for _t, m, _lab in e_nm:  # a device: exactly one of "joins its meter" / "own empty entry"
        if not must_pass(m, n_add | n_own) or after(m) & n_mf:
            return False
    if path_avoiding_edges(cfg, entry, n_add | n_own | t_pair, e_nm, avoid=[h]):
        return False
    if path_avoiding_edges(cfg, entry, n_add, e_pair, avoid=[h]):
        return False
    # the pair is only asked about a *single* predecessor: established together with, or after, `len == 1`
    if any(e not in e_len and path_avoiding_edges(cfg, entry, [e[0]], e_len, avoid=[h]) for e in e_pair):
        return False
    for _t, m, _lab in e_pair:
        # once the pair is established the device joins its meter — unless the subset condition is then found to fail
        if m not in n_add and path_avoiding_edges(cfg, [m], [h], e_ncov, avoid=n_add):
            return False
        if path_avoiding_edges(cfg, [m], n_own, e_ncov, avoid=[h]):
            return False
    # ... and nothing but the subset condition may withhold it: a test that establishes the pair establishes, besides,
    # only what the pairing itself needs (a single predecessor, which is not None; a non-meter device)
    len1 = ("==", frozenset({"1", f"len({pred})"}))

    def needed(a: Any) -> bool:
        return a in pair_atoms or a == len1 or covered(a) is True or a == ("!=", meter[1]) \
            or a in {("isnot", frozenset({"None", q})) for q in pops} or a in {("truthy", q) for q in pops} \
            or a in (("truthy", pred), ("nonempty", pred))

    for edge, test, neg in test_edges(cfg, body):
        if edge in e_pair and not all(needed(a) for a in facts(bcanon(val(test), neg))):
            return False
    # the requested-set condition only ever *withholds* the meter: a key that is the predecessor only given that
    # condition is used only where it was established, and where it is known to fail the device is its own primary
    # with no fallbacks (never filed under the meter, never under `None`)
    if n_add - n_add0 and path_avoiding_edges(cfg, entry, n_add - n_add0, e_cov, avoid=[h]):
        return False
    for _t, m, _lab in e_ncov:
        if not must_pass(m, n_own) or after(m) & n_add:
            return False
    return True


# ------------------------------------------------------------------------------------------------
def check_dfs(run: Run, cx: Ctx) -> None:
    fn = cx.prep(cx.prog.func(f"{CG}.dfs"))
    run.analysed(fn.qual)
    cfg = CFG(fn.node, fn.file)
    defs = cx.defs(fn)
    cur, vis, cond = fn.params[1:4]
    val = lambda e: deref(e, defs)  # noqa: E731
    returns = {n.id for n in cfg.nodes if n.kind == "stmt" and isinstance(n.ast, ast.Return)}

    def defs_via(nid: int, name: str, m: int) -> list[int]:
        """Definitions of `name` that reach `nid` on paths through `m` (the first node after a branch)."""
        region = cfg.reachable([m], edge_ok=normal)
        out: list[int] = []
        seen = {nid}
        stack = [nid]
        while stack:
            n = stack.pop()
            if n == m:
                out.extend(d for d in reaching_defs(cfg, m, name) if d not in out)
                continue
            for p, lab in cfg.pred[n]:
                if p in seen or p not in region or lab.startswith("exc:"):
                    continue
                seen.add(p)
                if any(txt(w) == name for w in node_writes(cfg, p)):
                    out.append(p)
                else:
                    stack.append(p)
        return out

    def ret_value_ok(nid: int, ok: Callable[[ast.AST], bool], m: int) -> bool:
        """The returned value satisfies `ok`, directly or through every definition that reaches the return
        on the paths through `m`."""
        v = cfg.nodes[nid].ast.value  # type: ignore[union-attr]
        if v is None:
            return False
        if ok(val(v)):
            return True
        if isinstance(v, ast.Name):
            ds = defs_via(nid, v.id, m)
            return bool(ds) and all(isinstance(cfg.nodes[d].ast, (ast.Assign, ast.AnnAssign)) and cfg.nodes[d].ast.value is not None  # type: ignore[union-attr]
                                    and ok(val(cfg.nodes[d].ast.value)) for d in ds)  # type: ignore[union-attr]
        return False

    def returns_only(m: int, ok: Callable[[ast.AST], bool]) -> bool:
        region = cfg.reachable([m], edge_ok=normal)
        rs = region & returns
        return bool(rs) and all(ret_value_ok(r, ok, m) for r in rs) and (m in rs or cfg.path(m, [cfg.exit], avoid=rs, edge_ok=normal) is None)

    def singleton(v: ast.AST) -> bool:
        return txt(v) in ("{" + cur + "}", f"set([{cur}])", f"set(({cur},))")

    def is_mark(s: ast.AST) -> bool:
        if isinstance(s, ast.Expr) and isinstance(s.value, ast.Call):
            c = s.value
            return (method_call(c, vis, "add") and [txt(a) for a in c.args] == [cur] and not c.keywords) or \
                (method_call(c, vis, "update") and len(c.args) == 1 and singleton(c.args[0]) and not c.keywords)
        return isinstance(s, ast.AugAssign) and txt(s.target) == vis and isinstance(s.op, ast.BitOr) and singleton(s.value)

    rec = nodes_with_call(cfg, lambda c: method_call(c, "self", "dfs"))
    mark = [n.id for n in cfg.nodes if n.kind == "stmt" and n.ast is not None and is_mark(n.ast)]
    hits = edges_establishing(cfg, lambda a: a == ("truthy", f"{cond}({cur})"), val)
    ok = len({e[0] for e in hits}) == 1 and bool(rec) and len(mark) == 1
    if ok:
        for _t, m, _lab in hits:
            region = cfg.reachable([m], edge_ok=normal)
            ok = ok and not any(r in region for r in rec) and returns_only(m, singleton)
    run.check(ok, "C12.DFS", fn.qual, "match -> return {node} without recursing",
              "the search recurses below a matching node (or does not return it): components behind a "
              "matched meter would be counted in addition to the meter", node=fn.node, file=fn.file)
    if not ok:
        return
    t_hit = hits[0][0]
    wit = cfg.path(cfg.entry, [t_hit], avoid=mark, edge_ok=normal)
    run.check(wit is None, "C12.DFS", fn.qual, "visited marked before testing", "a node can be tested twice",
              node=fn.node, file=fn.file, path=cfg.describe_path(wit))
    loops = [h for h in cfg.nodes if h.kind == "for"]
    ok = len(loops) == 1 and isinstance(loops[0].ast.target, ast.Name) \
        and txt(val(loops[0].ast.iter)) == f"self.successors({cur}.component_id)"  # type: ignore[union-attr]
    if ok:
        h = loops[0].id
        succ = loops[0].ast.target.id  # type: ignore[union-attr]
        entry = [m for m, lab in cfg.succ[h] if lab == "iter"]
        body = cfg.reachable(entry, avoid=[h] + [m for m, lab in cfg.succ[h] if lab == "done"], edge_ok=normal)
        ok = not any(cfg.nodes[x].kind in ("test", "while", "for") or isinstance(cfg.nodes[x].ast, (ast.Break, ast.Continue, ast.Return))
                     for x in body)
        calls = [c for r in rec if r in body for c in node_calls(cfg, r, lambda c: method_call(c, "self", "dfs"))]
        ok = ok and len(calls) == 1 and all(r in body for r in rec)
        if ok:
            args = call_args(calls[0], fn.params[1:4])
            ok = args is not None and [txt(val(args.get(p))) if args.get(p) is not None else None for p in fn.params[1:4]] == [succ, vis, cond]
        if ok:
            rtxt = txt(val(calls[0]))

            def accumulates(s: ast.AST) -> str | None:
                """Name of the set the statement unions the recursive result into."""
                if isinstance(s, ast.Expr) and isinstance(s.value, ast.Call) and isinstance(s.value.func, ast.Attribute) \
                        and s.value.func.attr == "update" and isinstance(s.value.func.value, ast.Name) \
                        and [txt(val(a)) for a in s.value.args] == [rtxt] and not s.value.keywords:
                    return s.value.func.value.id
                if isinstance(s, ast.AugAssign) and isinstance(s.target, ast.Name) and isinstance(s.op, ast.BitOr) and txt(val(s.value)) == rtxt:
                    return s.target.id
                if isinstance(s, ast.Assign) and len(s.targets) == 1 and isinstance(s.targets[0], ast.Name):
                    a, v = s.targets[0].id, s.value
                    if isinstance(v, ast.BinOp) and isinstance(v.op, ast.BitOr) and {txt(val(v.left)), txt(val(v.right))} == {a, rtxt}:
                        return a
                    if isinstance(v, ast.Call) and isinstance(v.func, ast.Attribute) and v.func.attr == "union" and len(v.args) == 1 \
                            and not v.keywords and {txt(val(v.func.value)), txt(val(v.args[0]))} == {a, rtxt}:
                        return a
                return None

            accs = {x: accumulates(cfg.nodes[x].ast) for x in body if cfg.nodes[x].kind == "stmt" and cfg.nodes[x].ast is not None}  # type: ignore[arg-type]
            accs = {x: a for x, a in accs.items() if a is not None}
            ok = len(accs) == 1
            if ok:
                (an, acc), = accs.items()
                ok = all(e == an or cfg.path(e, [h], avoid=[an], edge_ok=normal) is None for e in entry)
                # starts empty, and is what the function returns once every successor has been searched
                init = [d for d in reaching_defs(cfg, h, acc) if d not in body]
                ok = ok and bool(init) and all(isinstance(cfg.nodes[d].ast, (ast.Assign, ast.AnnAssign)) and is_empty_set(cfg.nodes[d].ast.value)  # type: ignore[union-attr]
                                               for d in init)
                done = [m for m, lab in cfg.succ[h] if lab == "done"]
                ok = ok and bool(done) and all(returns_only(m, lambda v: txt(v) == acc) for m in done)
    if not loops:
        # the accumulation loop written as a comprehension: every return on the no-match side is the union of the
        # recursive search over all successors
        def union_of_recursion(v: ast.AST) -> bool:
            u3 = union_over(v)
            if u3 is None or txt(val(u3[0])) != f"self.successors({cur}.component_id)":
                return False
            call = u3[2]
            if not (isinstance(call, ast.Call) and method_call(call, "self", "dfs")):
                return False
            a = call_args(call, fn.params[1:4])
            return a is not None and [txt(val(a[p])) if p in a else None for p in fn.params[1:4]] == [u3[1], vis, cond]

        others = [(t, m, lab) for t in {e[0] for e in hits} for m, lab in cfg.succ[t] if lab in ("true", "false") and (t, m, lab) not in hits]
        ok = bool(others) and all(returns_only(m, union_of_recursion) for _t, m, _lab in others)
    run.check(ok, "C12.DFS", fn.qual, "recurse into every successor with the same visited set and condition",
              "the search skips successors or changes the condition/visited set while recursing", node=fn.node, file=fn.file)
    seen = edges_establishing(cfg, lambda a: a == ("in", cur, vis), val)
    ok = len({e[0] for e in seen}) == 1
    for _t, m, _lab in seen:
        region = cfg.reachable([m], edge_ok=normal)
        ok = ok and not any(r in region for r in rec) and returns_only(m, is_empty_set)
    run.check(ok, "C12.DFS", fn.qual, "already visited -> empty", "revisiting is not cut off", node=fn.node, file=fn.file)


# ------------------------------------------------------------------------------------------------
def is_call_attr(c: ast.Call, attr: str) -> bool:
    return isinstance(c.func, ast.Attribute) and c.func.attr == attr


def union_over(e: ast.AST) -> tuple[ast.AST, str, ast.AST] | None:
    """`set().union(*(f(x) for x in S))` / `{m for x in S for m in f(x)}`  ->  (S, x, f(x)): the union of f over
    *every* element of S (no filter), which is what an accumulation loop `acc |= f(x)` computes."""
    if isinstance(e, ast.Call) and isinstance(e.func, ast.Attribute) and e.func.attr == "union" and is_empty_set(e.func.value) \
            and len(e.args) == 1 and isinstance(e.args[0], ast.Starred) and not e.keywords:
        comp = e.args[0].value
        if isinstance(comp, (ast.GeneratorExp, ast.ListComp, ast.SetComp)) and len(comp.generators) == 1:
            g = comp.generators[0]
            if isinstance(g.target, ast.Name) and not g.ifs and not g.is_async:
                return g.iter, g.target.id, comp.elt
    # functools.reduce(set.union / operator.or_ / lambda a, b: a | b, (f(x) for x in S), set())
    # set(itertools.chain.from_iterable(f(x) for x in S))  /  set(chain(*(f(x) for x in S)))
    comp = None
    if isinstance(e, ast.Call) and txt(e.func) in ("functools.reduce", "reduce") and len(e.args) == 3 and not e.keywords \
            and is_empty_set(e.args[2]) and (txt(e.args[0]) in ("set.union", "operator.or_", "or_", "frozenset.union") or (
                isinstance(e.args[0], ast.Lambda) and len(e.args[0].args.args) == 2 and isinstance(e.args[0].body, ast.BinOp)
                and isinstance(e.args[0].body.op, ast.BitOr)
                and {txt(e.args[0].body.left), txt(e.args[0].body.right)} == {a.arg for a in e.args[0].args.args})):
        comp = e.args[1]
    elif isinstance(e, ast.Call) and isinstance(e.func, ast.Name) and e.func.id in ("set", "frozenset") and len(e.args) == 1 and not e.keywords \
            and isinstance(e.args[0], ast.Call) and not e.args[0].keywords and len(e.args[0].args) == 1:
        inner = e.args[0]
        if txt(inner.func) in ("itertools.chain.from_iterable", "chain.from_iterable"):
            comp = inner.args[0]
        elif txt(inner.func) in ("itertools.chain", "chain") and isinstance(inner.args[0], ast.Starred):
            comp = inner.args[0].value
    if isinstance(comp, (ast.GeneratorExp, ast.ListComp, ast.SetComp)) and len(comp.generators) == 1:
        g = comp.generators[0]
        if isinstance(g.target, ast.Name) and not g.ifs and not g.is_async:
            return g.iter, g.target.id, comp.elt
    if isinstance(e, ast.SetComp) and len(e.generators) == 2:
        g0, g1 = e.generators
        if all(isinstance(g.target, ast.Name) and not g.ifs and not g.is_async for g in (g0, g1)) and txt(e.elt) == txt(g1.target):
            return g0.iter, g0.target.id, g1.iter  # type: ignore[union-attr]
    return None


ORDER_ONLY = ("sorted", "list", "tuple", "reversed", "set", "frozenset")


def unwrap(e: ast.AST) -> ast.AST:
    """`sorted(x)`, `list(x)`, ... -> x everywhere in `e` (on a copy): same elements, same emptiness."""
    class U(ast.NodeTransformer):
        def visit_Call(self, node: ast.Call) -> ast.AST:  # noqa: N802
            self.generic_visit(node)
            if isinstance(node.func, ast.Name) and node.func.id in ORDER_ONLY and len(node.args) == 1 \
                    and all(k.arg in ("key", "reverse") for k in node.keywords):
                return node.args[0]
            return node

    import copy
    return U().visit(copy.deepcopy(e))


def loop_source(cx: Ctx, fn: FuncInfo, defs: dict[str, ast.AST], it: ast.AST) -> tuple[ast.AST, bool]:
    """The collection a sum loop ranges over (`enumerate`, `.items()`/`.keys()` and the fallback-formula
    lookup peeled off) and whether the loop variable comes with an enumerate index."""
    e = cx.value(fn, defs, it)
    enumerated = False
    if isinstance(e, ast.Call) and isinstance(e.func, ast.Name) and e.func.id == "enumerate" and len(e.args) == 1 \
            and (not e.keywords or ([k.arg for k in e.keywords] == ["start"] and txt(e.keywords[0].value) == "0")):
        enumerated, e = True, e.args[0]
    if isinstance(e, ast.Call) and isinstance(e.func, ast.Attribute) and e.func.attr in ("items", "keys") and not e.args and not e.keywords:
        e = e.func.value
    if isinstance(e, ast.Call) and isinstance(e.func, ast.Attribute) and txt(e.func.value) == "self" and e.func.attr in cx.feeders \
            and len(e.args) == 1 and not e.keywords:
        e = e.args[0]  # the per-component lookup (fallback formulas) keyed by the components passed in
    elif isinstance(e, ast.Call) and txt(e.func) == "dict.fromkeys" and len(e.args) in (1, 2) and not e.keywords:
        e = e.args[0]  # a mapping keyed by exactly the elements of the collection (terms without a fallback)
    elif isinstance(e, ast.DictComp) and len(e.generators) == 1 and not e.generators[0].ifs and not e.generators[0].is_async \
            and isinstance(e.key, ast.Name) and txt(e.key) == txt(e.generators[0].target):
        e = e.generators[0].iter
    return unwrap(e), enumerated


def reaching_value(cfg: CFG, at: int, expr: ast.AST, defs: dict[str, ast.AST], depth: int = 3) -> ast.AST:
    """`expr` as read at CFG node `at`, with the locals that are bound more than once in the function (so that the
    single-assignment table does not know them: e.g. one helper spliced into both arms of a branch, a local reused
    for the next sum) replaced by the one plain assignment that reaches `at` — provided everything that assignment
    reads is bound at most once or resolved in the same way where the assignment stands.  Otherwise left alone."""
    import copy
    if depth <= 0:
        return expr
    written: dict[str, int] = {}
    for n in cfg.nodes:
        for w in node_writes(cfg, n.id):
            if isinstance(w, ast.Name):
                written[w.id] = written.get(w.id, 0) + 1
    out = copy.deepcopy(expr)
    bound_here = {t.id for n in ast.walk(out) if isinstance(n, ast.comprehension) for t in ast.walk(n.target) if isinstance(t, ast.Name)}
    subst: dict[str, ast.AST] = {}
    for n in ast.walk(out):
        if not (isinstance(n, ast.Name) and isinstance(n.ctx, ast.Load)) or n.id in defs or n.id in bound_here or written.get(n.id, 0) < 2:
            continue
        ds = reaching_defs(cfg, at, n.id)
        a = cfg.nodes[ds[0]].ast if len(ds) == 1 and cfg.nodes[ds[0]].kind == "stmt" else None
        v = None
        if isinstance(a, ast.Assign) and len(a.targets) == 1 and isinstance(a.targets[0], ast.Name) and a.targets[0].id == n.id:
            v = a.value
        elif isinstance(a, ast.AnnAssign) and isinstance(a.target, ast.Name) and a.target.id == n.id:
            v = a.value
        if v is None or any(isinstance(x, (ast.Await, ast.Yield, ast.YieldFrom, ast.NamedExpr, ast.Lambda)) for x in ast.walk(v)):
            continue
        v = reaching_value(cfg, ds[0], v, defs, depth - 1)
        inner = {t.id for c in ast.walk(v) if isinstance(c, ast.comprehension) for t in ast.walk(c.target) if isinstance(t, ast.Name)}
        if all(x.id in defs or x.id in inner or written.get(x.id, 0) <= 1 for x in ast.walk(v) if isinstance(x, ast.Name)):
            subst[n.id] = v
    if not subst:
        return out

    class S(ast.NodeTransformer):
        def visit_Name(self, node: ast.Name) -> ast.AST:  # noqa: N802
            if isinstance(node.ctx, ast.Load) and node.id in subst:
                return copy.deepcopy(subst[node.id])
            return node

    return ast.fix_missing_locations(S().visit(out))


def first_iteration_flag(cfg: CFG, h: int, body: set[int], entry: list[int]) -> tuple[str, bool, set[int]] | None:
    """(name, its value during the first iteration, the nodes that flip it) of a boolean local that is a constant
    before the loop and holds the opposite constant at the end of every iteration: on every path it is either set to
    that constant or was just tested to hold it already (`if first: first = False` / `else: ...`)."""
    flips: dict[str, list[tuple[int, bool]]] = {}
    other_writes: set[str] = set()
    for n in body:
        a = cfg.nodes[n].ast
        simple = cfg.nodes[n].kind == "stmt" and isinstance(a, ast.Assign) and len(a.targets) == 1 and isinstance(a.targets[0], ast.Name)
        if not simple:
            other_writes |= {w.id for w in node_writes(cfg, n) if isinstance(w, ast.Name)}
    for n in body:
        a = cfg.nodes[n].ast
        if cfg.nodes[n].kind == "stmt" and isinstance(a, ast.Assign) and len(a.targets) == 1 and isinstance(a.targets[0], ast.Name):
            v = a.value.value if isinstance(a.value, ast.Constant) and isinstance(a.value.value, bool) else None
            flips.setdefault(a.targets[0].id, []).append((n, v))  # type: ignore[arg-type]
    for name, sets in sorted(flips.items()):
        vals = {v for _n, v in sets}
        if len(vals) != 1 or None in vals or name in other_writes:
            continue
        later = next(iter(vals))
        nodes = {n for n, _v in sets}
        init = [d for d in reaching_defs(cfg, h, name) if d not in body]
        if not init or not all(isinstance(cfg.nodes[d].ast, (ast.Assign, ast.AnnAssign)) and isinstance(cfg.nodes[d].ast.value, ast.Constant)  # type: ignore[union-attr]
                               and cfg.nodes[d].ast.value.value is (not later) for d in init):  # type: ignore[union-attr]
            continue
        # edges on which the flag itself was tested and found to hold the later value (every write in the iteration
        # writes that same value, so it still holds at the header)
        atom = ("truthy", name) if later else ("not", ("truthy", name))
        known = edges_establishing(cfg, lambda a, atom=atom: a == atom, lambda t: t, within=body, total=True)
        if not path_avoiding_edges(cfg, [e for e in entry if e not in nodes], [h], known, avoid=nodes):
            return name, not later, nodes
    return None


def check_emit(run: Run, cx: Ctx) -> None:
    prog = cx.prog
    canonical = {v: k for k, v in cx.R.items() if v}
    targets = [
        f"{GEN}._grid_power_formula_base:GridPowerFormulaBase.{cx.R['_generate']}",
        f"{GEN}._consumer_power_formula:ConsumerPowerFormula.{cx.R['_gen_with_grid_meter']}",
        f"{GEN}._consumer_power_formula:ConsumerPowerFormula.{cx.R['_gen_without_grid_meter']}",
        f"{GEN}._producer_power_formula:ProducerPowerFormula.generate",
        f"{GEN}._pv_power_formula:PVPowerFormula.generate",
        f"{GEN}._battery_power_formula:BatteryPowerFormula.generate",
        f"{GEN}._ev_charger_power_formula:EVChargerPowerFormula.generate",
        f"{GEN}._chp_power_formula:CHPPowerFormula.generate",
    ]
    CONST_TRUE_OK = {"BatteryPowerFormula.generate": "ranges over battery inverters only",
                     "EVChargerPowerFormula.generate": "ranges over EV chargers only"}
    CONST_FALSE_OK = {"CHPPowerFormula.generate": "ranges over CHP meters only",
                      "ConsumerPowerFormula._gen_with_grid_meter": "the `+` loop ranges over the grid meters only"}
    n = 0
    sources: dict[str, list[tuple[str, str]]] = {}  # function -> [(sign, text of the collection summed)]
    source_nodes: dict[str, list[ast.AST]] = {}
    for q in targets:
        fn = cx.prep(prog.func(q))
        run.analysed(fn.qual)
        short = q.split(":")[1]
        if short.split(".")[1] in canonical:  # tables and instance labels are keyed by the role, not the current name
            short = short.split(".")[0] + "." + canonical[short.split(".")[1]]
        cfg = CFG(fn.node, fn.file)
        defs = cx.defs(fn)
        parents = parent_map(fn.node)
        val = lambda e, fn=fn, defs=defs: cx.value(fn, defs, e)  # noqa: E731
        loops: list[ast.For] = []
        for c in ast.walk(fn.node):
            if isinstance(c, ast.Call) and (is_call_attr(c, "push_component_metric") or is_call_attr(c, "push_oper")):
                p = parents.get(c)
                while p is not None and not isinstance(p, (ast.For, ast.AsyncFor, ast.While)):
                    p = parents.get(p)
                if isinstance(p, ast.For) and not any(p is x for x in loops):
                    loops.append(p)
        loops.sort(key=lambda s: s.lineno)
        heads: list[int] = []
        for k, loop in enumerate(loops):
            n += 1
            hs = cfg.nodes_of(loop)
            if len(hs) != 1:
                raise AnalysisError(f"{fn.qual}: sum loop at line {loop.lineno} has no unique CFG node")
            h = hs[0]
            heads.append(h)
            entry = [m for m, lab in cfg.succ[h] if lab == "iter"]
            body = cfg.reachable(entry, avoid=[h] + [m for m, lab in cfg.succ[h] if lab == "done"], edge_ok=normal)
            # the iteration must end at the loop header (no break / return out of a half-emitted term)
            closed = all(m in body or m == h for x in body for m, lab in cfg.succ[x] if normal(x, m, lab))
            m_nodes = [x for x in body if node_calls(cfg, x, lambda c: is_call_attr(c, "push_component_metric"))]
            o_nodes = [x for x in body if node_calls(cfg, x, lambda c: is_call_attr(c, "push_oper"))]
            metrics = [c for x in m_nodes for c in node_calls(cfg, x, lambda c: is_call_attr(c, "push_component_metric"))]
            opers = [c for x in o_nodes for c in node_calls(cfg, x, lambda c: is_call_attr(c, "push_oper"))]

            def oper_of(c: ast.Call) -> str | None:
                a = call_args(c, ["oper"])
                v = val(a["oper"]) if a and "oper" in a else None
                return v.value if isinstance(v, ast.Constant) and isinstance(v.value, str) else None

            signs = [oper_of(c) for c in opers]
            walked = reaching_value(cfg, h, loop.iter, defs)
            src, enumerated = loop_source(cx, fn, defs, walked)
            idx = None
            if enumerated and isinstance(loop.target, ast.Tuple) and len(loop.target.elts) == 2 and isinstance(loop.target.elts[0], ast.Name):
                idx = loop.target.elts[0].id
            # exactly one metric per iteration, on every path, not inside an inner loop
            one_metric = closed and len(m_nodes) == 1 and len(metrics) == 1 and cfg.nodes[m_nodes[0]].kind == "stmt" \
                and all(e == m_nodes[0] or cfg.path(e, [h], avoid=m_nodes, edge_ok=normal) is None for e in entry) \
                and m_nodes[0] not in cfg.reachable([m_nodes[0]], avoid=[h], edge_ok=normal, include_src=False)
            subtract = bool(signs) and all(s == "-" for s in signs)
            ok = one_metric and len(o_nodes) == 1 and len(opers) == 1 and cfg.nodes[o_nodes[0]].kind == "stmt" and o_nodes[0] != m_nodes[0]
            if ok:
                mn, on = m_nodes[0], o_nodes[0]
                ok = on not in cfg.reachable([mn], avoid=[h], edge_ok=normal, include_src=False)  # never after the term
            if subtract:
                shape = "`-` before every subtracted term"
                if ok:
                    ok = all(e == on or cfg.path(e, [mn], avoid=[on], edge_ok=normal) is None for e in entry)
            else:
                shape = "`+` before every term but the first"
                flag = first_iteration_flag(cfg, h, body, entry) if idx is None else None
                ok = ok and signs == ["+"] and (idx is not None or flag is not None)
                if ok:
                    if idx is not None:
                        later = {("<", "0", idx), ("<=", "1", idx), ("!=", frozenset({idx, "0"})), ("truthy", idx)}
                        first = {("==", frozenset({idx, "0"})), ("<", idx, "1"), ("<=", idx, "0"), ("not", ("truthy", idx))}
                    else:
                        # a boolean local that is set once per iteration: its value before that tells the first
                        # iteration (initial value) from every later one
                        assert flag is not None
                        f_true, f_false = ("truthy", flag[0]), ("not", ("truthy", flag[0]))
                        first, later = ({f_true}, {f_false}) if flag[1] else ({f_false}, {f_true})
                    e_later = edges_establishing(cfg, lambda a: a in later, val, within=body, total=True)
                    e_first = edges_establishing(cfg, lambda a: a in first, val, within=body, total=True)
                    if idx is not None:
                        # the index is never rebound inside the iteration
                        ok = not any(isinstance(x, ast.Name) and x.id == idx and isinstance(x.ctx, ast.Store) for s in loop.body for x in ast.walk(s))
                    else:
                        # the flag is read before it is flipped
                        ok = not any(cfg.path(a, [e[0]], avoid=[h], edge_ok=normal) is not None or a == e[0]
                                     for a in flag[2] for e in list(e_later) + list(e_first))
                    # the operator is pushed only for idx > 0, and then always, before the term; never for idx == 0
                    ok = ok and bool(e_later) and not path_avoiding_edges(cfg, entry, [on], e_later, avoid=[h])
                    ok = ok and not path_avoiding_edges(cfg, entry, [mn], list(e_later) + list(e_first), avoid=[h])
                    for _t, m, _lab in e_later:
                        # (within this iteration: a test that only follows the term, e.g. `if not started: started =
                        # True` at the end of the body, says nothing about the next iteration's operator)
                        ok = ok and (m == on or m == h or cfg.path(m, [mn], avoid=[on, h], edge_ok=normal) is None)
                    for _t, m, _lab in e_first:
                        ok = ok and on not in cfg.reachable([m], avoid=[h], edge_ok=normal)
            run.check(ok, "C12.EMIT", fn.qual, f"sum loop `{txt(loop.target)} in {txt(loop.iter)[:40]}`: {shape}",
                      "a sum-emitting loop does not push exactly one metric per term with an operator between "
                      "consecutive terms (a leading `+`, a missing operator or two metrics per term yields a "
                      "malformed or different formula)", node=loop, file=fn.file,
                      instance=f"{short}: sum loop #{k + 1} emits a well-formed sum")
            sources.setdefault(short, []).append(("-" if subtract else "+", txt(src)))
            source_nodes.setdefault(short, []).append(src)
            # every term once: what the loop ranges over cannot hold the same component twice
            unique = cx.dupfree.of(fn, val(walked))
            if unique is None:
                raise AnalysisError(f"{fn.qual}: cannot tell how the collection `{txt(loop.iter)[:60]}` summed at line {loop.lineno} is built")
            run.check(unique, "C12.EMIT", fn.qual, f"sum loop over `{txt(loop.iter)[:50]}`: duplicate-free by construction",
                      "the collection a sum loop ranges over is a list filled through a many-to-one map (e.g. the "
                      "predecessor meter of each device): a meter shared by several devices is pushed once per "
                      "device and the formula counts it several times (`#M + #M`)", node=loop, file=fn.file,
                      instance=f"{short}: sum loop #{k + 1} ranges over a duplicate-free collection")
            if not metrics:
                continue
            margs = call_args(metrics[0], cx.sigs["push_component_metric"]) or {}
            naz = margs.get("nones_are_zeros")
            cid = val(margs["component_id"]) if "component_id" in margs else None
            comp = txt(cid.value) if isinstance(cid, ast.Attribute) and cid.attr == "component_id" else None
            c = bcanon(val(naz)) if naz is not None else None
            t = txt(val(naz)) if naz is not None else ""
            ok = comp is not None and c == ("!=", frozenset({f"{comp}.category", METER}))
            why = ""
            if not ok and c == ("const", True) and short in CONST_TRUE_OK:
                ok, why = True, CONST_TRUE_OK[short]
            if not ok and c == ("const", False) and short in CONST_FALSE_OK and (
                    short != "ConsumerPowerFormula._gen_with_grid_meter" or (len(fn.params) == 3 and txt(src) == fn.params[2])):
                ok, why = True, CONST_FALSE_OK[short]
            run.check(ok, "C12.EMIT", fn.qual, f"nones_are_zeros={txt(naz)}",
                      f"a term's missing values are treated as `{t}` instead of `category != METER` (a silent "
                      "device counts as 0, a silent meter makes the sum unknown)", node=metrics[0], file=fn.file,
                      instance=f"{short}: sum loop #{k + 1}: nones_are_zeros is category != METER{(' (' + why + ')') if why else ''}")
        check_guards(run, cx, fn, cfg, defs, short, heads, [t for _s, t in sources.get(short, [])])
    for helper in cx.dupfree.followed:
        run.analysed(helper.qual)
        check_source_helper(run, cx, helper)
    if n < 10:
        raise AnalysisError(f"C12.EMIT: only {n} sum loops found")
    # grid power: every grid successor of the admissible categories
    gp = cx.prep(prog.func(targets[0]))
    defs = cx.defs(gp)
    srcs = {s for _sign, s in sources.get("GridPowerFormulaBase._generate", [])}
    ok = len(srcs) == 1
    sc: ast.AST | None = None
    home = gp
    if ok:
        # where the summed collection is built: a local of this function or of the private helper that returns it
        home, sc = collection_def(cx, gp, source_nodes["GridPowerFormulaBase._generate"][0])
        defs = cx.defs(home)
        ok = isinstance(sc, (ast.SetComp, ast.ListComp, ast.GeneratorExp)) and len(sc.generators) == 1 and not sc.generators[0].is_async \
            and isinstance(sc.generators[0].target, ast.Name)
    if ok:
        g = sc.generators[0]  # type: ignore[union-attr]
        v = g.target.id  # type: ignore[union-attr]
        cond = g.ifs[0] if len(g.ifs) == 1 else ast.BoolOp(op=ast.And(), values=list(g.ifs))
        ok = bool(g.ifs) and txt(cx.value(home, defs, g.iter)) == f"self.{cx.R['_get_grid_component_successors']}()" and txt(sc.elt) == v \
            and category_set(bcanon(cx.norm(deref(constant_tables(home, cond), defs, containers=True))), v) == {"INVERTER", "EV_CHARGER", "METER"}  # type: ignore[union-attr]
    run.check(ok, "C12.EMIT", gp.qual, "grid power = Σ over every grid successor that is a meter / inverter / EV charger",
              "grid power does not range over every measurable grid successor", node=gp.node, file=gp.file)
    # consumer with grid meter: the subtracted set is found from *every* grid meter
    gw = cx.prep(prog.func(targets[1]))
    run.check(subtracted_set_ok(cx, gw, sources.get("ConsumerPowerFormula._gen_with_grid_meter", [])), "C12.EMIT", gw.qual,
              "devices to subtract are searched below every grid meter",
              "devices below some grid meter are not subtracted from the consumer power", node=gw.node, file=gw.file)
    cgen = prog.func(f"{GEN}._consumer_power_formula:ConsumerPowerFormula.generate")
    run.analysed(cgen.qual)
    sel = cx.selection(cgen)
    gs = f"self.{cx.R['_get_grid_component_successors']}()"
    ok = sel is not None
    if sel is not None:
        test, a, b = sel
        if cx.R["_are_grid_meters"] is not None:
            ok = bcanon(test) == ("truthy", f"self.{cx.R['_are_grid_meters']}({gs})")
        # (an inlined test is judged as the first sibling predicate by C12.PART)
        ok = ok and isinstance(a, ast.Call) and method_call(a, "self", cx.R["_gen_with_grid_meter"]) and not a.keywords and len(a.args) == 2 \
            and isinstance(b, ast.Call) and method_call(b, "self", cx.R["_gen_without_grid_meter"]) and not b.keywords and len(b.args) == 2
        if ok:
            ok = txt(a.args[1]) == gs and txt(b.args[1]) == f"self.{cx.R['_get_grid_component']}()" and txt(a.args[0]) == txt(b.args[0])  # type: ignore[union-attr]
    run.check(ok, "C12.EMIT", cgen.qual, "grid meters present -> meters minus devices; else sum of consumers",
              "the consumer formula variant is not selected by `_are_grid_meters`", node=cgen.node, file=cgen.file)


# generators whose formula must exist (as a constant 0) when the graph has no device of their kind: the balance
# grid = consumer + producer + battery + EV needs every term as a stream (frozen table)
ZERO_WHEN_EMPTY = {"ConsumerPowerFormula._gen_without_grid_meter", "ProducerPowerFormula.generate", "PVPowerFormula.generate",
                   "BatteryPowerFormula.generate", "EVChargerPowerFormula.generate", "CHPPowerFormula.generate"}


def check_guards(run: Run, cx: Ctx, fn: FuncInfo, cfg: CFG, defs: dict[str, ast.AST], short: str,
                 heads: list[int], sources: list[str]) -> None:
    """What a generator does when a collection it sums / iterates is empty, decided on CFG edges:
      * a branch that only raises is taken for *emptiness* of an iterated collection, never for another size;
      * in the ZERO_WHEN_EMPTY generators: the placeholder term is emitted exactly on emptiness of the summed
        collection (or of the collection it is filled from), alone, with nones_are_zeros=True;
      * a summed mapping that starts empty is filled on every iteration of the loop that fills it, and (battery
        power) an inverter is entered only when all batteries behind it are requested."""
    val = lambda e: unwrap(cx.value(fn, defs, e))  # noqa: E731
    valc = lambda e: cx.norm(deref(e, defs, containers=True))  # noqa: E731
    fors = [n for n in cfg.nodes if n.kind == "for"]
    iterated = {txt(loop_source(cx, fn, defs, n.ast.iter)[0]) for n in fors} | set(sources)  # type: ignore[union-attr]

    def stores_into(node: ast.AST, name: str) -> list[ast.AST]:
        out: list[ast.AST] = []
        for x in ast.walk(node):
            if isinstance(x, ast.Assign) and any(isinstance(t, ast.Subscript) and txt(t.value) == name for t in x.targets):
                out.append(x)
            elif isinstance(x, ast.Call) and isinstance(x.func, ast.Attribute) and txt(x.func.value) == name \
                    and x.func.attr in ("add", "append", "update", "setdefault", "extend"):
                out.append(x)
        return out

    def filled_from(src: str) -> set[str]:
        """Collections whose elements a summed container is filled from (the loops that store into it)."""
        out = set()
        for n in fors:
            if stores_into(n.ast, src):  # type: ignore[arg-type]
                it = valc(n.ast.iter)  # type: ignore[union-attr]
                out |= {txt(x) for x in ast.walk(it) if isinstance(x, (ast.Name, ast.Attribute, ast.Call))}
        return out

    origins = {s: filled_from(s) for s in sources}
    placeholders = [n.id for n in cfg.nodes if n.kind == "stmt" and n.ast is not None and any(
        txt(val((call_args(c, cx.sigs["push_component_metric"]) or {}).get("component_id", ast.Constant(None)))) == "NON_EXISTING_COMPONENT_ID"
        for c in node_calls(cfg, n.id, lambda c: is_call_attr(c, "push_component_metric")))]
    opers = [n.id for n in cfg.nodes if n.ast is not None and node_calls(cfg, n.id, lambda c: is_call_attr(c, "push_oper"))]
    e_empty: list[tuple[int, int, str]] = []
    ok_raise = True
    # a summed / iterated collection that is *chosen* by a conditional expression (`a if c else b`) is one collection:
    # a truthiness / size test of it is read whole, not distributed over its two alternatives
    whole = set(iterated) | {o for os_ in origins.values() for o in os_}

    class Whole(ast.NodeTransformer):
        def visit_IfExp(self, node: ast.IfExp) -> ast.AST:  # noqa: N802
            if txt(node) in whole:
                return ast.copy_location(ast.Name(id=txt(node), ctx=ast.Load()), node)
            return self.generic_visit(node)

    def as_tested(test: ast.AST) -> ast.AST:
        import copy
        v = val(test)
        return Whole().visit(copy.deepcopy(v)) if any(isinstance(x, ast.IfExp) for x in ast.walk(v)) else v

    for edge, test, neg in test_edges(cfg):
        for a in facts(bcanon(as_tested(test), neg)):
            em = emptiness(a)
            subj = em[0] if em else size_subject(a)
            if subj is None:
                continue
            summed = subj in sources or any(subj in o for o in origins.values())
            if em and em[1]:
                if summed:
                    e_empty.append(edge)
                continue
            m = edge[1]
            if (subj in iterated or summed) and m != cfg.exit and cfg.path(m, [cfg.exit], edge_ok=normal) is None:
                ok_raise = False  # refuses to generate although the collection is not empty
    run.check(ok_raise, "C12.EMIT", fn.qual, "refuses to generate only when there is nothing to sum",
              "a branch that only raises is taken on a size test other than emptiness of the collection that is "
              "summed / iterated: no formula is generated for valid graphs that do have such components",
              node=fn.node, file=fn.file, instance=f"{short}: raise-only branches are emptiness guards")
    if short in ZERO_WHEN_EMPTY:
        ok = bool(e_empty) and len(placeholders) >= 1
        for p in placeholders:
            calls = node_calls(cfg, p, lambda c: is_call_attr(c, "push_component_metric"))
            naz = (call_args(calls[0], cx.sigs["push_component_metric"]) or {}).get("nones_are_zeros") if len(calls) == 1 else None
            ok = ok and naz is not None and bcanon(val(naz)) == ("const", True)
            ok = ok and not path_avoiding_edges(cfg, [cfg.entry], [p], e_empty)  # only when nothing was found
        for _t, m, _lab in e_empty:
            after = cfg.reachable([m], edge_ok=normal)
            ok = ok and not (after & set(heads)) and not (after & set(opers))  # the placeholder is the whole formula
            ok = ok and (m in placeholders or cfg.path(m, [cfg.exit], avoid=placeholders, edge_ok=normal) is None)
        run.check(ok, "C12.EMIT", fn.qual, "nothing to sum -> the formula is the single placeholder term counted as 0",
                  "when the generator finds no component of its kind it must emit exactly the non-existing-component "
                  "placeholder with nones_are_zeros=True (a constant 0) and nothing else — and only then; otherwise the "
                  "power of that kind is 0/None/missing although devices exist, or the stream is missing from the balance",
                  node=fn.node, file=fn.file, instance=f"{short}: placeholder 0 exactly when nothing is found")
    for src in sorted(set(sources)):
        if src in defs and txt(defs[src]) in ("{}", "dict()", "set()"):
            stmts = {x for n in cfg.nodes if n.kind == "stmt" and n.ast is not None and stores_into(n.ast, src) for x in [n.id]}
            ok = bool(stmts)
            for st in stmts:
                inner = [f for f in fors if any(x is cfg.nodes[st].ast for x in ast.walk(f.ast))]  # type: ignore[arg-type]
                ok = ok and bool(inner)
                # no element is skipped: every non-raising iteration of *every* enclosing loop reaches the next
                # inner loop, and the innermost one the store (an early `continue` for elements believed to be
                # covered already silently drops the other inverters of a shared battery)
                chain = sorted(inner, key=lambda f: f.lineno)
                for k, f in enumerate(chain):
                    through = stmts if k == len(chain) - 1 else {chain[k + 1].id}
                    ok = ok and all(e in through or cfg.path(e, [f.id], avoid=through, edge_ok=normal) is None
                                    for e, lab in cfg.succ[f.id] if lab == "iter")
            why = "the summed mapping is filled on every iteration"
            if ok and short == "BatteryPowerFormula.generate":
                why = "an inverter is summed iff all batteries behind it are requested"
                e_sub = []
                for edge, test, neg in test_edges(cfg):
                    for lit, holds in literals(valc(test), neg):
                        if holds and isinstance(lit, ast.Call) and isinstance(lit.func, ast.Attribute) and lit.func.attr == "issubset" \
                                and len(lit.args) == 1 and txt(lit.args[0]) == "set(self._config.component_ids)":
                            e_sub.append((edge, txt(lit.func.value)))
                        elif holds and isinstance(lit, ast.Compare) and len(lit.ops) == 1 and isinstance(lit.ops[0], ast.LtE) \
                                and txt(lit.comparators[0]) == "set(self._config.component_ids)":
                            e_sub.append((edge, txt(lit.left)))
                for st in stmts:
                    a = cfg.nodes[st].ast
                    stored = txt(valc(a.value)) if isinstance(a, ast.Assign) else None
                    good = [e for e, subset in e_sub if stored is not None and stored in subset and ".component_id" in subset]
                    ok = ok and bool(good) and not path_avoiding_edges(cfg, [cfg.entry], [st], good)
            run.check(ok, "C12.EMIT", fn.qual, f"summed mapping: {why}",
                      "the mapping whose keys are summed is not filled for every element (the sum is empty / misses "
                      "terms), or an inverter is entered although not all batteries behind it were requested (its "
                      "power is not the power of the requested batteries)", node=fn.node, file=fn.file,
                      instance=f"{short}: {why}")


def check_source_helper(run: Run, cx: Ctx, h0: FuncInfo) -> None:
    """Private helpers that build the collection a sum loop ranges over.
      * a raise-only branch on a truthiness / size test of the returned (or an iterated) collection is an
        emptiness guard;
      * if the helper collects `<m>.component_id` of *the single predecessor* m of each element of a loop (the
        CHP meters): the loop ranges over exactly the components of one category of the graph, the id is
        added on every non-raising iteration, and only where m is the only predecessor, is a METER and all its
        successors are among the looped components (a dedicated meter)."""
    fn = cx.prep(h0)
    cfg = CFG(fn.node, fn.file)
    defs = cx.defs(fn)
    val = lambda e: unwrap(cx.value(fn, defs, e))  # noqa: E731
    valc = lambda e: unwrap(cx.norm(deref(e, defs, containers=True)))  # noqa: E731
    short = f"{fn.cls.name if fn.cls else ''}.{fn.name}"
    fors = [n for n in cfg.nodes if n.kind == "for"]
    rets = [n.ast.value for n in cfg.nodes if n.kind == "stmt" and isinstance(n.ast, ast.Return) and n.ast.value is not None]
    subjects = {txt(val(r)) for r in rets} | {txt(val(n.ast.iter)) for n in fors}  # type: ignore[union-attr]
    ok = True
    for edge, test, neg in test_edges(cfg):
        for a in facts(bcanon(val(test), neg)):
            em = emptiness(a)
            subj = em[0] if em else size_subject(a)
            if subj in subjects and not (em and em[1]) and edge[1] != cfg.exit \
                    and cfg.path(edge[1], [cfg.exit], edge_ok=normal) is None:
                ok = False
    run.check(ok, "C12.EMIT", fn.qual, "refuses to generate only when there is nothing to sum",
              "a branch that only raises is taken although the collection the helper returns / iterates is not "
              "empty: no formula is generated for valid graphs", node=fn.node, file=fn.file,
              instance=f"{short}: raise-only branches are emptiness guards")
    # collection of dedicated-meter ids
    names = {u.id for u in (unwrap(r) for r in rets) if isinstance(u, ast.Name)}
    for name in sorted(names):
        if name in defs and txt(defs[name]) in ("set()", "[]", "list()", "{}", "dict()"):
            # a returned collection that starts empty is filled somewhere (else every sum over it is empty)
            filled = any((isinstance(x, ast.Call) and isinstance(x.func, ast.Attribute) and txt(x.func.value) == name
                          and x.func.attr in ("add", "append", "update", "extend", "setdefault"))
                         or (isinstance(x, ast.Assign) and any(isinstance(t, ast.Subscript) and txt(t.value) == name for t in x.targets))
                         or (isinstance(x, ast.AugAssign) and txt(x.target) == name)
                         for x in ast.walk(fn.node))
            run.check(filled, "C12.EMIT", fn.qual, f"the returned collection `{name}` is filled",
                      "the collection the helper returns starts empty and nothing is ever added to it: the sum over "
                      "it is always the 0 placeholder although such devices exist", node=fn.node, file=fn.file,
                      instance=f"{short}: the returned collection is filled")
    for f in fors:
        loop = f.ast
        if not isinstance(loop.target, ast.Name):  # type: ignore[union-attr]
            continue
        x = loop.target.id  # type: ignore[union-attr]
        pred = f"GRAPH.predecessors({x}.component_id)"
        meters = (f"next(iter({pred}))", f"{pred}.pop()")
        entry = [m for m, lab in cfg.succ[f.id] if lab == "iter"]
        body = cfg.reachable(entry, avoid=[f.id] + [m for m, lab in cfg.succ[f.id] if lab == "done"], edge_ok=normal)
        adds: dict[int, str] = {}
        for nid in body:
            a = cfg.nodes[nid].ast
            if cfg.nodes[nid].kind == "stmt" and isinstance(a, ast.Expr) and isinstance(a.value, ast.Call) \
                    and isinstance(a.value.func, ast.Attribute) and a.value.func.attr in ("add", "append") \
                    and txt(a.value.func.value) in names and len(a.value.args) == 1:
                v = txt(val(a.value.args[0]))
                for m in meters:
                    if v == f"{m}.component_id":
                        adds[nid] = m
        if not adds:
            continue
        coll = valc(loop.iter)  # type: ignore[union-attr]
        ok = isinstance(coll, (ast.GeneratorExp, ast.ListComp, ast.SetComp)) and len(coll.generators) == 1 \
            and isinstance(coll.generators[0].target, ast.Name) and txt(coll.elt) == txt(coll.generators[0].target) \
            and txt(coll.generators[0].iter) == "GRAPH.components()" and bool(coll.generators[0].ifs)
        if ok:
            g = coll.generators[0]  # type: ignore[union-attr]
            cond = g.ifs[0] if len(g.ifs) == 1 else ast.BoolOp(op=ast.And(), values=list(g.ifs))
            cats = category_set(bcanon(cond), g.target.id)  # type: ignore[union-attr]
            ok = cats is not None and len(cats) == 1
        looped = txt(val(loop.iter))  # type: ignore[union-attr]
        closed = all(m in body or m == f.id for n in body for m, lab in cfg.succ[n] if normal(n, m, lab))
        ok = ok and closed and all(e in adds or cfg.path(e, [f.id], avoid=adds, edge_ok=normal) is None for e in entry)
        for nid, m in adds.items():
            single = edges_establishing(cfg, lambda a: a == ("==", frozenset({"1", f"len({pred})"})), val, within=body)
            is_meter = edges_establishing(cfg, lambda a, m=m: a == ("==", frozenset({f"{m}.category", METER})), val, within=body)
            dedicated = edges_establishing(cfg, lambda a, m=m: a == ("all", f"GRAPH.successors({m}.component_id)", ("in", "?0", looped)),
                                           val, within=body)
            for es in (single, is_meter, dedicated):
                ok = ok and bool(es) and not path_avoiding_edges(cfg, entry, [nid], es, avoid=[f.id])
        run.check(ok, "C12.EMIT", fn.qual, "collects the dedicated meter of every device of one category",
                  "the ids summed are not `the single predecessor of each device of the category, which is a METER "
                  "all of whose successors are such devices`, added for every device: the power of that kind would "
                  "miss devices, include foreign load, or generation is refused for validly metered devices",
                  node=loop, file=fn.file, instance=f"{short}: dedicated meters of every device")


def collection_def(cx: Ctx, fn: FuncInfo, e: ast.AST, depth: int = 0) -> tuple[FuncInfo, ast.AST]:
    """The expression that builds the collection `e`, and the function it is written in: locals are followed to
    their single definition, `self._helper()` (no arguments, one returned value) into the helper."""
    defs = cx.defs(fn)
    if depth < 6 and isinstance(e, ast.Name) and e.id in defs:
        return collection_def(cx, fn, defs[e.id], depth + 1)
    if depth < 6 and isinstance(e, ast.Call) and isinstance(e.func, ast.Name) and e.func.id in ("set", "frozenset") \
            and len(e.args) == 1 and not e.keywords:
        return collection_def(cx, fn, e.args[0], depth + 1)
    cls = fn.cls if fn.cls is not None else (fn.outer.cls if fn.outer is not None else None)
    if depth < 6 and isinstance(e, ast.Call) and method_call(e, "self", e.func.attr if isinstance(e.func, ast.Attribute) else "") \
            and not e.args and not e.keywords and cls is not None and e.func.attr.startswith("_"):  # type: ignore[union-attr]
        m = cx.prog.resolve_method(cls, e.func.attr)  # type: ignore[union-attr]
        if m is not None and not any(e.func.attr in sub.methods for sub in cx.prog.subclasses(cls)):  # type: ignore[union-attr]
            callee = cx.prep(m)
            rets = [n.value for s in callee.node.body for n in walk_no_nested(s) if isinstance(n, ast.Return) and n.value is not None]
            if len(rets) == 1:
                return collection_def(cx, callee, rets[0], depth + 1)
    return fn, e


def constant_tables(fn: FuncInfo, expr: ast.AST) -> ast.AST:
    """`expr` with the names of module-level (or class-level, read as `self.X` / `cls.X` / `Class.X`) constant tables
    replaced by their value: a set / frozenset / tuple / list display of dotted names or literals that is bound exactly
    once, at the top level, and that nothing in the module rebinds, declares `global` or changes in place.  Names the
    function binds itself (parameters, locals) are left alone."""
    import copy
    mod = fn.module
    cls = fn.cls if fn.cls is not None else (fn.outer.cls if fn.outer is not None else None)

    def is_table(v: ast.AST | None) -> bool:
        inner = v
        while isinstance(inner, ast.Call) and isinstance(inner.func, ast.Name) and inner.func.id in ("set", "frozenset", "tuple", "list") \
                and len(inner.args) == 1 and not inner.keywords:
            inner = inner.args[0]
        return isinstance(inner, (ast.Set, ast.Tuple, ast.List)) and bool(inner.elts) and all(
            isinstance(x, ast.Constant) or (isinstance(x, (ast.Name, ast.Attribute)) and all(
                isinstance(y, (ast.Name, ast.Attribute, ast.Load)) for y in ast.walk(x))) for x in inner.elts)

    def stable(name: str, scope: list[ast.stmt], attr_of: tuple[str, ...] = ()) -> bool:
        binds = 0
        for st in scope:
            targets = st.targets if isinstance(st, ast.Assign) else [st.target] if isinstance(st, (ast.AnnAssign, ast.AugAssign)) else []
            binds += sum(1 for t in targets for x in ast.walk(t) if isinstance(x, ast.Name) and x.id == name)
        if binds != 1:
            return False
        spell = {name} | {f"{o}.{name}" for o in attr_of}
        for n in ast.walk(mod.tree):
            if isinstance(n, (ast.Global, ast.Nonlocal)) and name in n.names:
                return False
            if isinstance(n, ast.Call) and isinstance(n.func, ast.Attribute) and n.func.attr in MUTATORS and txt(n.func.value) in spell:
                return False
            if isinstance(n, (ast.Assign, ast.AugAssign, ast.AnnAssign, ast.Delete)) and attr_of:
                ts = n.targets if isinstance(n, (ast.Assign, ast.Delete)) else [n.target]
                if any(isinstance(t, ast.Attribute) and txt(t) in spell for t in ts):
                    return False
            if isinstance(n, (ast.Assign, ast.AugAssign, ast.Delete)):
                ts = n.targets if isinstance(n, (ast.Assign, ast.Delete)) else [n.target]
                if any(isinstance(t, ast.Subscript) and txt(t.value) in spell for t in ts):
                    return False
        return True

    outer = fn.outer.node if fn.outer is not None else None
    own = set()
    for f in [fn.node] + ([outer] if outer is not None else []):
        own |= {a.arg for a in f.args.posonlyargs + f.args.args + f.args.kwonlyargs}
        own |= {x.id for x in ast.walk(f) if isinstance(x, ast.Name) and isinstance(x.ctx, (ast.Store, ast.Del))}
    owners = ("self", "cls") + ((cls.name,) if cls is not None else ())

    class T(ast.NodeTransformer):
        def visit_Name(self, node: ast.Name) -> ast.AST:  # noqa: N802
            v = mod.assigns.get(node.id)
            if isinstance(node.ctx, ast.Load) and node.id not in own and is_table(v) and stable(node.id, mod.tree.body):
                return ast.copy_location(copy.deepcopy(v), node)  # type: ignore[arg-type]
            return node

        def visit_Attribute(self, node: ast.Attribute) -> ast.AST:  # noqa: N802
            if cls is not None and isinstance(node.value, ast.Name) and node.value.id in owners and isinstance(node.ctx, ast.Load):
                v = cls.class_assigns.get(node.attr)
                if is_table(v) and stable(node.attr, cls.node.body, owners) and not any(
                        node.attr in sub.class_assigns for sub in prog_subclasses(cls)):
                    return ast.copy_location(copy.deepcopy(v), node)  # type: ignore[arg-type]
            return self.generic_visit(node)

    return T().visit(copy.deepcopy(expr))


_SUBCLASSES: list[Callable[[Any], list[Any]]] = []


def prog_subclasses(cls: Any) -> list[Any]:
    return _SUBCLASSES[-1](cls) if _SUBCLASSES else []


def category_set(c: Any, var: str) -> set[str] | None:
    """Categories accepted by a canonical condition on `<var>.category` (membership or equalities)."""
    subj = f"{var}.category"
    alts = list(c[1]) if isinstance(c, tuple) and c and c[0] == "or" else [c]
    out: set[str] = set()
    for a in alts:
        if isinstance(a, tuple) and a[0] == "in" and a[1] == subj and isinstance(a[2], frozenset):
            out |= {m.split(".")[-1] for m in a[2] if m.startswith("ComponentCategory.")}
            if any(not m.startswith("ComponentCategory.") for m in a[2]):
                return None
        elif isinstance(a, tuple) and a[0] == "==" and subj in a[1] and len(a[1]) == 2:
            (other,) = set(a[1]) - {subj}
            if not other.startswith("ComponentCategory."):
                return None
            out.add(other.split(".")[-1])
        else:
            return None
    return out


def subtracted_set_ok(cx: Ctx, fn: FuncInfo, summed: list[tuple[str, str]]) -> bool:
    """_gen_with_grid_meter: one loop over *the grid meters parameter* unions, on every iteration, the result of
    `GRAPH.dfs(<that grid meter>, <fresh set>, <the non-consumer predicate>)` into a set that starts empty, and
    that set is what every `-` loop ranges over."""
    if len(fn.params) != 3:
        return False
    gm = fn.params[2]
    cfg = CFG(fn.node, fn.file)
    defs = cx.defs(fn)
    val = lambda e: cx.value(fn, defs, e)  # noqa: E731
    calls = cx.graph_dfs_calls(fn, defs)
    if len(calls) != 1:
        return False
    args = call_args(calls[0], cx.dfs_params)
    if args is None or set(args) != set(cx.dfs_params):
        return False
    heads = [n for n in cfg.nodes if n.kind == "for" and isinstance(n.ast.target, ast.Name) and txt(val(n.ast.iter)) == gm  # type: ignore[union-attr]
             and any(x is calls[0] for x in ast.walk(n.ast))]  # type: ignore[arg-type]
    if not heads:
        # the accumulation loop written as a comprehension: the union of the search below every grid meter
        parents = parent_map(fn.node)
        p: ast.AST | None = calls[0]
        u3 = None
        while p is not None and u3 is None:
            p = parents.get(p)
            u3 = union_over(p) if p is not None else None
        if u3 is None or p is None or txt(val(u3[0])) != gm or u3[2] is not calls[0]:
            return False
        if txt(args[cx.dfs_params[0]]) != u3[1] or not is_empty_set(val(args[cx.dfs_params[1]])):
            return False
        minus = [s for sign, s in summed if sign == "-"]
        names = {t.id for n in ast.walk(fn.node) if isinstance(n, (ast.Assign, ast.AnnAssign)) and n.value is p
                 for t in (n.targets if isinstance(n, ast.Assign) else [n.target]) if isinstance(t, ast.Name)}
        allowed = names | {txt(val(ast.Name(id=a, ctx=ast.Load()))) for a in names}
        return bool(minus) and all(s in allowed for s in minus)
    if len(heads) != 1:
        return False
    h, g = heads[0].id, heads[0].ast.target.id  # type: ignore[union-attr]
    if txt(val(args[cx.dfs_params[0]])) != g or not is_empty_set(val(args[cx.dfs_params[1]])):
        return False
    entry = [m for m, lab in cfg.succ[h] if lab == "iter"]
    body = cfg.reachable(entry, avoid=[h] + [m for m, lab in cfg.succ[h] if lab == "done"], edge_ok=normal)
    rtxt = txt(val(calls[0]))

    def accumulates(s: ast.AST) -> str | None:
        if isinstance(s, ast.Expr) and isinstance(s.value, ast.Call) and isinstance(s.value.func, ast.Attribute) \
                and s.value.func.attr == "update" and isinstance(s.value.func.value, ast.Name) \
                and [txt(val(a)) for a in s.value.args] == [rtxt] and not s.value.keywords:
            return s.value.func.value.id
        if isinstance(s, ast.AugAssign) and isinstance(s.target, ast.Name) and isinstance(s.op, ast.BitOr) and txt(val(s.value)) == rtxt:
            return s.target.id
        if isinstance(s, ast.Assign) and len(s.targets) == 1 and isinstance(s.targets[0], ast.Name):
            a, v = s.targets[0].id, s.value
            if isinstance(v, ast.BinOp) and isinstance(v.op, ast.BitOr) and {txt(val(v.left)), txt(val(v.right))} == {a, rtxt}:
                return a
            if isinstance(v, ast.Call) and isinstance(v.func, ast.Attribute) and v.func.attr == "union" and len(v.args) == 1 \
                    and not v.keywords and {txt(val(v.func.value)), txt(val(v.args[0]))} == {a, rtxt}:
                return a
        return None

    accs = {x: accumulates(cfg.nodes[x].ast) for x in body if cfg.nodes[x].kind == "stmt" and cfg.nodes[x].ast is not None}  # type: ignore[arg-type]
    accs = {x: a for x, a in accs.items() if a is not None}
    if len(accs) != 1:
        return False
    (an, acc), = accs.items()
    if any(cfg.nodes[x].kind in ("test", "while", "for") or isinstance(cfg.nodes[x].ast, (ast.Break, ast.Continue, ast.Return)) for x in body):
        return False
    if not all(e == an or cfg.path(e, [h], avoid=[an], edge_ok=normal) is None for e in entry):
        return False
    init = [d for d in reaching_defs(cfg, h, acc) if d not in body]
    if not init or not all(isinstance(cfg.nodes[d].ast, (ast.Assign, ast.AnnAssign)) and is_empty_set(cfg.nodes[d].ast.value) for d in init):  # type: ignore[union-attr]
        return False
    minus = [s for sign, s in summed if sign == "-"]
    return bool(minus) and all(s == acc for s in minus)


# ------------------------------------------------------------------------------------------------
def fallback_builders(cx: Ctx) -> list[FuncInfo]:
    """The functions that turn the primary/fallback pairing into per-primary fallback formulas: bound by their
    call of the pairing function (whatever they are called, wherever in the generator classes they live)."""
    pair = cx.R["_get_metric_fallback_components"]
    out: list[FuncInfo] = []
    for cls in cx.prog.all_classes():
        if not cls.module.name.startswith(GEN):
            continue
        for m in cls.methods.values():
            if m.name != pair and any(isinstance(c, ast.Call) and method_call(c, "self", pair) for c in ast.walk(m.node)):
                out.append(m)
    return sorted(out, key=lambda m: m.qual)


def is_none(e: ast.AST | None) -> bool:
    return isinstance(e, ast.Constant) and e.value is None


def check_fallback(run: Run, cx: Ctx) -> None:
    """C12.FALLBACK — what is recorded as *the fallback of one primary component* is a function of that primary's
    own fallback components and of nothing that survives the iteration.  Decided per loop over the pairing result:
      keyed   every per-primary record (item store into a mapping made before the loop, or the `fallback` argument of
              a pushed metric) is filed under the loop's own primary;
      fresh   the backward slice of the recorded value, cut at the loop header, has no input that the loop body also
              writes (rebinding on some paths only, `+=`, in-place mutation, item / attribute store, under any alias),
              and no lambda / generator expression that is stored un-run reads a per-iteration variable;
      own     a record that is not None is computed from this primary's fallback set, which no comprehension / filter
              on the way narrows."""
    pair = cx.R["_get_metric_fallback_components"]
    assert pair is not None
    n_loops = 0
    for m in fallback_builders(cx):
        fn = cx.prep(m)
        run.analysed(fn.qual)
        cfg = CFG(fn.node, fn.file)
        defs = cx.defs(fn)
        aliases = name_aliases(fn.node)
        short = f"{fn.cls.name if fn.cls else ''}.{fn.name}"

        def shape(it: ast.AST, target: ast.AST, fn: FuncInfo = fn, defs: dict[str, ast.AST] = defs) -> tuple[str, str | None, ast.AST] | None:
            """(primary variable, fallback-set variable or None, the mapping iterated) of a loop over the pairing."""
            e = unwrap(cx.value(fn, defs, it))
            raw = unwrap(it)
            if isinstance(e, ast.Call) and isinstance(e.func, ast.Name) and e.func.id == "enumerate" and e.args:
                if not (isinstance(target, ast.Tuple) and len(target.elts) == 2):
                    return None
                e, target = unwrap(e.args[0]), target.elts[1]
                raw = raw.args[0] if isinstance(raw, ast.Call) and raw.args else raw
            items = False
            if isinstance(e, ast.Call) and isinstance(e.func, ast.Attribute) and e.func.attr in ("items", "keys") and not e.args:
                items = e.func.attr == "items"
                e = e.func.value
                raw = raw.func.value if isinstance(raw, ast.Call) and isinstance(raw.func, ast.Attribute) and raw.func.attr in ("items", "keys") else raw
            if not (isinstance(e, ast.Call) and method_call(e, "self", pair)):
                return None
            if items and isinstance(target, ast.Tuple) and len(target.elts) == 2 and all(isinstance(t, ast.Name) for t in target.elts):
                return target.elts[0].id, target.elts[1].id, raw  # type: ignore[attr-defined]
            if not items and isinstance(target, ast.Name):
                return target.id, None, raw
            raise AnalysisError(f"{fn.qual}: loop over the primary/fallback pairing at line {getattr(it, 'lineno', 0)} binds "
                                f"`{txt(target)}`: cannot tell the primary from its fallback components")

        loops = [(n, sh) for n in cfg.nodes if n.kind == "for" for sh in [shape(n.ast.iter, n.ast.target)] if sh is not None]  # type: ignore[union-attr]
        comps = [(c, sh) for c in ast.walk(fn.node) if isinstance(c, (ast.DictComp, ast.ListComp, ast.SetComp, ast.GeneratorExp))
                 and len(c.generators) == 1 for sh in [shape(c.generators[0].iter, c.generators[0].target)] if sh is not None]
        if not loops and not comps:
            raise AnalysisError(f"{fn.qual} asks for the primary/fallback pairing but no loop over its result was found: "
                                "cannot tell how the per-primary fallback formulas are built")
        for comp, (prim, fb, mapping) in comps:
            # a comprehension has no statements: each element is computed in its own scope, nothing is carried over
            n_loops += 1
            key, value = (comp.key, comp.value) if isinstance(comp, ast.DictComp) else (None, comp.elt)
            run.check(key is None or txt(cx.value(fn, defs, key)) == prim, "C12.FALLBACK", fn.qual, f"`{txt(key)}` is the primary",
                      "a fallback formula is recorded under another key than the primary component it was built for",
                      node=comp, file=fn.file, instance=f"{short}: each fallback is filed under its own primary")
            reads = places_read(deref(value, defs, containers=True)) | places_read(value)
            want = {fb} if fb is not None else {prim}
            run.check(want <= {r.split(".")[0] for r in reads}, "C12.FALLBACK", fn.qual, "fallback built from the primary's own fallback set",
                      "the fallback formula of a primary is not computed from that primary's own fallback components",
                      node=comp, file=fn.file, instance=f"{short}: a fallback is built from its primary's own fallback components")
        for head, (prim, fb, mapping) in loops:
            n_loops += 1
            h = head.id
            loop = head.ast
            entry = [x for x, lab in cfg.succ[h] if lab == "iter"]
            body = cfg.reachable(entry, avoid=[h] + [x for x, lab in cfg.succ[h] if lab == "done"], edge_ok=normal)
            own_vars = {prim} | ({fb} if fb is not None else set()) | {x.id for x in ast.walk(loop.target) if isinstance(x, ast.Name)}  # type: ignore[union-attr]
            val = lambda e, fn=fn, defs=defs: cx.value(fn, defs, e)  # noqa: E731
            # the per-primary records made in this iteration: (node, key, value, what it is)
            sinks: list[tuple[int, ast.AST | None, ast.AST, str]] = []
            for nid in sorted(body):
                node = cfg.nodes[nid]
                if node.ast is None:
                    continue
                a = node.ast
                if node.kind == "stmt" and isinstance(a, (ast.Assign, ast.AnnAssign)) and a.value is not None:
                    for t in (a.targets if isinstance(a, ast.Assign) else [a.target]):
                        if isinstance(t, ast.Subscript) and isinstance(t.value, ast.Name) and t.value.id not in own_vars \
                                and not IterationSlice(cfg, h, body, own_vars, aliases).nearest(t.value.id, nid)[0]:
                            sinks.append((nid, t.slice, a.value, f"`{txt(t)} = ...`"))
                for c in node_calls(cfg, nid, lambda c: True):
                    if is_call_attr(c, "push_component_metric"):
                        args = call_args(c, cx.sigs["push_component_metric"]) or {}
                        if "fallback" in args:
                            cid = args.get("component_id")
                            key = cid.value if isinstance(cid, ast.Attribute) and cid.attr == "component_id" else cid
                            sinks.append((nid, key, args["fallback"], "the `fallback=` of the pushed metric"))
                    elif is_call_attr(c, "setdefault") and isinstance(c.func.value, ast.Name) and len(c.args) == 2 \
                            and c.func.value.id not in own_vars:  # type: ignore[attr-defined]
                        sinks.append((nid, c.args[0], c.args[1], f"`{txt(c)[:40]}`"))
                    elif is_call_attr(c, "update") and isinstance(c.func.value, ast.Name) and len(c.args) == 1 \
                            and isinstance(c.args[0], ast.Dict) and len(c.args[0].keys) == 1 and c.args[0].keys[0] is not None:  # type: ignore[attr-defined]
                        sinks.append((nid, c.args[0].keys[0], c.args[0].values[0], f"`{txt(c)[:40]}`"))
            live = [s for s in sinks if not is_none(s[2])]
            if not live:
                raise AnalysisError(f"{fn.qual}: the loop over the primary/fallback pairing at line {loop.lineno} records no "  # type: ignore[union-attr]
                                    "per-primary fallback (item store / `fallback=` argument): cannot tell what is built")
            ok_key = all(k is not None and txt(unwrap(val(k))) == prim for _n, k, _v, _w in sinks)
            run.check(ok_key, "C12.FALLBACK", fn.qual, f"per-primary records are keyed by `{prim}`",
                      "a fallback formula is recorded under another key than the primary component it was built for: "
                      "when that primary drops out, the devices of a different meter stand in for it",
                      node=loop, file=fn.file, instance=f"{short}: each fallback is filed under its own primary")
            carried: list[str] = []
            late: list[str] = []
            own_ok = True
            narrowed: list[str] = []
            for nid, _k, v, what in sinks:
                sl = IterationSlice(cfg, h, body, own_vars, aliases)
                sl.follow(v, nid)
                for place, eff in sl.carried():
                    made = defs.get(place.split(".")[0])
                    where = f"made before the loop as `{txt(made)[:30]}`" if made is not None and place.split(".")[0] in defs else "not made in this iteration"
                    how = "updated in place" if eff.updates else "rebound on some paths only"
                    msg = (f"`{place}` ({where}) is {how} inside the loop (line {getattr(eff.node, 'lineno', 0)}: "
                           f"`{txt(eff.node)[:60]}`) and flows into {what} at line {cfg.nodes[nid].lineno}")
                    if msg not in carried:
                        carried.append(msg)
                # closures stored un-run: they read their free variables when the fallback is *evaluated*
                rebound = own_vars | {e.place.split(".")[0] for x in body for e in sl.effects(x)}
                for clo, at in stored_closures(sl, v, nid):
                    bad = sorted(r for r in places_read(clo, lazy_only=True) if r.split(".")[0] in rebound)
                    if bad:
                        late.append(f"`{txt(clo)[:50]}` (line {getattr(clo, 'lineno', 0)}) is stored un-run and reads {bad} later")
                if not is_none(v):
                    roots = {r.split(".")[0] for r in sl.reads}
                    src = fb if fb is not None else prim
                    if src not in roots or (fb is None and not any(isinstance(x, ast.Subscript) and txt(x.slice) == prim
                                                                   for e in sl.exprs for x in ast.walk(e))):
                        own_ok = False
                    if fb is not None:
                        for e in sl.exprs:
                            for x in ast.walk(e):
                                if isinstance(x, (ast.ListComp, ast.SetComp, ast.GeneratorExp, ast.DictComp)) and any(
                                        txt(unwrap(g.iter)) == fb and g.ifs for g in x.generators):
                                    narrowed.append(txt(x)[:60])
                                elif isinstance(x, ast.Call) and isinstance(x.func, ast.Name) and x.func.id == "filter" \
                                        and len(x.args) == 2 and txt(unwrap(x.args[1])) == fb and not is_none(x.args[0]):
                                    narrowed.append(txt(x)[:60])
            run.check(not carried and not late, "C12.FALLBACK", fn.qual,
                      "; ".join(carried + late) or "the fallback of a primary is computed from this iteration's values only",
                      "what is recorded as the fallback of ONE primary component is computed from state that survives the "
                      "loop iteration: " + ("; ".join(carried + late) or "-") + ". The fallback generators are evaluated "
                      "lazily (after the loop has finished), so a collection that is created once and filled per primary is "
                      "one shared, accumulating object: every meter's fallback becomes the devices of ALL meters, and as soon "
                      "as one meter drops out the other groups are counted twice (battery/PV/... power is no longer the true "
                      "total; grid != consumer + producer + battery + EV). The same clause excludes: a hoisted list/set that "
                      "is `+=`/`|=`-extended or `.clear()`ed and refilled (one aliased object: the last primary wins), a value "
                      "assigned on some paths only (the previous primary's value is reused), and a lambda / generator "
                      "expression stored in the fallback that reads a per-iteration variable when it is finally run",
                      node=loop, file=fn.file, instance=f"{short}: a fallback is computed from its own iteration's values only")
            run.check(own_ok and not narrowed, "C12.FALLBACK", fn.qual,
                      f"fallback of `{prim}` built from " + (f"all of `{fb}`" if fb else f"`<pairing>[{prim}]`")
                      + (f" (narrowed by {narrowed})" if narrowed else ""),
                      "the fallback formula of a primary is not computed from that primary's own fallback components — all of "
                      "them (e.g. from every component handed in, from the primary itself, or from a filtered subset): when the "
                      "meter drops out, what stands in for it is not the sum of the devices below it",
                      node=loop, file=fn.file, instance=f"{short}: a fallback is built from its primary's own fallback components")
    if n_loops == 0:
        raise AnalysisError("C12.FALLBACK: no function builds per-primary fallback formulas from the pairing")


def stored_closures(sl: IterationSlice, e: ast.AST, at: int, depth: int = 0) -> list[tuple[ast.AST, int]]:
    """Lambdas / generator expressions that end up *inside* the value `e` without having been run: reached through
    constructor / call arguments, containers, conditional expressions and the locals they were put in — not
    through a call that consumes its argument on the spot (`set(...)`, `list(...)`, `sorted(...)`, ...)."""
    out: list[tuple[ast.AST, int]] = []
    if depth > 8:
        return out
    if isinstance(e, (ast.Lambda, ast.GeneratorExp)):
        out.append((e, at))
    elif isinstance(e, ast.Call):
        if isinstance(e.func, ast.Name) and e.func.id in EAGER_CONSUMERS:
            return out
        if isinstance(e.func, ast.Attribute) and e.func.attr in ("join", "union", "intersection", "difference", "issubset", "issuperset"):
            return out
        for a in list(e.args) + [k.value for k in e.keywords]:
            out.extend(stored_closures(sl, a.value if isinstance(a, ast.Starred) else a, at, depth + 1))
    elif isinstance(e, (ast.Tuple, ast.List, ast.Set)):
        for a in e.elts:
            out.extend(stored_closures(sl, a, at, depth + 1))
    elif isinstance(e, ast.Dict):
        for a in e.values:
            out.extend(stored_closures(sl, a, at, depth + 1))
    elif isinstance(e, ast.IfExp):
        out.extend(stored_closures(sl, e.body, at, depth + 1) + stored_closures(sl, e.orelse, at, depth + 1))
    elif isinstance(e, ast.BoolOp):
        for a in e.values:
            out.extend(stored_closures(sl, a, at, depth + 1))
    elif isinstance(e, ast.Name):
        for p, eff in sl.nearest(e.id, at)[0]:
            if eff.place == e.id and not eff.updates and isinstance(eff.node, (ast.Assign, ast.AnnAssign, ast.NamedExpr)):
                for d in eff.deps:
                    out.extend(stored_closures(sl, d, p, depth + 1))
            elif eff.place == e.id and isinstance(eff.node, (ast.FunctionDef, ast.AsyncFunctionDef)):
                out.append((eff.node, p))
    return out


# ------------------------------------------------------------------------------------------------
def visit_scope(cx: Ctx) -> list[FuncInfo]:
    """Every function the formulas are generated by: all functions (methods, module functions, nested functions) of
    the formula-generator package and of the component-graph class they query."""
    tops: list[FuncInfo] = []
    for mod in cx.prog.modules.values():
        if mod.name.startswith(GEN):
            tops.extend(mod.functions.values())
            for cls in mod.classes.values():
                tops.extend(cls.methods.values())
    tops.extend(cx.prog.cls(CG).methods.values())
    out: list[FuncInfo] = []

    def add(fn: FuncInfo) -> None:
        out.append(fn)
        for s in fn.node.body:
            for n in walk_no_nested(s):
                if isinstance(n, (ast.FunctionDef, ast.AsyncFunctionDef)):
                    add(FuncInfo(n.name, fn.module, n, None, fn))

    for fn in sorted(tops, key=lambda f: f.qual):
        add(fn)
    return out


def check_visit(run: Run, cx: Ctx) -> None:
    """C12.VISIT — every formula is a sum over *all* components of a kind / *all* successors / *all* primaries, and
    each of these "all" is a `for` loop (or comprehension) over a collection.  Necessary for any of them: while the
    loop runs, nothing resizes or reorders the object it is walking — not by name, not under an alias, not in an
    inner loop, not in a helper that is handed the collection."""
    lm = LoopMutation(cx.prog)
    n = 0
    for fn in visit_scope(cx):
        loops = [x for s in fn.node.body for x in walk_no_nested(s) if isinstance(x, (ast.For, ast.AsyncFor))]
        comps = [x for s in fn.node.body for x in walk_no_nested(s)
                 if isinstance(x, (ast.ListComp, ast.SetComp, ast.DictComp, ast.GeneratorExp))]
        if not loops and not comps:
            continue
        run.analysed(fn.qual)
        short = (f"{fn.cls.name}." if fn.cls else "") + (fn.qual.split(":")[1] if fn.outer is not None else fn.name)
        cfg: CFG | None = None
        k = 0
        for loop in sorted(loops, key=lambda x: (x.lineno, x.col_offset)):
            if not walked_places(loop.iter):
                continue  # walks a value made for the loop (a call result, a copy): nobody else can reach it
            if cfg is None:
                cfg = CFG(fn.node, fn.file)
            walked, live = lm.of_loop(fn, loop, cfg)
            k += 1
            n += 1
            what = "; ".join(f"`{p}` {how} at line {getattr(x, 'lineno', 0)}" for x, p, how in live)
            run.check(not live, "C12.VISIT", fn.qual,
                      f"`for {txt(loop.target)} in {txt(loop.iter)[:50]}`" + (f": {what}" if live else ""),
                      f"the loop `for {txt(loop.target)} in {txt(loop.iter)[:60]}` walks {sorted(walked)} and its own body changes "
                      f"that very object while the loop is still running ({what or '-'}). A `for` statement keeps ONE cursor "
                      "into the live collection: removing an element of a list moves the following elements one place "
                      "down, so the element behind a removed one is never visited (a set / dict raises RuntimeError "
                      "instead and no formula is generated at all). Whatever the loop does per element — collect the "
                      "dedicated meter of each CHP, pair a device with its meter, push one term of the sum, search "
                      "below one grid successor — is then silently not done for some components: with two or more of "
                      "them the generated formula misses terms and no longer evaluates to the true total (CHP / PV / "
                      "battery power too small, grid != consumer + producer + battery + EV). The same clause excludes "
                      "the sibling spellings: `.pop()` / `.clear()` / `del x[i]` / `.insert()` / `.sort()` / `-=` on the "
                      "walked collection, the mutation done under an alias (`work = chps`), inside an inner loop or "
                      "comprehension, or in a helper that is handed the collection; iterate over a copy "
                      "(`for c in list(chps)`) or build a new collection instead",
                      node=live[0][0] if live else loop, file=fn.file,
                      instance=f"{short}: loop #{k} does not resize the collection it walks")
        for comp in comps:
            for gi, g in enumerate(comp.generators):
                walked = walked_places(g.iter)
                if not walked:
                    continue
                places = lm._close(walked, place_aliases(fn.node))
                later: list[ast.AST] = [*g.ifs, *(x for g2 in comp.generators[gi + 1:] for x in [g2.iter, *g2.ifs])]
                later += [comp.key, comp.value] if isinstance(comp, ast.DictComp) else [comp.elt]
                hits = lm.in_nodes(fn, later, places, lm._lists(fn.node, places))
                n += 1
                run.check(not hits, "C12.VISIT", fn.qual, f"`{txt(comp)[:70]}`",
                          f"the comprehension walks {sorted(walked)} and changes that very object per element "
                          f"({'; '.join(f'`{p}` {how}' for _x, p, how in hits) or '-'}): elements are skipped (list) or the "
                          "generation fails (set / dict), so some components are missing from the generated formula",
                          node=comp, file=fn.file, instance=f"{short}: a comprehension does not resize the collection it walks")
    if n < 10:
        raise AnalysisError(f"C12.VISIT: only {n} loops over a named collection found in the formula generators and the component graph")


CG_MOD = "microgrid.component_graph"
CONTROLS = [
    ("is_chp_chain dropped from one sibling", f"{GEN}._consumer_power_formula",
     "                component_graph.is_battery_chain(component)\n                or component_graph.is_chp_chain(component)\n",
     "                component_graph.is_battery_chain(component)\n", "C12.PART"),
    ("not is_grid_meter removed from one meter predicate", CG_MOD,
     "            and not self.is_grid_meter(component)\n            and len(successors) > 0\n            and all(self.is_chp(successor) for successor in successors)",
     "            and len(successors) > 0\n            and all(self.is_chp(successor) for successor in successors)", "C12.METER"),
    ("dfs recurses past a match", CG_MOD,
     "        if condition(current_node):\n            return {current_node}\n\n        component: set[Component] = set()\n",
     "        component: set[Component] = set()\n        if condition(current_node):\n            component.add(current_node)\n", "C12.DFS"),
    ("plus emitted for the first term", f"{GEN}._producer_power_formula",
     "            for idx, component in enumerate(producer_components):\n                if idx > 0:\n                    builder.push_oper(\"+\")",
     "            for idx, component in enumerate(producer_components):\n                if idx >= 0:\n                    builder.push_oper(\"+\")", "C12.EMIT"),
    ("nones_are_zeros flipped", f"{GEN}._pv_power_formula",
     "                    nones_are_zeros=component.category != ComponentCategory.METER,",
     "                    nones_are_zeros=component.category == ComponentCategory.METER,", "C12.EMIT"),
    ("fallback alternatives folded", f"{GEN}._formula_generator",
     "            all(graph.is_chp(c) for c in successors)\n            or all(graph.is_pv_inverter(c) for c in successors)\n            or all(graph.is_battery_inverter(c) for c in successors)\n            or all(graph.is_ev_charger(c) for c in successors)",
     "            all(\n                graph.is_chp(c) or graph.is_pv_inverter(c) or graph.is_battery_inverter(c) or graph.is_ev_charger(c)\n                for c in successors\n            )",
     "C12.METER"),
    ("metric dropped from a sum loop", f"{GEN}._ev_charger_power_formula",
     "                builder.push_oper(\"+\")\n            builder.push_component_metric(component_id, nones_are_zeros=True)\n",
     "                builder.push_oper(\"+\")\n            pass\n", "C12.EMIT"),
    ("placeholder guard inverted", f"{GEN}._pv_power_formula",
     "        if not pv_components:\n", "        if pv_components:\n", "C12.EMIT"),
    ("placeholder counted as unknown", f"{GEN}._chp_power_formula",
     "                NON_EXISTING_COMPONENT_ID, nones_are_zeros=True\n", "                NON_EXISTING_COMPONENT_ID, nones_are_zeros=False\n", "C12.EMIT"),
    ("raise guard inverted", f"{GEN}._grid_power_formula_base",
     "        if not components:\n            raise ComponentNotFound(", "        if components:\n            raise ComponentNotFound(", "C12.EMIT"),
    ("inverter summed although not all its batteries are requested", f"{GEN}._battery_power_formula",
     "                if not battery_ids.issubset(component_ids):\n", "                if battery_ids.issubset(component_ids):\n", "C12.EMIT"),
    ("PV chain searched only when ids are configured", f"{GEN}._pv_power_formula",
     "        if component_ids:\n            pv_components = component_graph.components(", "        if not component_ids:\n            pv_components = component_graph.components(", "C12.PART"),
    ("consumers are everything but meters and inverters", f"{GEN}._consumer_power_formula",
     "                component.category\n                in {ComponentCategory.METER, ComponentCategory.INVERTER}",
     "                component.category\n                not in {ComponentCategory.METER, ComponentCategory.INVERTER}", "C12.PART"),
    ("meter fallback lookup asserts the opposite", f"{GEN}._formula_generator",
     "        assert meter.category == ComponentCategory.METER\n", "        assert meter.category != ComponentCategory.METER\n", "C12.METER"),
    ("CHP meters collected in a list (one entry per CHP)", f"{GEN}._chp_power_formula",
     "            chp_meters.add(meter.component_id)\n        return chp_meters\n",
     "            chp_meters.add(meter.component_id)\n        return [m.component_id for c in chps for m in component_graph.predecessors(c.component_id)]\n",
     "C12.EMIT"),
    ("CHP meter accepted only if it is NOT dedicated", f"{GEN}._chp_power_formula",
     "            if not all(successor in chps for successor in meter_successors):\n",
     "            if all(successor in chps for successor in meter_successors):\n", "C12.EMIT"),
    ("grid successors refused when present", f"{GEN}._formula_generator",
     "        if not grid_successors:\n            raise ComponentNotFound(", "        if grid_successors:\n            raise ComponentNotFound(", "C12.EMIT"),
    ("grid meter need not be the only grid successor", CG_MOD,
     "        return len(grid_successors) == 1\n", "        return len(grid_successors) >= 1\n", "C12.METER"),
    ("batteries believed covered are skipped", f"{GEN}._battery_power_formula",
     "        for bat_id in component_ids:\n            inverters = set(",
     "        for bat_id in component_ids:\n            if any(bat_id in {b.component_id for b in bs} for bs in inv_bat_mapping.values()):\n"
     "                continue\n            inverters = set(", "C12.EMIT"),
    ("pairing loop stops at the first paired device", f"{GEN}._formula_generator",
     "                        fallbacks.setdefault(predecessor, set()).add(component)\n                        continue\n",
     "                        fallbacks.setdefault(predecessor, set()).add(component)\n                        break\n", "C12.METER"),
    ("meter stands in exactly when NOT all its successors are requested", f"{GEN}._formula_generator",
     "                    ) and graph.successors(predecessor.component_id).issubset(components):\n",
     "                    ) and not graph.successors(predecessor.component_id).issubset(components):\n", "C12.METER"),
    ("meter withheld unless the requested components are all behind it (subset reversed)", f"{GEN}._formula_generator",
     "                    ) and graph.successors(predecessor.component_id).issubset(components):\n",
     "                    ) and components.issubset(graph.successors(predecessor.component_id)):\n", "C12.METER"),
    ("all successors requested is enough to pair (`or`)", f"{GEN}._formula_generator",
     "                    ) and graph.successors(predecessor.component_id).issubset(components):\n",
     "                    ) or graph.successors(predecessor.component_id).issubset(components):\n", "C12.METER"),
    ("fallback ids accumulated across primaries (list hoisted out of the loop, `+=`)", f"{GEN}._pv_power_formula",
     "        for primary_component, fallback_components in fallbacks.items():\n            if len(fallback_components) == 0:\n"
     "                fallback_formulas[primary_component] = None\n                continue\n"
     "            fallback_ids = [c.component_id for c in fallback_components]\n",
     "        fallback_ids: list[int] = []\n"
     "        for primary_component, fallback_components in fallbacks.items():\n            if len(fallback_components) == 0:\n"
     "                fallback_formulas[primary_component] = None\n                continue\n"
     "            fallback_ids += [c.component_id for c in fallback_components]\n", "C12.FALLBACK"),
    ("one battery-id set shared by every fallback generator (cleared and refilled under an alias)", f"{GEN}._battery_power_formula",
     "        for primary_component, fallback_components in fallbacks.items():\n            if len(fallback_components) == 0:\n"
     "                fallback_formulas[primary_component] = None\n                continue\n\n"
     "            battery_ids = set(\n",
     "        shared_ids: set[int] = set()\n"
     "        for primary_component, fallback_components in fallbacks.items():\n            if len(fallback_components) == 0:\n"
     "                fallback_formulas[primary_component] = None\n                continue\n\n"
     "            battery_ids = shared_ids\n            battery_ids.clear()\n            battery_ids |= set(\n", "C12.FALLBACK"),
    ("fallback ids assigned for multi-device meters only (else the previous primary's)", f"{GEN}._producer_power_formula",
     "            fallback_ids = [c.component_id for c in fallback_components]\n            generator = SimplePowerFormula(",
     "            if len(fallback_components) > 1:\n                fallback_ids = [c.component_id for c in fallback_components]\n"
     "            generator = SimplePowerFormula(", "C12.FALLBACK"),
    ("fallback of a primary built from all components handed in", f"{GEN}._producer_power_formula",
     "            fallback_ids = [c.component_id for c in fallback_components]\n            generator = SimplePowerFormula(",
     "            fallback_ids = [c.component_id for c in components]\n            generator = SimplePowerFormula(", "C12.FALLBACK"),
    ("fallback filed under one of its own devices instead of the primary", f"{GEN}._consumer_power_formula",
     "            fallback_formulas[primary_component] = FallbackFormulaMetricFetcher(\n",
     "            fallback_formulas[next(iter(fallback_components))] = FallbackFormulaMetricFetcher(\n", "C12.FALLBACK"),
    ("fallback ids handed over as an un-run generator over a per-iteration local", f"{GEN}._grid_power_formula",
     "                    component_ids=set(fallback_ids),\n",
     "                    component_ids=(i for _once in (0,) for i in fallback_ids),\n", "C12.FALLBACK"),
    ("CHPs behind an accepted meter are removed from the list that is being walked (inner loop)", f"{GEN}._chp_power_formula",
     "            chp_meters.add(meter.component_id)\n        return chp_meters\n",
     "            chp_meters.add(meter.component_id)\n            for successor in meter_successors:\n"
     "                chps.remove(successor)\n        return chp_meters\n", "C12.VISIT"),
    ("summed grid successors are discarded from the walked set under an alias, behind enumerate()", f"{GEN}._grid_power_formula_base",
     "            for idx, comp in enumerate(components):\n                if idx > 0:\n",
     "            todo = components\n            for idx, comp in enumerate(components):\n                todo.discard(comp)\n"
     "                if idx > 0:\n", "C12.VISIT"),
    ("a nested helper that is handed the walked components drops the ones it believes covered", f"{GEN}._formula_generator",
     "        for component in components:\n            if component.category == ComponentCategory.METER:\n",
     "        def covered(pool: set[Component], done: Component) -> None:\n            pool.discard(done)\n\n"
     "        for component in components:\n            covered(components, component)\n"
     "            if component.category == ComponentCategory.METER:\n", "C12.VISIT"),
]


def run_rules(run: Run, prog: Program) -> None:
    cx = Ctx(prog)
    check_part(run, cx)
    check_meter(run, cx)
    check_dfs(run, cx)
    check_emit(run, cx)
    check_fallback(run, cx)
    check_visit(run, cx)
    for helper in cx.folder.read.values():  # private helpers read in line are part of what the rules depend on
        if helper.outer is None:
            run.analysed(helper.qual)


def check(run: Run, prog: Program, tier: str) -> str:
    run.rule("C12.PART", "the three consumer-side sibling predicates, the graph's chain predicates and producer+pool kinds name the same chain kinds")
    run.rule("C12.METER", "four is_*_meter siblings share their conjuncts up to the leaf; chains are leaf-or-meter; "
             "pairing and meter fallback use the four leaf kinds separately")
    run.rule("C12.DFS", "dfs stops at the first match, marks visited first, recurses over all successors")
    run.rule("C12.EMIT", "sum loops emit one metric per term with an operator between terms; nones_are_zeros = category != METER; "
             "grid power over every measurable grid successor")
    run.rule("C12.FALLBACK", "the fallback formula recorded for a primary component is filed under that primary and computed from "
             "its own fallback components and this iteration's values only (no state carried across primaries, no late-bound closure)")
    run.rule("C12.VISIT", "no loop / comprehension of the formula generators or the component graph resizes or reorders the collection "
             "it is walking (by name, under an alias, in an inner loop, or in a helper that is handed the collection)")
    run_rules(run, prog)
    run.floor("C12.VISIT", 20)
    run.floor("C12.FALLBACK", 3)
    run.floor("C12.PART", 8)
    run.floor("C12.METER", 11)
    run.floor("C12.DFS", 4)
    run.floor("C12.EMIT", 20)
    from ..engine.controls import run_controls

    by_rule = {"C12.PART": check_part, "C12.METER": check_meter, "C12.DFS": check_dfs, "C12.EMIT": check_emit,
               "C12.FALLBACK": check_fallback, "C12.VISIT": check_visit}
    run_controls(run, CONTROLS, run_rules, tier, select=lambda rule: (lambda r, p: by_rule[rule](r, Ctx(p))))
    run.undecided("that these traversals produce the true totals on every valid component graph (nested meters, "
                  "mixed meters, unmetered load): a graph-algorithm correctness statement over all topologies — "
                  "enumerating graphs is a different family. Only the classification / traversal / emission "
                  "structure above is decided.")
    run.assume("frozen table: battery and EV-charger formulas take their component ids from the pools, so only "
               "pv and chp are searched by the producer formula")
    return ("Table/sibling extractors: the chain-kind sets named by sibling predicates and the conjunct sets of "
            "the four meter predicates are read from each predicate's symbolic return expression (locals "
            "substituted, helpers expanded, canonical boolean form) and compared; dfs, the primary/fallback "
            "pairing and the emission grammar of every sum loop are checked with CFG path rules whose roles "
            "are bound by dataflow. This decides necessary structural conditions only, not the balance "
            "identity over all graphs.")
