"""C09  Ring buffer / moving window behaves as a sliding time-indexed map.

Structural clauses decided (DESIGN.md §2 C09, §7.2):
  C09.NORM   grid-alignment typestate: every datetime is `aligned` (on the slot grid) or `raw`;
             fields, gap boundaries, the datetime arguments of private methods that need them aligned
             (the anchored slot-arithmetic methods always; any other private method iff one of its own
             sinks fails when it is read with raw arguments), dividends of floor-divisions by the
             sampling period, and the operands of the emptiness guard before the slot-index
             computation must be aligned.  Methods are read with simple private helpers spliced in;
             the qualifier returned by other private helpers is inferred from their body.
  C09.VALID  decided per symbolic path (sa/props/_c09_util.py: ordered paths = sympath paths that also
             record *where* each atomic condition was decided; helpers spliced in, locals substituted):
             update(): every write of the time bounds / data / gap list (direct, or through a method of
             `self` whose transitive mutation summary touches them) happens after `T < _timestamp_oldest`
             was decided false or the buffer was found empty (sentinel bound), and every path on which
             T is too old for a non-empty window raises IndexError without any such write;
             window(): the datetimes whose slot positions are passed to _wrapped_buffer_window are
             bounded below by oldest_timestamp resp. above by newest_timestamp + period (max/min in any
             argument order, through normalize_timestamp, or entailed by the path conditions), the path
             has established start < end on exactly those values before the first index computation,
             and a returning path with fill_value not None returns _fill_gaps(<that data>, fill_value,
             <that start>, self.gaps);
             MovingWindow.at: every `self._buffer[...]` read is at to_internal_index(K) with
             oldest <= K <= newest established (datetime key) or at get_timestamp(J) with
             -count_covered() <= J < count_covered() established (index key), on a non-empty buffer, and
             every path that finds such a position out of range raises IndexError.
  C09.GAP    every Gap built by _update_gaps starts no later than the first unwritten slot; a missing
             sample that is not inside a gap records one; _fill_gaps stores only into slices clamped to
             [0, len(data)] (loop body walked with the locals defined before the loop substituted in).
  C09.IDX    slot number = round((normalised T - alignment origin) / sampling period) modulo capacity.
The gap-list/data consistency over all histories is NOT decided (inductive data-structure
invariant, out of reach for this family).
"""
from __future__ import annotations

import ast
from typing import Any

from ..engine.normalize import ANCHOR_NAMES, inline_helpers, positional
from ..engine.report import AnalysisError, Run
from ..engine.resolver import FuncInfo, Program, walk_no_nested
from ..engine.sympath import Path
from ..engine.util import method_call, u
from ._c09_util import (
    MutationSummary, decided, entails_le, entails_lt, first_call, func_params, index_of, loop_paths,
    lower_bounded, ordered_paths, self_attr_root, subscripts_of, upper_bounded,
)

BUF = "timeseries._ringbuffer.buffer"
MW = "timeseries._moving_window"

ALIGNED_ATTRS = {
    "_timestamp_newest", "_timestamp_oldest", "_TIMESTAMP_MIN", "_TIMESTAMP_MAX",
    "time_bound_oldest", "time_bound_newest", "oldest_timestamp", "newest_timestamp",
    "_time_index_alignment",
}
PERIOD_ATTRS = {"_sampling_period", "_full_time_range", "sampling_period"}
ALIGNED_CALLS = {"normalize_timestamp", "get_timestamp"}

A, R, P, I, N, Q = "aligned", "raw", "period", "int", "none", "?"


def join(a: str, b: str) -> str:
    if a == b:
        return a
    if a == N:
        return b
    if b == N:
        return a
    if R in (a, b):
        return R
    return Q


class Typestate:
    """Flow-sensitive qualifier inference over one method of OrderedRingBuffer."""

    def __init__(self, run: Run, fn: FuncInfo, aligned_params: set[str], raw_params: set[str],
                 scan: bool = True, ret_qual: Any = None) -> None:
        self.run = run
        self.fn = fn
        self.sinks: list[tuple[str, ast.AST, str, str]] = []  # (what, node, qualifier, expr)
        self.returns: list[tuple[ast.AST, str]] = []
        self.ret_qual = ret_qual  # qualifier of the value returned by a private method of the class
        env: dict[str, str] = {}
        for a in fn.node.args.posonlyargs + fn.node.args.args + fn.node.args.kwonlyargs:
            if a.annotation is not None and u(a.annotation) == "int":
                env[a.arg] = I
        for p in aligned_params:
            env[p] = A
        for p in raw_params:
            env[p] = R
        if scan:
            self.block(fn.node.body, env)

    # ------------------------------------------------------------ expressions
    def q(self, e: ast.AST | None, env: dict[str, str]) -> str:
        if e is None:
            return N
        if isinstance(e, ast.Constant):
            if e.value is None:
                return N
            if isinstance(e.value, int) and not isinstance(e.value, bool):
                return I
            return Q
        if isinstance(e, ast.Name):
            return env.get(e.id, Q)
        if isinstance(e, ast.Attribute):
            base = u(e.value)
            if base == "self" or base.startswith("self."):
                if e.attr in ALIGNED_ATTRS:
                    return A
                if e.attr in PERIOD_ATTRS:
                    return P
                return Q
            if e.attr in ("start", "end"):
                return A  # Gap boundaries (invariant re-checked at every store, sink GAP)
            if e.attr == "timestamp":
                return R  # sample.timestamp
            return Q
        if isinstance(e, ast.Call):
            if isinstance(e.func, ast.Attribute) and u(e.func.value).startswith("self") \
                    and e.func.attr in ALIGNED_CALLS:
                return A
            if isinstance(e.func, ast.Attribute) and u(e.func.value) == "self" and self.ret_qual is not None \
                    and e.func.attr.startswith("_") and not e.func.attr.startswith("__"):
                return self.ret_qual(e.func.attr)
            name = u(e.func)
            if name in ("max", "min"):
                args = list(e.args)
                if len(args) == 1 and isinstance(args[0], (ast.GeneratorExp, ast.ListComp)):
                    return self.q(args[0].elt, env)
                out = N
                for a in args:
                    out = join(out, self.q(a, env))
                return out
            if name in ("deepcopy", "copy"):
                return self.q(e.args[0], env) if e.args else Q
            if name in ("int", "len", "round"):
                return I
            return Q
        if isinstance(e, ast.BinOp):
            l, r = self.q(e.left, env), self.q(e.right, env)
            if isinstance(e.op, (ast.Add, ast.Sub)):
                if R in (l, r):
                    return R
                if l == A and r == P:
                    return A
                if l == P and r == A and isinstance(e.op, ast.Add):
                    return A
                if l == A and r == A and isinstance(e.op, ast.Sub):
                    return P
                if l == P and r == P:
                    return P
                if l == I and r == I:
                    return I
                return Q
            if isinstance(e.op, ast.Mult):
                if {l, r} == {I, P}:
                    return P
                if l == I and r == I:
                    return I
                return Q
            if isinstance(e.op, (ast.FloorDiv, ast.Mod)) and l == I and r == I:
                return I
            return Q
        if isinstance(e, ast.IfExp):
            return join(self.q(e.body, env), self.q(e.orelse, env))
        if isinstance(e, ast.NamedExpr):
            v = self.q(e.value, env)
            if isinstance(e.target, ast.Name):
                env[e.target.id] = v
            return v
        return Q

    # ------------------------------------------------------------ statements
    def block(self, stmts: list[ast.stmt], env: dict[str, str]) -> None:
        for s in stmts:
            self.stmt(s, env)

    def scan_expr(self, e: ast.AST, env: dict[str, str]) -> None:
        """Sinks inside an expression: Gap(...) arguments, private-method arguments, comparisons."""
        for n in walk_no_nested(e):
            if isinstance(n, ast.Call):
                name = u(n.func)
                if name == "Gap":
                    vals = {k.arg: k.value for k in n.keywords}
                    for i, a in enumerate(n.args[:2]):
                        vals[("start", "end")[i]] = a
                    for k in ("start", "end"):
                        if k in vals:
                            self.sinks.append(("GAP", n, self.q(vals[k], env), f"Gap({k}={u(vals[k])})"))
                elif isinstance(n.func, ast.Attribute) and u(n.func.value) == "self" \
                        and n.func.attr in PRIVATE_ALIGNED:
                    if any(isinstance(a, ast.Starred) for a in n.args) or any(k.arg is None for k in n.keywords):
                        raise AnalysisError(f"{self.fn.qual}: cannot bind the arguments of {u(n)[:80]}")
                    bound = positional(n, PRIVATE_PARAMS[n.func.attr])
                    for idx in PRIVATE_ALIGNED[n.func.attr]:
                        arg = bound.get(PRIVATE_PARAMS[n.func.attr][idx])
                        if arg is not None:
                            self.sinks.append((
                                "ARG", n, self.q(arg, env),
                                f"self.{n.func.attr}(... {u(arg)} ...) [parameter {idx}]"))
            elif isinstance(n, ast.BinOp) and isinstance(n.op, (ast.FloorDiv, ast.Mod)) \
                    and self.q(n.right, env) == P:
                ql = self.q(n.left, env)
                self.sinks.append(("DIV", n, A if ql == P else ql, f"{u(n)[:80]} [dividend: {ql}]"))

    def store(self, tgt: ast.AST, val: str, env: dict[str, str], node: ast.AST) -> None:
        if isinstance(tgt, ast.Name):
            env[tgt.id] = val
        elif isinstance(tgt, ast.Attribute):
            base = u(tgt.value)
            if base == "self" and tgt.attr in ("_timestamp_newest", "_timestamp_oldest"):
                self.sinks.append(("FIELD", node, val, f"self.{tgt.attr} = ..."))
            elif base != "self" and tgt.attr in ("start", "end"):
                self.sinks.append(("GAP", node, val, f"{u(tgt)} = ..."))
        elif isinstance(tgt, (ast.Tuple, ast.List)):
            for t in tgt.elts:
                self.store(t, Q, env, node)

    def stmt(self, s: ast.stmt, env: dict[str, str]) -> None:
        if isinstance(s, ast.Assign):
            self.scan_expr(s.value, env)
            val = self.q(s.value, env)
            for t in s.targets:
                if isinstance(t, (ast.Tuple, ast.List)) and isinstance(s.value, (ast.Tuple, ast.List)) \
                        and len(t.elts) == len(s.value.elts):
                    vals = [self.q(v, env) for v in s.value.elts]
                    for tt, vv in zip(t.elts, vals):
                        self.store(tt, vv, env, s)
                else:
                    self.store(t, val, env, s)
        elif isinstance(s, ast.AnnAssign):
            if s.value is not None:
                self.scan_expr(s.value, env)
                self.store(s.target, self.q(s.value, env), env, s)
        elif isinstance(s, ast.AugAssign):
            self.scan_expr(s.value, env)
            cur = self.q(s.target, env)
            fake = ast.BinOp(left=s.target, op=s.op, right=s.value)
            self.store(s.target, self.q(fake, env) if cur != Q else Q, env, s)
        elif isinstance(s, ast.Expr):
            self.scan_expr(s.value, env)
        elif isinstance(s, ast.Return):
            if s.value is not None:
                self.scan_expr(s.value, env)
                self.returns.append((s, self.q(s.value, env)))
        elif isinstance(s, ast.If):
            self.scan_expr(s.test, env)
            e1, e2 = dict(env), dict(env)
            self.block(s.body, e1)
            self.block(s.orelse, e2)
            t1 = _terminates(s.body)
            t2 = _terminates(s.orelse) if s.orelse else False
            env.clear()
            if t1 and not t2:
                env.update(e2)
            elif t2 and not t1:
                env.update(e1)
            else:
                for k in set(e1) | set(e2):
                    env[k] = join(e1.get(k, Q), e2.get(k, Q)) if k in e1 and k in e2 else Q
        elif isinstance(s, (ast.For, ast.While)):
            if isinstance(s, ast.For):
                self.scan_expr(s.iter, env)
                for n in ast.walk(s.target):
                    if isinstance(n, ast.Name):
                        env[n.id] = Q
            else:
                self.scan_expr(s.test, env)
            before = dict(env)
            for _ in range(2):
                self.block(s.body, env)
                for k in list(env):
                    env[k] = join(env[k], before.get(k, env[k]))
            if s.orelse:
                self.block(s.orelse, env)
        elif isinstance(s, ast.Try):
            self.block(s.body, env)
            for h in s.handlers:
                self.block(h.body, dict(env))
            self.block(s.orelse, env)
            self.block(s.finalbody, env)
        elif isinstance(s, ast.With):
            self.block(s.body, env)
        elif isinstance(s, ast.Assert):
            self.scan_expr(s.test, env)
        elif isinstance(s, (ast.Raise, ast.Pass, ast.Delete, ast.Break, ast.Continue,
                            ast.Import, ast.ImportFrom, ast.FunctionDef)):
            return
        elif isinstance(s, ast.Match):
            for c in s.cases:
                self.block(c.body, dict(env))
        else:
            raise AnalysisError(f"{self.fn.qual}: statement {type(s).__name__} not handled by the "
                                "typestate analysis")


def _terminates(stmts: list[ast.stmt]) -> bool:
    return bool(stmts) and isinstance(stmts[-1], (ast.Return, ast.Raise, ast.Continue, ast.Break))


# private methods doing slot arithmetic on these positional parameters (index after self)
PRIVATE_ALIGNED: dict[str, list[int]] = {}
PRIVATE_PARAMS: dict[str, list[str]] = {}   # parameter names (after self) of those methods


def _datetime_params(fn: FuncInfo) -> list[tuple[int, str]]:
    out = []
    args = fn.node.args.posonlyargs + fn.node.args.args
    for i, a in enumerate(args[1:]):
        if a.annotation is not None and "datetime" in u(a.annotation):
            out.append((i, a.arg))
    return out


def check_norm(run: Run, prog: Program) -> None:
    cls = prog.cls(f"{BUF}:OrderedRingBuffer")
    PRIVATE_ALIGNED.clear()
    PRIVATE_PARAMS.clear()
    for name, m in cls.methods.items():
        if name.startswith("_") and not name.startswith("__"):
            idx = [i for i, _ in _datetime_params(m)]
            if idx:
                PRIVATE_ALIGNED[name] = idx
                PRIVATE_PARAMS[name] = func_params(m.node)
    strict = {"_fill_gaps", "_update_gaps", "_remove_gap"}
    if not strict <= set(PRIVATE_ALIGNED):
        raise AnalysisError(f"C09.NORM: private slot-arithmetic methods moved: {sorted(PRIVATE_ALIGNED)}")

    memo: dict[str, str] = {}
    stack: list[str] = []
    trees: dict[str, FuncInfo] = {}

    def tree(m: FuncInfo) -> FuncInfo:
        # simple private helpers are read at their call site (with the actual arguments)
        if m.name not in trees:
            trees[m.name] = FuncInfo(m.name, m.module, inline_helpers(prog, m), m.cls, m.outer)
        return trees[m.name]

    def ret_qual(name: str) -> str:
        """Qualifier of what a private method returns, its datetime parameters being aligned (the ARG
        obligation at every call site)."""
        if name in memo:
            return memo[name]
        callee = prog.resolve_method(cls, name)
        if callee is None or name in stack:
            return Q
        stack.append(name)
        dts = {p for _, p in _datetime_params(callee)}
        sub = Typestate(run, tree(callee), dts if name in PRIVATE_ALIGNED else set(),
                        set() if name in PRIVATE_ALIGNED else dts, ret_qual=ret_qual)
        stack.pop()
        out = N
        for _node, ql in sub.returns:
            out = join(out, ql)
        memo[name] = out if sub.returns else Q
        return memo[name]

    # A private method that is not one of the anchored slot-arithmetic methods only *needs* aligned datetime
    # arguments if, read with raw ones, one of its own sinks fails (e.g. a new helper that clamps a raw query
    # bound needs none; one that stores its argument into a time bound does).  Greatest fixpoint downwards.
    changed = True
    while changed:
        changed = False
        for name in sorted(set(PRIVATE_ALIGNED) - strict - ANCHOR_NAMES):
            m = cls.methods[name]
            memo.clear()
            trial = Typestate(run, tree(m), set(), {p for _, p in _datetime_params(m)}, ret_qual=ret_qual)
            if all(qual == A for _w, _n, qual, _t in trial.sinks):
                del PRIVATE_ALIGNED[name]
                changed = True
    memo.clear()

    n_sinks = 0
    for name, m in cls.methods.items():
        if name in ("normalize_timestamp", "__init__"):
            continue
        run.analysed(m.qual)
        dps = _datetime_params(m)
        private = name in PRIVATE_ALIGNED
        spliced = tree(m)
        ts = Typestate(run, spliced,
                       aligned_params={p for _, p in dps} if private else set(),
                       raw_params=set() if private else {p for _, p in dps}, ret_qual=ret_qual)
        for what, node, qual, text in ts.sinks:
            n_sinks += 1
            rule = "C09.NORM"
            inst = f"{m.qual}: {what} {text}"
            if what == "DIV":
                msg = ("floor-division slot arithmetic on a time distance that is not provably a whole number "
                       "of sampling periods (results shift by one slot)")
            elif what == "ARG":
                msg = ("a datetime that is not provably on the slot grid is passed to a private "
                       "method doing floor-division slot arithmetic on it (results shift by one slot)")
            elif what == "FIELD":
                msg = "a buffer time bound is set to a datetime that is not provably on the slot grid"
            else:
                msg = "a gap boundary is set to a datetime that is not provably on the slot grid"
            run.check(qual == A, rule, m.qual, node, f"{msg} — qualifier: {qual}; {text}",
                      node=node, file=m.file, instance=inst)
        if name in ("oldest_timestamp", "newest_timestamp", "time_bound_oldest",
                    "time_bound_newest", "get_timestamp"):
            for node, qual in ts.returns:
                n_sinks += 1
                run.check(qual in (A, N), "C09.NORM", m.qual, node,
                          f"{name} is relied upon as an aligned source but returns a value of "
                          f"qualifier {qual}", node=node, file=m.file)
    # normalize_timestamp defines the grid: align + n * period (on every returning path)
    nt = cls.methods.get("normalize_timestamp")
    if nt is None:
        raise AnalysisError("normalize_timestamp not found")
    run.analysed(nt.qual)
    ok, n_ret, wit = True, 0, None
    for p in ordered_paths(prog, nt):
        if p.exit != "return":
            continue
        n_ret += 1
        r = p.ret
        good = False
        if isinstance(r, ast.BinOp) and isinstance(r.op, ast.Add):
            for al, mul in ((r.left, r.right), (r.right, r.left)):
                if u(al) == "self._time_index_alignment" and isinstance(mul, ast.BinOp) \
                        and isinstance(mul.op, ast.Mult) and STEP in (u(mul.left), u(mul.right)):
                    good = True
        if not good:
            ok, wit = False, p
    run.check(ok and n_ret > 0, "C09.NORM", nt.qual, "return align_to + n * sampling_period",
              "normalize_timestamp does not return a point of the grid align_to + n*period",
              node=nt.node, file=nt.file, path=wit.describe() if wit is not None else None)
    if n_sinks < 12:
        raise AnalysisError(f"C09.NORM: only {n_sinks} alignment sinks found")


# ---------------------------------------------------------------------------------------------
STATE = {"_timestamp_newest", "_timestamp_oldest", "_buffer", "_gaps"}
OLDEST_F, NEWEST_F = "self._timestamp_oldest", "self._timestamp_newest"
EMPTY_SENTINELS = (frozenset({OLDEST_F, "self._TIMESTAMP_MAX"}), frozenset({NEWEST_F, "self._TIMESTAMP_MIN"}))
STEP = "self._sampling_period"


def _ring(prog: Program) -> Any:
    return prog.cls(f"{BUF}:OrderedRingBuffer")


def _bound_args(prog: Program, call: ast.Call) -> dict[str, ast.AST]:
    """Arguments of a call of an OrderedRingBuffer method keyed by parameter name (keyword == positional)."""
    if not isinstance(call.func, ast.Attribute):
        raise AnalysisError(f"cannot resolve call {u(call)[:80]}")
    m = prog.resolve_method(_ring(prog), call.func.attr)
    if m is None or any(isinstance(a, ast.Starred) for a in call.args) or any(k.arg is None for k in call.keywords):
        raise AnalysisError(f"cannot bind the arguments of {u(call)[:80]}")
    return positional(call, func_params(m.node))


def _param(prog: Program, method: str, idx: int) -> str:
    m = prog.resolve_method(_ring(prog), method)
    if m is None:
        raise AnalysisError(f"OrderedRingBuffer.{method} not found")
    ps = func_params(m.node)
    if idx >= len(ps):
        raise AnalysisError(f"OrderedRingBuffer.{method}: parameter {idx} not found")
    return ps[idx]


def _is_index_error(p: Path) -> bool:
    return p.exit == "raise" and p.ret is not None and "IndexError" in u(p.ret)


def _mutations(p: Path, summ: MutationSummary) -> list[tuple[int, str, str, int]]:
    """(position on the path, state attribute, text, line) of every write of the buffer state."""
    out = []
    for i, e in enumerate(p.effects):
        if e.kind == "write":
            tgt, val = e.node.elts  # type: ignore[attr-defined]
            r = self_attr_root(tgt)
            if r in STATE:
                out.append((i, r, f"{u(tgt)} = {u(val)}", e.lineno))
        elif e.kind == "del":
            r = self_attr_root(e.node)
            if r in STATE:
                out.append((i, r, f"del {u(e.node)}", e.lineno))
        elif e.kind == "call":
            for r in sorted(summ.of_call(e.node) & STATE):  # type: ignore[arg-type]
                out.append((i, r, u(e.node), e.lineno))
    return out


def _too_old_marks(p: Path) -> list[tuple[int, str, bool]]:
    """(position, T, outcome) of every decided `T < self._timestamp_oldest` (in any spelling)."""
    out = []
    for i, e in enumerate(p.effects):
        if e.kind != "cond":
            continue
        key, outcome = e.orig  # type: ignore[misc]
        if isinstance(key, tuple) and len(key) == 3 and key[0] == "<" and key[2] == OLDEST_F:
            out.append((i, key[1], outcome))
        elif isinstance(key, tuple) and len(key) == 3 and key[0] == "<=" and key[1] == OLDEST_F:
            out.append((i, key[2], not outcome))
    return out


def _empty_before(p: Path, before: int | None) -> bool:
    """The path has established (before that position) that nothing was written yet (sentinel bounds)."""
    return any(decided(p, ("==", s), before) is True for s in EMPTY_SENTINELS)


def _through_normalize(prog: Program) -> Any:
    """normalize_timestamp is monotone and fixes grid points: a bound by an aligned limit survives it."""
    def through(c: ast.Call) -> ast.AST | None:
        if method_call(c, "self", "normalize_timestamp"):
            args = _bound_args(prog, c)
            if len(args) == 1:
                return next(iter(args.values()))
        return None
    return through


def _index_arg(prog: Program, e: ast.AST | None, base: str, what: str) -> ast.AST:
    """e == `<base>.to_internal_index(X)` -> X."""
    if not (isinstance(e, ast.Call) and method_call(e, base, "to_internal_index")):
        raise AnalysisError(f"{what}: cannot relate slot position `{u(e)[:80]}` to a datetime")
    args = _bound_args(prog, e)
    tparam = _param(prog, "to_internal_index", 0)
    extra = {k: v for k, v in args.items() if k != tparam}
    if tparam not in args or any(not (isinstance(v, ast.Constant) and v.value is False) for v in extra.values()):
        raise AnalysisError(f"{what}: unexpected arguments in `{u(e)[:80]}`")
    return args[tparam]


def check_valid(run: Run, prog: Program) -> None:  # noqa: C901
    check_valid_update(run, prog)
    check_valid_window(run, prog)
    check_valid_at(run, prog)


def check_valid_update(run: Run, prog: Program) -> None:
    """update(): reject-before-mutate, decided per symbolic path (helpers spliced in / summarised)."""
    up = prog.func(f"{BUF}:OrderedRingBuffer.update")
    run.analysed(up.qual)
    summ = MutationSummary(prog, _ring(prog))
    paths = ordered_paths(prog, up)
    kinds: set[str] = set()
    sites: dict[tuple[int, str], tuple[bool, Path]] = {}
    rejecting: list[Path] = []
    for p in paths:
        marks = _too_old_marks(p)
        muts = _mutations(p, summ)
        kinds |= {r for _i, r, _t, _l in muts}
        if any(o for _i, _t, o in marks) and not _empty_before(p, None):
            # the timestamp is older than the oldest slot of a non-empty window: reject, touch nothing
            rejecting.append(p)
            ok = _is_index_error(p) and not muts
            run.check(ok, "C09.VALID", up.qual, f"if {marks[0][1]} < self._timestamp_oldest [and written]: raise IndexError",
                      "the too-old test does not lead to `raise IndexError` before any mutation",
                      node=up.node, file=up.file, path=p.describe())
            continue
        for i, _r, text, line in muts:
            ok = any(pos < i and not o for pos, _t, o in marks) or _empty_before(p, i)
            prev = sites.get((line, text))
            if prev is None or (prev[0] and not ok):
                sites[(line, text)] = (ok, p)
    if not {"_timestamp_newest", "_timestamp_oldest", "_buffer", "_gaps"} <= kinds:
        raise AnalysisError(f"{up.qual}: expected writes of both time bounds, the data and the gap list, "
                            f"found {sorted(kinds)}")
    run.check(bool(rejecting), "C09.VALID", up.qual, "timestamp < self._timestamp_oldest",
              "update() does not reject exactly the timestamps older than the window "
              "(strict `<` against the oldest slot): no rejection test against self._timestamp_oldest found",
              node=up.node, file=up.file)
    for (line, text), (ok, p) in sorted(sites.items()):
        run.check(ok, "C09.VALID", up.qual, text,
                  "state is mutated on a path that has not passed the too-old rejection test",
                  node=ast.Pass(lineno=line), file=up.file, path=p.describe(),
                  instance=f"{up.qual}: `{text[:50]}` dominated by the too-old test")


def check_valid_window(run: Run, prog: Program) -> None:  # noqa: C901
    """window(): clamp-before-index, empty guard (on aligned operands), fill-before-return; per path."""
    wn = prog.func(f"{BUF}:OrderedRingBuffer.window")
    run.analysed(wn.qual)
    paths = ordered_paths(prog, wn)
    through = _through_normalize(prog)
    p_start, p_end = _param(prog, "_wrapped_buffer_window", 1), _param(prog, "_wrapped_buffer_window", 2)
    f_data, f_fill, f_origin, f_gaps = (_param(prog, "_fill_gaps", i) for i in range(4))
    fv = "fill_value"
    if fv not in wn.params:
        raise AnalysisError(f"{wn.qual}: public parameter fill_value not found")
    quals = Typestate(run, wn, set(), {p for _, p in _datetime_params(wn)}, scan=False)
    env0 = {p: R for _, p in _datetime_params(wn)}
    lower = {"self.oldest_timestamp"}
    upper = {f"self.newest_timestamp + {STEP}"}
    n = 0
    for p in paths:
        ws = p.calls(lambda c: method_call(c, None, "_wrapped_buffer_window"))
        if not ws:
            if p.calls(lambda c: method_call(c, "self", "to_internal_index")):
                raise AnalysisError(f"{wn.qual}: slot positions computed on a path without a data fetch")
            continue
        if len(ws) != 1:
            raise AnalysisError(f"{wn.qual}: {len(ws)} data fetches on one path")
        n += 1
        w = ws[0]
        wpos = index_of(p, w)
        a = _bound_args(prog, w.node)  # type: ignore[arg-type]
        s_pos, e_pos = a.get(p_start), a.get(p_end)
        xs, xe = _index_arg(prog, s_pos, "self", wn.qual), _index_arg(prog, e_pos, "self", wn.qual)
        firsts = [first_call(p, u(s_pos)), first_call(p, u(e_pos))]
        if None in firsts:
            raise AnalysisError(f"{wn.qual}: slot-index computation not found on the path")
        ipos = min(firsts)  # type: ignore[type-var]
        where = dict(node=wn.node, file=wn.file, path=p.describe())
        for x, fname, ok, word in (
                (xs, "max", lower_bounded(p, xs, lower, ipos, through), "oldest stored slot"),
                (xe, "min", upper_bounded(p, xe, upper, ipos, through), "slot after the newest")):
            run.check(ok, "C09.VALID", wn.qual, f"{fname}(<query bound>, <{word}>)",
                      f"the slot index of `{u(x)[:80]}` is computed without first clamping it to the "
                      f"{word}: data outside the covered range (evicted/unwritten slots) is exposed",
                      instance=f"{wn.qual}: clamp to the {word} dominates to_internal_index", **where)
        run.check(entails_lt(p, xs, xe, ipos), "C09.VALID", wn.qual, "if start >= end: return empty",
                  "slot positions are computed without the empty-range guard: equal positions make "
                  "_wrapped_buffer_window return the whole buffer", **where)
        for x in (xs, xe):
            ql = quals.q(x, dict(env0))
            run.check(ql == A, "C09.NORM", wn.qual, "start >= end",
                      "the emptiness/ordering guard before the slot-index computation compares "
                      "un-normalised datetimes: two times inside the same slot pass `start < end` "
                      f"yet map to the same slot index, and the whole buffer is returned — qualifier: {ql}; "
                      f"{u(x)[:100]}", instance=f"{wn.qual}: CMP operand {u(x)[:60]}", **where)
        if p.exit != "return":
            continue
        ok = decided(p, ("is", frozenset({fv, "None"}))) is True
        if not ok:
            for f in p.calls(lambda c: method_call(c, "self", "_fill_gaps")):
                if index_of(p, f) < wpos:
                    continue
                fa = _bound_args(prog, f.node)  # type: ignore[arg-type]
                ok = u(fa.get(f_origin)) == u(xs) and u(fa.get(f_gaps)) in ("self.gaps", "self._gaps") \
                    and u(w.node) in u(fa.get(f_data)) and u(fa.get(f_fill)) == fv \
                    and p.ret is not None and u(p.ret) in (u(f.node), u(fa.get(f_data)))
                if ok:
                    break
        run.check(ok, "C09.VALID", wn.qual, "if fill_value is not None: window = self._fill_gaps(window, "
                  "fill_value, <clamped start>, self.gaps)",
                  "a non-empty window can be returned without the gaps being filled from the clamped "
                  "start although fill_value was given (stale/unwritten slot values leak)", **where)
    if not n:
        raise AnalysisError(f"{wn.qual}: _wrapped_buffer_window call not found")


def _nonzero(p: Path, n: str) -> bool:
    tests = [(("truthy", n), True), (("<", "0", n), True), (("<=", "1", n), True),
             (("==", frozenset({n, "0"})), False), (("<=", n, "0"), False), (("<", n, "1"), False)]
    return any(decided(p, key) is pol for key, pol in tests)


def check_valid_at(run: Run, prog: Program) -> None:  # noqa: C901
    """MovingWindow.at: every buffer read is range-checked on both sides, exactly against the covered range."""
    at = prog.func(f"{MW}:MovingWindow.at")
    run.analysed(at.qual)
    paths = ordered_paths(prog, at)
    buf = "self._buffer"
    oldest, newest = f"{buf}.oldest_timestamp", f"{buf}.newest_timestamp"
    covered = (f"{buf}.count_covered()", "self.count_covered()", "len(self)")
    forms: set[str] = set()
    all_ok = True
    positions: dict[str, set[str]] = {"datetime": set(), "index": set()}

    def in_range(p: Path, kind: str, k: ast.AST) -> tuple[bool, bool]:
        if kind == "datetime":
            return entails_le(p, oldest, k), entails_le(p, k, newest)
        return (any(entails_le(p, f"-{c}", k) for c in covered),
                any(entails_lt(p, k, c) for c in covered))

    def out_of_range(p: Path, kind: str, k: str) -> bool:
        if kind == "datetime":
            return entails_lt(p, k, oldest) or entails_lt(p, newest, k)
        return any(entails_lt(p, k, f"-{c}") or (c != k and entails_le(p, c, k) and not entails_le(p, k, c))
                   for c in covered)

    for p in paths:
        exprs = [p.ret] + [e.node for e in p.effects if e.kind in ("call", "write")]
        seen: set[str] = set()
        for x in exprs:
            for sub in subscripts_of(x, buf):
                if u(sub) in seen:
                    continue
                seen.add(u(sub))
                k = _index_arg(prog, sub.slice, buf, at.qual)
                kind = "datetime"
                if isinstance(k, ast.Call) and method_call(k, buf, "get_timestamp"):
                    ga = _bound_args(prog, k)
                    if len(ga) != 1:
                        raise AnalysisError(f"{at.qual}: cannot bind {u(k)}")
                    k, kind = next(iter(ga.values())), "index"
                forms.add(kind)
                positions[kind].add(u(k))
                lo, hi = in_range(p, kind, k)
                all_ok = all_ok and lo and hi
                run.check(lo and hi, "C09.VALID", at.qual, f"return {u(sub)}",
                          "the buffer is read at a position derived from the key without a two-sided range "
                          "check against the covered range (IndexError on both ends): out-of-range indices "
                          "return unwritten or wrapped-around slots"
                          + ("" if lo else " — lower side not established")
                          + ("" if hi else " — upper side not established"),
                          node=at.node, file=at.file, path=p.describe(),
                          instance=f"{at.qual}: read `{u(sub)[:60]}` dominated by a two-sided range guard")
                run.check(_nonzero(p, f"{buf}.count_valid()"), "C09.VALID", at.qual,
                          "if self._buffer.count_valid() == 0: raise IndexError",
                          "a read is possible on an empty buffer", node=at.node, file=at.file, path=p.describe())
    if forms != {"datetime", "index"}:
        raise AnalysisError(f"{at.qual}: expected a buffer read per key kind, found {sorted(forms)}")
    # a position found out of range is rejected with IndexError
    n = 0
    for p in paths:
        for kind, ks in positions.items():
            for k in sorted(ks):
                if out_of_range(p, kind, k):
                    n += 1
                    run.check(_is_index_error(p), "C09.VALID", at.qual, f"{k} out of range: raise IndexError",
                              "a position outside the covered range is not rejected with IndexError",
                              node=at.node, file=at.file, path=p.describe())
    if all_ok and n < 4:
        raise AnalysisError(f"{at.qual}: only {n} rejecting paths found for the two key kinds")


def _gap_args(c: ast.Call) -> dict[str, ast.AST]:
    return positional(c, ["start", "end"])


def check_gaps(run: Run, prog: Program) -> None:  # noqa: C901
    """C09.GAP: forward jumps mark every skipped slot; gap filling writes only inside the window."""
    fn = prog.func(f"{BUF}:OrderedRingBuffer._update_gaps")
    run.analysed(fn.qual)
    ts, newest, rec = fn.params[1], fn.params[2], fn.params[3]
    first_unwritten = f"{newest} + {STEP}"
    paths = ordered_paths(prog, fn)
    gap_sites: set[int] = set()
    missing_recorded = 0
    for p in paths:
        gaps = p.calls(lambda c: u(c.func) == "Gap")
        for g in gaps:
            gap_sites.add(g.lineno)
            start = _gap_args(g.node).get("start")  # type: ignore[arg-type]
            if start is None:
                raise AnalysisError(f"{fn.qual}: Gap(...) without start")
            ok = upper_bounded(p, start, {first_unwritten, OLDEST_F}, index_of(p, g))
            run.check(ok, "C09.GAP", fn.qual, g.node,
                      f"a gap recorded by update() starts at `{u(start)}`: when the new sample jumps ahead of "
                      f"`{newest} + period`, the skipped (never written) slots before it are not marked as "
                      "missing, so count_valid/gaps/window() treat evicted data as valid",
                      node=ast.Pass(lineno=g.lineno), file=fn.file, path=p.describe(),
                      instance=f"{fn.qual}: {u(g.node)[:60]} starts no later than the first unwritten slot")
        # a missing sample that is not inside a gap yet is recorded as one
        if decided(p, ("truthy", rec)) is True and p.exit != "raise":
            known = decided(p, ("truthy", f"self.is_missing({ts})"))
            if gaps:
                missing_recorded += 1
            if known is False:
                run.check(bool(gaps), "C09.GAP", fn.qual, "missing sample -> gap recorded",
                          "a missing (None/NaN) sample is not recorded as a gap", node=fn.node, file=fn.file,
                          path=p.describe())
    if len(gap_sites) < 3:
        raise AnalysisError(f"{fn.qual}: only {len(gap_sites)} Gap constructions found")
    run.check(missing_recorded > 0, "C09.GAP", fn.qual, "missing sample -> gap recorded",
              "a missing (None/NaN) sample is not recorded as a gap", node=fn.node, file=fn.file)
    # _fill_gaps writes only inside [0, len(data)]
    fg = prog.func(f"{BUF}:OrderedRingBuffer._fill_gaps")
    run.analysed(fg.qual)
    data = fg.params[1]
    fpaths = ordered_paths(prog, fg)
    fpaths = fpaths + loop_paths(fpaths, fg.qual)
    stores: set[int] = set()
    for p in fpaths:
        for i, e in enumerate(p.effects):
            if e.kind != "write":
                continue
            tgt, val = e.node.elts  # type: ignore[attr-defined]
            if not (isinstance(tgt, ast.Subscript) and u(tgt.value) == data):
                continue
            if not isinstance(tgt.slice, ast.Slice) or tgt.slice.step is not None:
                raise AnalysisError(f"{fg.qual}: write `{u(tgt)}` into the window is not a plain slice store")
            stores.add(e.lineno)
            lo, hi = tgt.slice.lower, tgt.slice.upper
            lo_ok = lo is None or lower_bounded(p, lo, {"0"}, i)
            hi_ok = hi is None or upper_bounded(p, hi, {f"len({data})"}, i)
            run.check(lo_ok and hi_ok, "C09.GAP", fg.qual, f"{data}[{u(lo)[:40]}:{u(hi)[:40]}] = {u(val)}",
                      f"the fill writes `{u(tgt)[:160]}` without both indices clamped into [0, len({data})]: "
                      "a slice assignment past the end of a list *extends* it, so a window query returns more "
                      "slots than it spans (and list/numpy containers disagree)",
                      node=ast.Pass(lineno=e.lineno), file=fg.file, path=p.describe())
    if not stores:
        raise AnalysisError(f"{fg.qual}: slice assignments into the window not found")


def check_idx(run: Run, prog: Program) -> None:
    """The slot number of a timestamp is measured from the same origin, in the same unit, as the grid
    normalize_timestamp() snaps to: round((normalized T - _time_index_alignment) / _sampling_period)."""
    from ..engine.normalize import inline_helpers
    from ..engine.sympath import sym_paths
    from ..engine.terms import Poly, TermEval

    fn = prog.func(f"{BUF}:OrderedRingBuffer.to_internal_index")
    nt = prog.func(f"{BUF}:OrderedRingBuffer.normalize_timestamp")
    run.analysed(fn.qual)
    T = fn.params[1]
    ORIGIN, STEP = "self._time_index_alignment", "self._sampling_period"
    te = TermEval()
    want = Poly.atom(f"self.normalize_timestamp({T})") - Poly.atom(ORIGIN)

    def slot_ok(e: ast.AST) -> bool:
        # round(X.total_seconds() / STEP.total_seconds()) | round(X / STEP) | X // STEP   with X = T' - ORIGIN
        if isinstance(e, ast.Call) and u(e.func) in ("round", "int") and len(e.args) == 1 and not e.keywords:
            e = e.args[0]
            if not (isinstance(e, ast.BinOp) and isinstance(e.op, ast.Div)):
                return False
        elif not (isinstance(e, ast.BinOp) and isinstance(e.op, ast.FloorDiv)):
            return False
        num, den = e.left, e.right
        secs = lambda x: isinstance(x, ast.Call) and isinstance(x.func, ast.Attribute) \
            and x.func.attr == "total_seconds" and not x.args  # noqa: E731
        if secs(num) and secs(den):
            num, den = num.func.value, den.func.value  # type: ignore[union-attr]
        elif secs(num) or secs(den):
            return False
        return u(den) == STEP and te.ev(num) == want

    n = 0
    for p in sym_paths(inline_helpers(prog, fn)):
        if p.exit != "return":
            continue
        n += 1
        r = p.ret
        ok = isinstance(r, ast.Call) and u(r.func) == "self.wrap" and len(r.args) == 1 and not r.keywords \
            and slot_ok(r.args[0])
        run.check(ok, "C09.IDX", fn.qual, "wrap(round((normalize(T) - _time_index_alignment) / _sampling_period))",
                  "the storage slot of a timestamp is not computed from the normalised timestamp's distance to "
                  "the alignment origin in sampling periods: normalize_timestamp() snaps to the "
                  "_time_index_alignment grid, so with another origin (e.g. the UNIX epoch) neighbouring slots "
                  f"can round onto the same cell and overwrite each other (found {u(r)[:120]})",
                  node=fn.node, file=fn.file, path=p.describe())
    if not n:
        raise AnalysisError(f"{fn.qual}: no return path")
    # the grid normalize_timestamp snaps to has that origin and step
    ok, wit = True, None
    for p in ordered_paths(prog, nt):
        dm = p.calls(lambda c: u(c.func) == "divmod")
        good = len(dm) == 1 and len(dm[0].node.args) == 2 and not dm[0].node.keywords \
            and u(dm[0].node.args[1]) == STEP \
            and te.ev(dm[0].node.args[0]) == Poly.atom(nt.params[1]) - Poly.atom(ORIGIN)
        if not good:
            ok, wit = False, p
    run.check(ok, "C09.IDX", nt.qual, "divmod(T - _time_index_alignment, _sampling_period)",
              "normalize_timestamp does not snap to the _time_index_alignment + k * _sampling_period grid that "
              "the slot arithmetic assumes", node=nt.node, file=nt.file,
              path=wit.describe() if wit is not None else None)
    wr = prog.func(f"{BUF}:OrderedRingBuffer.wrap")
    rets = [p.ret for p in ordered_paths(prog, wr) if p.exit == "return"]
    ok = bool(rets) and all(
        isinstance(r, ast.BinOp) and isinstance(r.op, ast.Mod) and u(r.left) == wr.params[1]
        and u(r.right) in ("self.maxlen", "len(self._buffer)") for r in rets)
    run.check(ok, "C09.IDX", wr.qual, "wrap(i) = i % maxlen",
              "wrap() is not the slot number modulo the capacity", node=wr.node, file=wr.file)


_GUARD = (
    "        if (\n            timestamp < self._timestamp_oldest\n"
    "            and self._timestamp_oldest != self._TIMESTAMP_MAX\n        ):\n"
    "            raise IndexError(\n"
    "                f\"Timestamp {timestamp} too old (cut-off is at {self._timestamp_oldest}).\"\n"
    "            )\n\n")
_MOVE = (
    "        # Update timestamps\n        prev_newest = self._timestamp_newest\n"
    "        self._timestamp_newest = max(self._timestamp_newest, timestamp)\n"
    "        self._timestamp_oldest = self._timestamp_newest - (\n"
    "            self._full_time_range - self._sampling_period\n        )\n\n")

CONTROLS = [
    ("slot number counted from the UNIX epoch", BUF,
     "                (timestamp - self._time_index_alignment).total_seconds()\n                / self._sampling_period.total_seconds()",
     "                timestamp.timestamp()\n                / self._sampling_period.total_seconds()", "C09.IDX"),
    ("missing sample records only its own slot", BUF,
     "                start_gap = min(newest + self._sampling_period, timestamp)\n", "                start_gap = timestamp\n", "C09.GAP"),
    ("fill clamp uses the capacity", BUF, "            end_index = min(end_index, len(data))\n",
     "            end_index = min(end_index, self.maxlen)\n", "C09.GAP"),
    ("datetime upper check relaxed by one period", MW,
     "                or key > self._buffer.newest_timestamp\n",
     "                or key >= self._buffer.newest_timestamp + self._buffer.sampling_period\n", "C09.VALID"),
    ("Gap built from the un-normalised sample timestamp", BUF,
     "self._update_gaps(timestamp, prev_newest, not self.has_value(sample))",
     "self._update_gaps(sample.timestamp, prev_newest, not self.has_value(sample))", "C09.NORM"),
    ("too-old check moved after the writes", BUF,
     "        # Update timestamps\n        prev_newest = self._timestamp_newest\n        self._timestamp_newest = max(self._timestamp_newest, timestamp)\n",
     "        # Update timestamps\n        prev_newest = self._timestamp_newest\n",
     "C09.VALID"),
    ("lower clamp dropped in window()", BUF,
     "max(start, self.oldest_timestamp)", "start", "C09.VALID"),
    ("upper clamp dropped in window()", BUF,
     "min(end, self.newest_timestamp + self._sampling_period)", "end", "C09.VALID"),
    ("newest bound set from raw timestamp", BUF,
     "self._timestamp_newest = max(self._timestamp_newest, timestamp)",
     "self._timestamp_newest = max(self._timestamp_newest, sample.timestamp)", "C09.NORM"),
    ("datetime branch of at() loses its upper check", MW,
     "                or key > self._buffer.newest_timestamp\n", "", "C09.VALID"),
    ("too-old rejection really placed after the time bounds moved", BUF,
     _GUARD + _MOVE, _MOVE + _GUARD, "C09.VALID"),
    ("too-old rejection uses a non-strict comparison", BUF,
     "            timestamp < self._timestamp_oldest\n", "            timestamp <= self._timestamp_oldest\n",
     "C09.VALID"),
    ("too-old rejection only logs", BUF,
     "            raise IndexError(\n                f\"Timestamp {timestamp} too old",
     "            print(\n                f\"Timestamp {timestamp} too old", "C09.VALID"),
    ("empty-range guard of window() dropped", BUF,
     "        if start >= end:\n            return np.array([]) if isinstance(self._buffer, np.ndarray) else []\n",
     "", "C09.VALID"),
    ("empty-range guard of window() admits equal bounds", BUF,
     "        if start >= end:\n", "        if start > end:\n", "C09.VALID"),
    ("window() fills from the unclamped time origin", BUF,
     "window = self._fill_gaps(window, fill_value, start, self.gaps)",
     "window = self._fill_gaps(window, fill_value, self._timestamp_oldest, self.gaps)", "C09.VALID"),
    ("window() returns without filling", BUF,
     "        if fill_value is not None:\n            window = self._fill_gaps(window, fill_value, start, self.gaps)\n",
     "", "C09.VALID"),
    ("window() compares before normalising", BUF,
     "        start = self.normalize_timestamp(max(start, self.oldest_timestamp))\n",
     "        start = max(start, self.oldest_timestamp)\n", "C09.NORM"),
    ("index branch of at() loses its lower check", MW,
     "if key < -covered or key >= covered:", "if key >= covered:", "C09.VALID"),
    ("index branch of at() checked against the capacity", MW,
     "            covered = self._buffer.count_covered()\n", "            covered = self._buffer.maxlen\n", "C09.VALID"),
    ("at() reads an empty buffer", MW,
     "        if self._buffer.count_valid() == 0:\n            raise IndexError(\"The buffer is empty.\")\n", "",
     "C09.VALID"),
    ("jump-ahead gap starts at the new sample", BUF,
     "Gap(start=newest + self._sampling_period, end=timestamp)", "Gap(start=timestamp, end=timestamp)", "C09.GAP"),
    ("fill start index not clamped", BUF,
     "            start_index = max(start_index, 0)\n", "", "C09.GAP"),
]


def _rules_for(expect: str) -> Any:
    """The part of the rule set a control of that rule has to be re-run with (runtime only)."""
    def norm(run: Run, prog: Program) -> None:
        check_norm(run, prog)
        check_valid_window(run, prog)   # the emptiness-guard operands are a C09.NORM obligation decided there
    return {"C09.NORM": norm, "C09.VALID": check_valid, "C09.GAP": check_gaps, "C09.IDX": check_idx}[expect]


def run_rules(run: Run, prog: Program) -> None:
    check_norm(run, prog)
    check_valid(run, prog)
    check_gaps(run, prog)
    check_idx(run, prog)


def check(run: Run, prog: Program, tier: str) -> str:
    run.rule("C09.NORM", "grid-alignment typestate: buffer time bounds, gap boundaries, datetime "
             "arguments of private slot-arithmetic methods and the operands of the emptiness guard "
             "before slot-index computation are provably on the slot grid")
    run.rule("C09.VALID", "update() rejects too-old timestamps before any mutation; window() clamps "
             "both ends and checks emptiness before computing slot indices and fills gaps before "
             "returning; MovingWindow.at guards every buffer read with a two-sided range check")
    run.rule("C09.GAP", "every gap recorded by update() starts no later than the first unwritten slot; a "
             "missing sample records a gap; _fill_gaps writes only inside [0, len(window)]")
    run.rule("C09.IDX", "slot number = round((normalised T - alignment origin) / sampling period), the grid "
             "normalize_timestamp snaps to; wrap() is modulo the capacity")
    run_rules(run, prog)
    run.floor("C09.IDX", 3)
    run.floor("C09.NORM", 12)
    run.floor("C09.VALID", 10)
    run.floor("C09.GAP", 6)
    from ..engine.controls import run_controls

    run_controls(run, CONTROLS, run_rules, tier, select=_rules_for)
    run.assume("aligned ± k·sampling_period is aligned; datetime arithmetic is exact (timedelta "
               "microsecond resolution)")
    run.undecided("consistency of the incrementally maintained gap list / count_valid with the "
                  "stored data over all update histories (inductive data-structure invariant)")
    return ("Qualifier (typestate) inference aligned/raw over all OrderedRingBuffer methods with "
            "interprocedural private-parameter obligations, plus dominance/path rules on update(), "
            "window() and MovingWindow.at. Decides alignment discipline and validate-before-use; "
            "does not decide gap-list consistency over histories.")
