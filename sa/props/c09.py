"""C09  Ring buffer / moving window behaves as a sliding time-indexed map.

Two structural clauses are decided (DESIGN.md §2 C09):
  C09.NORM   grid-alignment typestate: every datetime is `aligned` (on the slot grid) or `raw`;
             fields, gap boundaries, private slot-arithmetic parameters and the operands of the
             emptiness guard before slot-index computation must be aligned.
  C09.VALID  validate-before-mutate in update(), clamp-before-index and fill-before-return in
             window(), and a two-sided range guard before every direct buffer read in
             MovingWindow.at (sibling rule: the datetime branch has it, the int branch must too).
The gap-list/data consistency over all histories is NOT decided (inductive data-structure
invariant, out of reach for this family).
"""
from __future__ import annotations

import ast
from typing import Any

from ..engine.cfg import CFG
from ..engine.report import AnalysisError, Run
from ..engine.resolver import FuncInfo, Program, body_walk, walk_no_nested
from ..engine.util import (
    canon_total, find_calls, method_call, node_calls, node_has_call, node_writes,
    nodes_with_call, u,
)

BUF = "timeseries._ringbuffer.buffer"
MW = "timeseries._moving_window"

ALIGNED_ATTRS = {
    "_timestamp_newest", "_timestamp_oldest", "_TIMESTAMP_MIN", "_TIMESTAMP_MAX",
    "time_bound_oldest", "time_bound_newest", "oldest_timestamp", "newest_timestamp",
    "_time_index_alignment",
}
PERIOD_ATTRS = {"_sampling_period", "_full_time_range", "sampling_period"}
ALIGNED_CALLS = {"normalize_timestamp", "get_timestamp"}

A, R, P, I, N, Q = "aligned", "raw", "period", "int", "none", "?"


def join(a: str, b: str) -> str:
    if a == b:
        return a
    if a == N:
        return b
    if b == N:
        return a
    if R in (a, b):
        return R
    return Q


class Typestate:
    """Flow-sensitive qualifier inference over one method of OrderedRingBuffer."""

    def __init__(self, run: Run, fn: FuncInfo, aligned_params: set[str], raw_params: set[str]) -> None:
        self.run = run
        self.fn = fn
        self.sinks: list[tuple[str, ast.AST, str, str]] = []  # (what, node, qualifier, expr)
        self.returns: list[tuple[ast.AST, str]] = []
        self.index_vars: set[str] = set()
        env: dict[str, str] = {}
        for a in fn.node.args.posonlyargs + fn.node.args.args + fn.node.args.kwonlyargs:
            if a.annotation is not None and u(a.annotation) == "int":
                env[a.arg] = I
        for p in aligned_params:
            env[p] = A
        for p in raw_params:
            env[p] = R
        # variables whose slot index is computed in this function
        for call in find_calls(fn.node, lambda c: method_call(c, "self", "to_internal_index")):
            if call.args and isinstance(call.args[0], ast.Name):
                self.index_vars.add(call.args[0].id)
        self.block(fn.node.body, env)

    # ------------------------------------------------------------ expressions
    def q(self, e: ast.AST | None, env: dict[str, str]) -> str:
        if e is None:
            return N
        if isinstance(e, ast.Constant):
            if e.value is None:
                return N
            if isinstance(e.value, int) and not isinstance(e.value, bool):
                return I
            return Q
        if isinstance(e, ast.Name):
            return env.get(e.id, Q)
        if isinstance(e, ast.Attribute):
            base = u(e.value)
            if base == "self" or base.startswith("self."):
                if e.attr in ALIGNED_ATTRS:
                    return A
                if e.attr in PERIOD_ATTRS:
                    return P
                return Q
            if e.attr in ("start", "end"):
                return A  # Gap boundaries (invariant re-checked at every store, sink GAP)
            if e.attr == "timestamp":
                return R  # sample.timestamp
            return Q
        if isinstance(e, ast.Call):
            if isinstance(e.func, ast.Attribute) and u(e.func.value).startswith("self") \
                    and e.func.attr in ALIGNED_CALLS:
                return A
            name = u(e.func)
            if name in ("max", "min"):
                args = list(e.args)
                if len(args) == 1 and isinstance(args[0], (ast.GeneratorExp, ast.ListComp)):
                    return self.q(args[0].elt, env)
                out = N
                for a in args:
                    out = join(out, self.q(a, env))
                return out
            if name in ("deepcopy", "copy"):
                return self.q(e.args[0], env) if e.args else Q
            if name in ("int", "len", "round"):
                return I
            return Q
        if isinstance(e, ast.BinOp):
            l, r = self.q(e.left, env), self.q(e.right, env)
            if isinstance(e.op, (ast.Add, ast.Sub)):
                if R in (l, r):
                    return R
                if l == A and r == P:
                    return A
                if l == P and r == A and isinstance(e.op, ast.Add):
                    return A
                if l == A and r == A and isinstance(e.op, ast.Sub):
                    return P
                if l == P and r == P:
                    return P
                if l == I and r == I:
                    return I
                return Q
            if isinstance(e.op, ast.Mult):
                if {l, r} == {I, P}:
                    return P
                if l == I and r == I:
                    return I
                return Q
            if isinstance(e.op, (ast.FloorDiv, ast.Mod)) and l == I and r == I:
                return I
            return Q
        if isinstance(e, ast.IfExp):
            return join(self.q(e.body, env), self.q(e.orelse, env))
        if isinstance(e, ast.NamedExpr):
            v = self.q(e.value, env)
            if isinstance(e.target, ast.Name):
                env[e.target.id] = v
            return v
        return Q

    # ------------------------------------------------------------ statements
    def block(self, stmts: list[ast.stmt], env: dict[str, str]) -> None:
        for s in stmts:
            self.stmt(s, env)

    def scan_expr(self, e: ast.AST, env: dict[str, str]) -> None:
        """Sinks inside an expression: Gap(...) arguments, private-method arguments, comparisons."""
        for n in walk_no_nested(e):
            if isinstance(n, ast.Call):
                name = u(n.func)
                if name == "Gap":
                    vals = {k.arg: k.value for k in n.keywords}
                    for i, a in enumerate(n.args[:2]):
                        vals[("start", "end")[i]] = a
                    for k in ("start", "end"):
                        if k in vals:
                            self.sinks.append(("GAP", n, self.q(vals[k], env), f"Gap({k}={u(vals[k])})"))
                elif isinstance(n.func, ast.Attribute) and u(n.func.value) == "self" \
                        and n.func.attr in PRIVATE_ALIGNED:
                    for idx in PRIVATE_ALIGNED[n.func.attr]:
                        if idx < len(n.args):
                            arg = n.args[idx]
                            self.sinks.append((
                                "ARG", n, self.q(arg, env),
                                f"self.{n.func.attr}(... {u(arg)} ...) [parameter {idx}]"))
            elif isinstance(n, ast.Compare) and len(n.ops) == 1:
                l, r = n.left, n.comparators[0]
                if isinstance(l, ast.Name) and isinstance(r, ast.Name) \
                        and {l.id, r.id} <= self.index_vars and l.id != r.id:
                    ql, qr = self.q(l, env), self.q(r, env)
                    self.sinks.append(("CMP", n, A if (ql == A and qr == A) else join(join(ql, qr), R if R in (ql, qr) else Q),
                                       f"{u(n)} [{l.id}: {ql}, {r.id}: {qr}]"))

    def store(self, tgt: ast.AST, val: str, env: dict[str, str], node: ast.AST) -> None:
        if isinstance(tgt, ast.Name):
            env[tgt.id] = val
        elif isinstance(tgt, ast.Attribute):
            base = u(tgt.value)
            if base == "self" and tgt.attr in ("_timestamp_newest", "_timestamp_oldest"):
                self.sinks.append(("FIELD", node, val, f"self.{tgt.attr} = ..."))
            elif base != "self" and tgt.attr in ("start", "end"):
                self.sinks.append(("GAP", node, val, f"{u(tgt)} = ..."))
        elif isinstance(tgt, (ast.Tuple, ast.List)):
            for t in tgt.elts:
                self.store(t, Q, env, node)

    def stmt(self, s: ast.stmt, env: dict[str, str]) -> None:
        if isinstance(s, ast.Assign):
            self.scan_expr(s.value, env)
            val = self.q(s.value, env)
            for t in s.targets:
                if isinstance(t, (ast.Tuple, ast.List)) and isinstance(s.value, (ast.Tuple, ast.List)) \
                        and len(t.elts) == len(s.value.elts):
                    vals = [self.q(v, env) for v in s.value.elts]
                    for tt, vv in zip(t.elts, vals):
                        self.store(tt, vv, env, s)
                else:
                    self.store(t, val, env, s)
        elif isinstance(s, ast.AnnAssign):
            if s.value is not None:
                self.scan_expr(s.value, env)
                self.store(s.target, self.q(s.value, env), env, s)
        elif isinstance(s, ast.AugAssign):
            self.scan_expr(s.value, env)
            cur = self.q(s.target, env)
            fake = ast.BinOp(left=s.target, op=s.op, right=s.value)
            self.store(s.target, self.q(fake, env) if cur != Q else Q, env, s)
        elif isinstance(s, ast.Expr):
            self.scan_expr(s.value, env)
        elif isinstance(s, ast.Return):
            if s.value is not None:
                self.scan_expr(s.value, env)
                self.returns.append((s, self.q(s.value, env)))
        elif isinstance(s, ast.If):
            self.scan_expr(s.test, env)
            e1, e2 = dict(env), dict(env)
            self.block(s.body, e1)
            self.block(s.orelse, e2)
            t1 = _terminates(s.body)
            t2 = _terminates(s.orelse) if s.orelse else False
            env.clear()
            if t1 and not t2:
                env.update(e2)
            elif t2 and not t1:
                env.update(e1)
            else:
                for k in set(e1) | set(e2):
                    env[k] = join(e1.get(k, Q), e2.get(k, Q)) if k in e1 and k in e2 else Q
        elif isinstance(s, (ast.For, ast.While)):
            if isinstance(s, ast.For):
                self.scan_expr(s.iter, env)
                for n in ast.walk(s.target):
                    if isinstance(n, ast.Name):
                        env[n.id] = Q
            else:
                self.scan_expr(s.test, env)
            before = dict(env)
            for _ in range(2):
                self.block(s.body, env)
                for k in list(env):
                    env[k] = join(env[k], before.get(k, env[k]))
            if s.orelse:
                self.block(s.orelse, env)
        elif isinstance(s, ast.Try):
            self.block(s.body, env)
            for h in s.handlers:
                self.block(h.body, dict(env))
            self.block(s.orelse, env)
            self.block(s.finalbody, env)
        elif isinstance(s, ast.With):
            self.block(s.body, env)
        elif isinstance(s, ast.Assert):
            self.scan_expr(s.test, env)
        elif isinstance(s, (ast.Raise, ast.Pass, ast.Delete, ast.Break, ast.Continue,
                            ast.Import, ast.ImportFrom, ast.FunctionDef)):
            return
        elif isinstance(s, ast.Match):
            for c in s.cases:
                self.block(c.body, dict(env))
        else:
            raise AnalysisError(f"{self.fn.qual}: statement {type(s).__name__} not handled by the "
                                "typestate analysis")


def _terminates(stmts: list[ast.stmt]) -> bool:
    return bool(stmts) and isinstance(stmts[-1], (ast.Return, ast.Raise, ast.Continue, ast.Break))


# private methods doing slot arithmetic on these positional parameters (index after self)
PRIVATE_ALIGNED: dict[str, list[int]] = {}


def _datetime_params(fn: FuncInfo) -> list[tuple[int, str]]:
    out = []
    args = fn.node.args.posonlyargs + fn.node.args.args
    for i, a in enumerate(args[1:]):
        if a.annotation is not None and "datetime" in u(a.annotation):
            out.append((i, a.arg))
    return out


def check_norm(run: Run, prog: Program) -> None:
    cls = prog.cls(f"{BUF}:OrderedRingBuffer")
    PRIVATE_ALIGNED.clear()
    for name, m in cls.methods.items():
        if name.startswith("_") and not name.startswith("__"):
            idx = [i for i, _ in _datetime_params(m)]
            if idx:
                PRIVATE_ALIGNED[name] = idx
    if not {"_fill_gaps", "_update_gaps", "_remove_gap"} <= set(PRIVATE_ALIGNED):
        raise AnalysisError(f"C09.NORM: private slot-arithmetic methods moved: {sorted(PRIVATE_ALIGNED)}")
    n_sinks = 0
    for name, m in cls.methods.items():
        if name in ("normalize_timestamp", "__init__"):
            continue
        run.analysed(m.qual)
        dps = _datetime_params(m)
        private = name in PRIVATE_ALIGNED
        ts = Typestate(run, m,
                       aligned_params={p for _, p in dps} if private else set(),
                       raw_params=set() if private else {p for _, p in dps})
        for what, node, qual, text in ts.sinks:
            n_sinks += 1
            rule = "C09.NORM"
            inst = f"{m.qual}: {what} {text}"
            if what == "CMP":
                msg = ("the emptiness/ordering guard before the slot-index computation compares "
                       "un-normalised datetimes: two times inside the same slot pass `start < end` "
                       "yet map to the same slot index, and the whole buffer is returned")
            elif what == "ARG":
                msg = ("a datetime that is not provably on the slot grid is passed to a private "
                       "method doing floor-division slot arithmetic on it (results shift by one slot)")
            elif what == "FIELD":
                msg = "a buffer time bound is set to a datetime that is not provably on the slot grid"
            else:
                msg = "a gap boundary is set to a datetime that is not provably on the slot grid"
            run.check(qual == A, rule, m.qual, node, f"{msg} — qualifier: {qual}; {text}",
                      node=node, file=m.file, instance=inst)
        if name in ("oldest_timestamp", "newest_timestamp", "time_bound_oldest",
                    "time_bound_newest", "get_timestamp"):
            for node, qual in ts.returns:
                n_sinks += 1
                run.check(qual in (A, N), "C09.NORM", m.qual, node,
                          f"{name} is relied upon as an aligned source but returns a value of "
                          f"qualifier {qual}", node=node, file=m.file)
    # normalize_timestamp defines the grid: align + n * period
    nt = cls.methods.get("normalize_timestamp")
    if nt is None:
        raise AnalysisError("normalize_timestamp not found")
    run.analysed(nt.qual)
    ts = Typestate(run, nt, set(), {p for _, p in _datetime_params(nt)})
    # num_samples comes from divmod(...): integers
    ok = False
    for node, _q in ts.returns:
        val = node.value  # type: ignore[attr-defined]
        expr = val
        if isinstance(val, ast.Name):
            for s in body_walk(nt.node):
                if isinstance(s, ast.Assign) and u(s.targets[0]) == val.id:
                    expr = s.value
        if isinstance(expr, ast.BinOp) and isinstance(expr.op, ast.Add):
            sides = [expr.left, expr.right]
            al = [x for x in sides if u(x) == "self._time_index_alignment"]
            mul = [x for x in sides if isinstance(x, ast.BinOp) and isinstance(x.op, ast.Mult)
                   and "self._sampling_period" in (u(x.left), u(x.right))]
            ok = bool(al) and bool(mul)
    run.check(ok, "C09.NORM", nt.qual, "return align_to + n * sampling_period",
              "normalize_timestamp does not return a point of the grid align_to + n*period",
              node=nt.node, file=nt.file)
    if n_sinks < 12:
        raise AnalysisError(f"C09.NORM: only {n_sinks} alignment sinks found")


# ---------------------------------------------------------------------------------------------
def check_valid(run: Run, prog: Program) -> None:
    # ---- update(): reject-before-mutate
    up = prog.func(f"{BUF}:OrderedRingBuffer.update")
    run.analysed(up.qual)
    cfg = CFG(up.node, up.file)
    guards = [n for n in cfg.nodes if n.kind == "test" and n.ast is not None
              and "_timestamp_oldest" in n.label and any(
                  isinstance(x, ast.Compare) and isinstance(x.ops[0], (ast.Lt, ast.Gt, ast.LtE, ast.GtE))
                  for x in ast.walk(n.ast))]
    mutators = []
    for n in cfg.nodes:
        if n.ast is None or n.kind != "stmt":
            continue
        ws = [u(w) for w in node_writes(cfg, n.id)]
        if any(w.startswith("self._timestamp_") or w.startswith("self._buffer[") or w == "self._gaps"
               for w in ws) or node_has_call(cfg, n.id, lambda c: method_call(c, "self", "_update_gaps")):
            mutators.append(n)
    if len(mutators) < 4:
        raise AnalysisError(f"{up.qual}: expected >=4 state-mutating statements, found {len(mutators)}")
    ok = len(guards) == 1
    if ok:
        g = guards[0]
        # true side must raise IndexError without mutating
        t_side = cfg.reachable([m for m, lab in cfg.succ[g.id] if lab == "true"])
        ok = cfg.exit not in t_side and not any(m.id in t_side for m in mutators) and any(
            isinstance(cfg.nodes[x].ast, ast.Raise) and "IndexError" in u(cfg.nodes[x].ast)
            for x in t_side)
        run.check(ok, "C09.VALID", up.qual, g.ast,
                  "the too-old test does not lead to `raise IndexError` before any mutation",
                  node=g.ast, file=up.file)
        # the compared timestamp is the normalised one
        cmp_ok = any(
            isinstance(x, ast.Compare) and isinstance(x.ops[0], ast.Lt)
            and u(x.comparators[0]) == "self._timestamp_oldest" for x in ast.walk(g.ast)) or any(
            isinstance(x, ast.Compare) and isinstance(x.ops[0], ast.Gt)
            and u(x.left) == "self._timestamp_oldest" for x in ast.walk(g.ast))
        run.check(cmp_ok, "C09.VALID", up.qual, "timestamp < self._timestamp_oldest",
                  "update() does not reject exactly the timestamps older than the window "
                  "(strict `<` against the oldest slot)", node=g.ast, file=up.file)
        for m in mutators:
            wit = cfg.path(cfg.entry, [m.id], avoid=[g.id])
            run.check(wit is None, "C09.VALID", up.qual, m.ast,
                      "state is mutated on a path that has not passed the too-old rejection test",
                      node=m.ast, file=up.file, path=cfg.describe_path(wit),
                      instance=f"{up.qual}: `{m.text(50)}` dominated by the too-old test")
    else:
        run.violation("C09.VALID", up.qual, "too-old rejection",
                      f"expected one rejection test against self._timestamp_oldest, found {len(guards)}",
                      node=up.node, file=up.file)

    # ---- window(): clamp-before-index, empty guard, fill-before-return
    wn = prog.func(f"{BUF}:OrderedRingBuffer.window")
    run.analysed(wn.qual)
    cfg = CFG(wn.node, wn.file)
    idx_nodes = nodes_with_call(cfg, lambda c: method_call(c, "self", "to_internal_index"))
    if len(idx_nodes) < 2:
        raise AnalysisError(f"{wn.qual}: to_internal_index call sites not found")
    idx_vars = []
    for x in idx_nodes:
        for c in node_calls(cfg, x, lambda c: method_call(c, "self", "to_internal_index")):
            if c.args and isinstance(c.args[0], ast.Name):
                idx_vars.append((x, c.args[0].id))
    wrap_nodes = nodes_with_call(cfg, lambda c: method_call(c, "self", "_wrapped_buffer_window"))
    if not wrap_nodes:
        raise AnalysisError(f"{wn.qual}: _wrapped_buffer_window call not found")
    wcall = node_calls(cfg, wrap_nodes[0], lambda c: method_call(c, "self", "_wrapped_buffer_window"))[0]
    pos_args = [u(a) for a in wcall.args[1:3]]
    # map position variables back to the datetime variables
    pos_src: dict[str, str] = {}
    for x in idx_nodes:
        s = cfg.nodes[x].ast
        if isinstance(s, ast.Assign) and isinstance(s.value, ast.Call) and s.value.args \
                and isinstance(s.value.args[0], ast.Name):
            pos_src[u(s.targets[0])] = s.value.args[0].id
    if len(pos_args) != 2 or not all(p in pos_src for p in pos_args):
        raise AnalysisError(f"{wn.qual}: cannot relate slot positions {pos_args} to datetimes")
    start_var, end_var = pos_src[pos_args[0]], pos_src[pos_args[1]]
    lower_src = ("self.oldest_timestamp",)
    upper_src = ("self.newest_timestamp + self._sampling_period",
                 "self._sampling_period + self.newest_timestamp")

    def clamp_nodes(var: str, fn_name: str, limits: tuple[str, ...]) -> list[int]:
        out = []
        for n in cfg.nodes:
            s = n.ast
            if n.kind == "stmt" and isinstance(s, ast.Assign) and u(s.targets[0]) == var:
                for c in find_calls(s.value, lambda c: u(c.func) == fn_name and len(c.args) == 2):
                    args = {u(a) for a in c.args}
                    if var in args and args & set(limits):
                        out.append(n.id)
        return out

    for var, fname, limits, word in ((start_var, "max", lower_src, "oldest stored slot"),
                                     (end_var, "min", upper_src, "slot after the newest")):
        cl = clamp_nodes(var, fname, limits)
        uses = [x for x, v in idx_vars if v == var]
        ok = bool(cl)
        wit = None
        for use in uses:
            wit = cfg.path(cfg.entry, [use], avoid=cl)
            if wit is not None:
                ok = False
                break
            # no re-assignment between the clamp and the use that drops the clamp
            for n in cfg.nodes:
                if n.kind == "stmt" and n.id not in cl and any(
                        u(w) == var for w in node_writes(cfg, n.id)):
                    if any(cfg.path(c, [n.id]) and cfg.path(n.id, [use]) for c in cl):
                        ok = False
                        wit = cfg.path(n.id, [use])
        run.check(ok, "C09.VALID", wn.qual, f"{var} = {fname}({var}, <{word}>)",
                  f"the slot index of `{var}` is computed without first clamping it to the "
                  f"{word}: data outside the covered range (evicted/unwritten slots) is exposed",
                  node=wn.node, file=wn.file, path=cfg.describe_path(wit),
                  instance=f"{wn.qual}: clamp of {var} dominates to_internal_index({var})")
    # emptiness guard
    eg = [n for n in cfg.nodes if n.kind == "test" and n.ast is not None
          and canon_total(n.ast) in (("<=", end_var, start_var),)]
    ok = len(eg) == 1
    wit = None
    if ok:
        g = eg[0]
        t_side = cfg.reachable([m for m, lab in cfg.succ[g.id] if lab == "true"])
        ok = not any(x in t_side for x in idx_nodes)
        for x in idx_nodes:
            wit = cfg.path(cfg.entry, [x], avoid=[g.id])
            if wit is not None:
                ok = False
                break
    run.check(ok, "C09.VALID", wn.qual, f"if {start_var} >= {end_var}: return empty",
              "slot positions are computed without the empty-range guard: equal positions make "
              "_wrapped_buffer_window return the whole buffer", node=wn.node, file=wn.file,
              path=cfg.describe_path(wit))
    # fill-before-return
    fills = nodes_with_call(cfg, lambda c: method_call(c, "self", "_fill_gaps"))
    ftests = [n for n in cfg.nodes if n.kind == "test" and n.ast is not None and canon_total(n.ast) in (
        ("isnot", frozenset({"fill_value", "None"})), ("is", frozenset({"fill_value", "None"})))]
    ok = bool(fills) and bool(ftests)
    wit = None
    if ok:
        # the test that governs the fill after the data was fetched
        post = [t for t in ftests if any(t.id in cfg.reachable([w]) for w in wrap_nodes)]
        ok = len(post) == 1
        if ok:
            t = post[0]
            want = "true" if canon_total(t.ast)[0] == "isnot" else "false"  # type: ignore[arg-type]
            side = [m for m, lab in cfg.succ[t.id] if lab == want]
            wit = None if side and side[0] in fills else (
                cfg.path(side[0], [cfg.exit], avoid=fills) if side else None)
            ok = bool(side) and wit is None
            # every path from the data fetch to a normal exit passes that test
            if ok:
                wit = cfg.path(wrap_nodes[0], [cfg.exit], avoid=[t.id],
                               edge_ok=lambda a, b, lab: not lab.startswith("exc:"))
                ok = wit is None
            # the fill uses the clamped start as its time origin
            if ok:
                fc = node_calls(cfg, fills[0], lambda c: method_call(c, "self", "_fill_gaps"))[0]
                ok = len(fc.args) >= 4 and u(fc.args[2]) == start_var and u(fc.args[3]) in (
                    "self.gaps", "self._gaps")
                if not ok:
                    wit = None
    run.check(ok, "C09.VALID", wn.qual, "if fill_value is not None: window = self._fill_gaps(window, "
              f"fill_value, {start_var}, self.gaps)",
              "a non-empty window can be returned without the gaps being filled from the clamped "
              "start although fill_value was given (stale/unwritten slot values leak)",
              node=wn.node, file=wn.file, path=cfg.describe_path(wit))

    # ---- MovingWindow.at: two-sided range guard before every raw buffer read
    at = prog.func(f"{MW}:MovingWindow.at")
    run.analysed(at.qual)
    cfg = CFG(at.node, at.file)
    reads = []
    for n in cfg.nodes:
        if n.kind != "stmt" or n.ast is None:
            continue
        for x in walk_no_nested(n.ast):
            if isinstance(x, ast.Subscript) and u(x.value) == "self._buffer" \
                    and isinstance(x.ctx, ast.Load):
                reads.append((n, x))
    if len(reads) < 2:
        raise AnalysisError(f"{at.qual}: expected a buffer read per key kind, found {len(reads)}")
    param = at.params[1]
    for n, sub in reads:
        # candidate position variables: the key itself and locals derived from it
        derived = {param}
        for s in body_walk(at.node):
            if isinstance(s, ast.Assign) and isinstance(s.targets[0], ast.Name) and any(
                    isinstance(x, ast.Name) and x.id in derived for x in ast.walk(s.value)):
                derived.add(s.targets[0].id)
        guards = []
        for t in cfg.nodes:
            if t.kind != "test" or t.ast is None:
                continue
            if not _two_sided(t.ast, derived):
                continue
            if not _exact_range_guard(at, t.ast):
                continue
            t_side = cfg.reachable([m for m, lab in cfg.succ[t.id] if lab == "true"])
            if cfg.exit in t_side or n.id in t_side:
                continue
            if not any(isinstance(cfg.nodes[x].ast, ast.Raise) and "IndexError" in u(cfg.nodes[x].ast)
                       for x in t_side):
                continue
            guards.append(t.id)
        wit = cfg.path(cfg.entry, [n.id], avoid=guards)
        run.check(bool(guards) and wit is None, "C09.VALID", at.qual, n.ast,
                  "the buffer is read at a position derived from the key without a two-sided range "
                  "check against the covered range (IndexError on both ends): out-of-range indices "
                  "return unwritten or wrapped-around slots", node=n.ast, file=at.file,
                  path=cfg.describe_path(wit),
                  instance=f"{at.qual}: read `{n.text(60)}` dominated by a two-sided range guard")
    # the emptiness test comes first
    empties = [t for t in cfg.nodes if t.kind == "test" and "count_valid() == 0" in t.label]
    ok = bool(empties) and all(cfg.path(cfg.entry, [n.id], avoid=[e.id for e in empties]) is None
                               for n, _ in reads)
    run.check(ok, "C09.VALID", at.qual, "if self._buffer.count_valid() == 0: raise IndexError",
              "a read is possible on an empty buffer", node=at.node, file=at.file)


def _exact_range_guard(at: FuncInfo, test: ast.AST) -> bool:
    """The guard must reject exactly what lies outside the covered range: for a datetime key
    `key < oldest_timestamp or key > newest_timestamp`, for an index `key < -covered or key >= covered`
    (covered = the buffer's count_covered()).  Anything weaker lets a position through that
    normalises/wraps onto another slot."""
    key = at.params[1]
    c = canon_total(test)
    dt_form = ("or", frozenset({("<", key, "self._buffer.oldest_timestamp"),
                                ("<", "self._buffer.newest_timestamp", key)}))
    if c == dt_form:
        return True
    if isinstance(c, tuple) and c[0] == "or" and len(c[1]) == 2:
        # index form: resolve the local holding the covered count
        locs = {u(s.targets[0]): u(s.value) for s in body_walk(at.node)
                if isinstance(s, ast.Assign) and isinstance(s.targets[0], ast.Name)}
        for name, val in locs.items():
            if val.replace(" ", "") in ("self._buffer.count_covered()", "self.count_covered()", "len(self)"):
                if c == ("or", frozenset({("<", key, f"-{name}"), ("<=", name, key)})):
                    return True
    return False


def _two_sided(test: ast.AST, names: set[str]) -> bool:
    """Does the test reject both `K < lower` and `K > upper` for some K in names?"""
    low = high = False
    for x in ast.walk(test):
        if isinstance(x, ast.Compare) and len(x.ops) == 1:
            l, r = x.left, x.comparators[0]
            op = x.ops[0]
            lk = isinstance(l, ast.Name) and l.id in names
            rk = isinstance(r, ast.Name) and r.id in names
            if lk and not rk:
                if isinstance(op, (ast.Lt, ast.LtE)):
                    low = True
                if isinstance(op, (ast.Gt, ast.GtE)):
                    high = True
            if rk and not lk:
                if isinstance(op, (ast.Gt, ast.GtE)):
                    low = True
                if isinstance(op, (ast.Lt, ast.LtE)):
                    high = True
        if isinstance(x, ast.Compare) and len(x.ops) == 2:
            mid = x.comparators[0]
            if isinstance(mid, ast.Name) and mid.id in names:
                # `not (lo <= K < hi)` form
                low = high = True
    if not (low and high):
        return False
    # must be a disjunction (either side rejects), or a negated conjunction
    c = canon_total(test)
    return isinstance(c, tuple) and c[0] == "or"


def check_gaps(run: Run, prog: Program) -> None:
    """C09.GAP: forward jumps mark every skipped slot; gap filling writes only inside the window."""
    fn = prog.func(f"{BUF}:OrderedRingBuffer._update_gaps")
    run.analysed(fn.qual)
    cfg = CFG(fn.node, fn.file)
    ts, newest = fn.params[1], fn.params[2]
    first_unwritten = {f"{newest}+self._sampling_period", f"self._sampling_period+{newest}"}
    allowed = first_unwritten | {f"min({newest}+self._sampling_period,{ts})", f"min({ts},{newest}+self._sampling_period)",
                                 "self._timestamp_oldest"}
    defs = {u(s.targets[0]): s.value for s in body_walk(fn.node)
            if isinstance(s, ast.Assign) and isinstance(s.targets[0], ast.Name)}
    n = 0
    for node in cfg.nodes:
        if node.kind != "stmt" or node.ast is None:
            continue
        for c in find_calls(node.ast, lambda c: u(c.func) == "Gap"):
            n += 1
            kws = {k.arg: k.value for k in c.keywords}
            start = kws.get("start") or (c.args[0] if c.args else None)
            if start is None:
                raise AnalysisError(f"{fn.qual}: Gap(...) without start")
            sv = defs.get(u(start), start) if isinstance(start, ast.Name) else start
            text = u(sv).replace(" ", "")
            ok = text in allowed
            if not ok and text == ts:
                # allowed when a dominating test establishes ts <= newest + period (no slot is skipped)
                for t in cfg.nodes:
                    if t.kind == "test" and t.ast is not None:
                        ct = canon_total(t.ast)
                        lim = f"{newest} + self._sampling_period"
                        if ct == ("<", lim, ts) and cfg.path(cfg.entry, [node.id], avoid=[t.id]) is None and \
                                node.id not in cfg.reachable([m for m, lab in cfg.succ[t.id] if lab == "true"]):
                            ok = True
            run.check(ok, "C09.GAP", fn.qual, c,
                      f"a gap recorded by update() starts at `{u(sv)}`: when the new sample jumps ahead of "
                      f"`{newest} + period`, the skipped (never written) slots before it are not marked as "
                      "missing, so count_valid/gaps/window() treat evicted data as valid", node=c, file=fn.file,
                      instance=f"{fn.qual}: {u(c)[:60]} starts no later than the first unwritten slot")
    if n < 3:
        raise AnalysisError(f"{fn.qual}: only {n} Gap constructions found")
    # every non-returning path of a *missing* sample that is not already inside a gap records one
    # (structure of the branch on record_as_missing): the missing branch must construct a Gap
    miss = [t for t in cfg.nodes if t.kind == "test" and t.ast is not None and u(t.ast) == fn.params[3]]
    ok = bool(miss) and all(any(find_calls(cfg.nodes[x].ast, lambda c: u(c.func) == "Gap")
                                for x in cfg.reachable([m for m, lab in cfg.succ[t.id] if lab == "true"])
                                if cfg.nodes[x].ast is not None and cfg.nodes[x].kind == "stmt") for t in miss)
    run.check(ok, "C09.GAP", fn.qual, "missing sample -> gap recorded", "a missing (None/NaN) sample is not "
              "recorded as a gap", node=fn.node, file=fn.file)
    # _fill_gaps writes only inside [0, len(data)]
    fg = prog.func(f"{BUF}:OrderedRingBuffer._fill_gaps")
    run.analysed(fg.qual)
    data = fg.params[1]
    stores = [s for s in body_walk(fg.node) if isinstance(s, ast.Assign) and isinstance(s.targets[0], ast.Subscript)
              and u(s.targets[0].value) == data and isinstance(s.targets[0].slice, ast.Slice)]
    if len(stores) < 2:
        raise AnalysisError(f"{fg.qual}: slice assignments into the window not found")
    assigns = [s for s in body_walk(fg.node) if isinstance(s, ast.Assign) and isinstance(s.targets[0], ast.Name)]
    for st in stores:
        sl = st.targets[0].slice  # type: ignore[union-attr]
        lo, hi = u(sl.lower), u(sl.upper)
        lo_ok = any(u(a.targets[0]) == lo and u(a.value).replace(" ", "") in (f"max({lo},0)", f"max(0,{lo})") for a in assigns)
        hi_ok = any(u(a.targets[0]) == hi and u(a.value).replace(" ", "") in (f"min({hi},len({data}))", f"min(len({data}),{hi})")
                    for a in assigns)
        # the clamp is the last definition before the store
        def last_def(name: str) -> str:
            d = [a for a in assigns if u(a.targets[0]) == name and a.lineno < st.lineno]
            return u(d[-1].value).replace(" ", "") if d else ""
        lo_ok = lo_ok and last_def(lo) in (f"max({lo},0)", f"max(0,{lo})")
        hi_ok = hi_ok and last_def(hi) in (f"min({hi},len({data}))", f"min(len({data}),{hi})")
        run.check(lo_ok and hi_ok, "C09.GAP", fg.qual, st,
                  f"the fill writes `{data}[{lo}:{hi}]` without both indices clamped into [0, len({data})]: "
                  "a slice assignment past the end of a list *extends* it, so a window query returns more "
                  "slots than it spans (and list/numpy containers disagree)", node=st, file=fg.file)


def check_idx(run: Run, prog: Program) -> None:
    """The slot number of a timestamp is measured from the same origin, in the same unit, as the grid
    normalize_timestamp() snaps to: round((normalized T - _time_index_alignment) / _sampling_period)."""
    from ..engine.normalize import inline_helpers
    from ..engine.sympath import sym_paths
    from ..engine.terms import Poly, TermEval

    fn = prog.func(f"{BUF}:OrderedRingBuffer.to_internal_index")
    nt = prog.func(f"{BUF}:OrderedRingBuffer.normalize_timestamp")
    run.analysed(fn.qual)
    T = fn.params[1]
    ORIGIN, STEP = "self._time_index_alignment", "self._sampling_period"
    te = TermEval()
    want = Poly.atom(f"self.normalize_timestamp({T})") - Poly.atom(ORIGIN)

    def slot_ok(e: ast.AST) -> bool:
        # round(X.total_seconds() / STEP.total_seconds()) | round(X / STEP) | X // STEP   with X = T' - ORIGIN
        if isinstance(e, ast.Call) and u(e.func) in ("round", "int") and len(e.args) == 1 and not e.keywords:
            e = e.args[0]
            if not (isinstance(e, ast.BinOp) and isinstance(e.op, ast.Div)):
                return False
        elif not (isinstance(e, ast.BinOp) and isinstance(e.op, ast.FloorDiv)):
            return False
        num, den = e.left, e.right
        secs = lambda x: isinstance(x, ast.Call) and isinstance(x.func, ast.Attribute) \
            and x.func.attr == "total_seconds" and not x.args  # noqa: E731
        if secs(num) and secs(den):
            num, den = num.func.value, den.func.value  # type: ignore[union-attr]
        elif secs(num) or secs(den):
            return False
        return u(den) == STEP and te.ev(num) == want

    n = 0
    for p in sym_paths(inline_helpers(prog, fn)):
        if p.exit != "return":
            continue
        n += 1
        r = p.ret
        ok = isinstance(r, ast.Call) and u(r.func) == "self.wrap" and len(r.args) == 1 and not r.keywords \
            and slot_ok(r.args[0])
        run.check(ok, "C09.IDX", fn.qual, "wrap(round((normalize(T) - _time_index_alignment) / _sampling_period))",
                  "the storage slot of a timestamp is not computed from the normalised timestamp's distance to "
                  "the alignment origin in sampling periods: normalize_timestamp() snaps to the "
                  "_time_index_alignment grid, so with another origin (e.g. the UNIX epoch) neighbouring slots "
                  f"can round onto the same cell and overwrite each other (found {u(r)[:120]})",
                  node=fn.node, file=fn.file, path=p.describe())
    if not n:
        raise AnalysisError(f"{fn.qual}: no return path")
    # the grid normalize_timestamp snaps to has that origin and step
    dm = find_calls(nt.node, lambda c: u(c.func) == "divmod")
    ok = len(dm) == 1 and len(dm[0].args) == 2 and u(dm[0].args[1]) == STEP \
        and te.ev(dm[0].args[0]) == Poly.atom(nt.params[1]) - Poly.atom(ORIGIN)
    run.check(ok, "C09.IDX", nt.qual, "divmod(T - _time_index_alignment, _sampling_period)",
              "normalize_timestamp does not snap to the _time_index_alignment + k * _sampling_period grid that "
              "the slot arithmetic assumes", node=nt.node, file=nt.file)
    wr = prog.func(f"{BUF}:OrderedRingBuffer.wrap")
    rets = [x for x in body_walk(wr.node) if isinstance(x, ast.Return)]
    ok = len(rets) == 1 and isinstance(rets[0].value, ast.BinOp) and isinstance(rets[0].value.op, ast.Mod) \
        and u(rets[0].value.left) == wr.params[1] and u(rets[0].value.right) in ("self.maxlen", "len(self._buffer)")
    run.check(ok, "C09.IDX", wr.qual, "wrap(i) = i % maxlen",
              "wrap() is not the slot number modulo the capacity", node=wr.node, file=wr.file)


CONTROLS = [
    ("slot number counted from the UNIX epoch", BUF,
     "                (timestamp - self._time_index_alignment).total_seconds()\n                / self._sampling_period.total_seconds()",
     "                timestamp.timestamp()\n                / self._sampling_period.total_seconds()", "C09.IDX"),
    ("missing sample records only its own slot", BUF,
     "                start_gap = min(newest + self._sampling_period, timestamp)\n", "                start_gap = timestamp\n", "C09.GAP"),
    ("fill clamp uses the capacity", BUF, "            end_index = min(end_index, len(data))\n",
     "            end_index = min(end_index, self.maxlen)\n", "C09.GAP"),
    ("datetime upper check relaxed by one period", MW,
     "                or key > self._buffer.newest_timestamp\n",
     "                or key >= self._buffer.newest_timestamp + self._buffer.sampling_period\n", "C09.VALID"),
    ("Gap built from the un-normalised sample timestamp", BUF,
     "self._update_gaps(timestamp, prev_newest, not self.has_value(sample))",
     "self._update_gaps(sample.timestamp, prev_newest, not self.has_value(sample))", "C09.NORM"),
    ("too-old check moved after the writes", BUF,
     "        # Update timestamps\n        prev_newest = self._timestamp_newest\n        self._timestamp_newest = max(self._timestamp_newest, timestamp)\n",
     "        # Update timestamps\n        prev_newest = self._timestamp_newest\n",
     "C09.VALID"),
    ("lower clamp dropped in window()", BUF,
     "max(start, self.oldest_timestamp)", "start", "C09.VALID"),
    ("upper clamp dropped in window()", BUF,
     "min(end, self.newest_timestamp + self._sampling_period)", "end", "C09.VALID"),
    ("newest bound set from raw timestamp", BUF,
     "self._timestamp_newest = max(self._timestamp_newest, timestamp)",
     "self._timestamp_newest = max(self._timestamp_newest, sample.timestamp)", "C09.NORM"),
    ("datetime branch of at() loses its upper check", MW,
     "                or key > self._buffer.newest_timestamp\n", "", "C09.VALID"),
]


def _control_too_old(src: str) -> str | None:
    return None


def run_rules(run: Run, prog: Program) -> None:
    check_norm(run, prog)
    check_valid(run, prog)
    check_gaps(run, prog)
    check_idx(run, prog)


def check(run: Run, prog: Program, tier: str) -> str:
    run.rule("C09.NORM", "grid-alignment typestate: buffer time bounds, gap boundaries, datetime "
             "arguments of private slot-arithmetic methods and the operands of the emptiness guard "
             "before slot-index computation are provably on the slot grid")
    run.rule("C09.VALID", "update() rejects too-old timestamps before any mutation; window() clamps "
             "both ends and checks emptiness before computing slot indices and fills gaps before "
             "returning; MovingWindow.at guards every buffer read with a two-sided range check")
    run.rule("C09.GAP", "every gap recorded by update() starts no later than the first unwritten slot; a "
             "missing sample records a gap; _fill_gaps writes only inside [0, len(window)]")
    run.rule("C09.IDX", "slot number = round((normalised T - alignment origin) / sampling period), the grid "
             "normalize_timestamp snaps to; wrap() is modulo the capacity")
    run_rules(run, prog)
    run.floor("C09.IDX", 3)
    run.floor("C09.NORM", 12)
    run.floor("C09.VALID", 10)
    run.floor("C09.GAP", 6)
    from ..engine.controls import run_controls

    run_controls(run, CONTROLS, run_rules, tier)
    run.assume("aligned ± k·sampling_period is aligned; datetime arithmetic is exact (timedelta "
               "microsecond resolution)")
    run.undecided("consistency of the incrementally maintained gap list / count_valid with the "
                  "stored data over all update histories (inductive data-structure invariant)")
    return ("Qualifier (typestate) inference aligned/raw over all OrderedRingBuffer methods with "
            "interprocedural private-parameter obligations, plus dominance/path rules on update(), "
            "window() and MovingWindow.at. Decides alignment discipline and validate-before-use; "
            "does not decide gap-list consistency over histories.")
