"""C09  Ring buffer / moving window behaves as a sliding time-indexed map.

Structural clauses decided (DESIGN.md §2 C09, §7.2):
  C09.NORM   grid-alignment typestate: every datetime is `aligned` (on the slot grid) or `raw`;
             fields, gap boundaries, the datetime arguments of private methods that need them aligned
             (the anchored slot-arithmetic methods always; any other private method iff one of its own
             sinks fails when it is read with raw arguments), dividends of floor-divisions by the
             sampling period, and the operands of the emptiness guard before the slot-index
             computation must be aligned.  Methods are read with simple private helpers spliced in;
             the qualifier returned by other private helpers is inferred from their body.
  C09.VALID  decided per symbolic path (sa/props/_c09_util.py: ordered paths = sympath paths that also
             record *where* each atomic condition was decided; helpers spliced in, locals substituted):
             update(): every write of the time bounds / data / gap list (direct, or through a method of
             `self` whose transitive mutation summary touches them) happens after `T < _timestamp_oldest`
             was decided false or the buffer was found empty (sentinel bound), and every path on which
             T is too old for a non-empty window raises IndexError without any such write;
             window(): the datetimes whose slot positions are passed to _wrapped_buffer_window are
             bounded below by oldest_timestamp resp. above by newest_timestamp + period (max/min in any
             argument order, through normalize_timestamp, or entailed by the path conditions), the path
             has established start < end on exactly those values before the first index computation,
             and a returning path with fill_value not None returns _fill_gaps(<that data>, fill_value,
             <that start>, self.gaps);
             MovingWindow.at: every `self._buffer[...]` read is at to_internal_index(K) with
             oldest <= K <= newest established (datetime key) or at get_timestamp(J) with
             -count_covered() <= J < count_covered() established (index key), on a non-empty buffer, and
             every path that finds such a position out of range raises IndexError.
  C09.GAP    every Gap built by _update_gaps starts no later than the first unwritten slot; a missing
             sample that is not inside a gap records one; _fill_gaps stores only into slices clamped to
             [0, len(data)] (loop body walked with the locals defined before the loop substituted in).
  C09.IDX    slot number = round((normalised T - alignment origin) / sampling period) modulo capacity;
             normalize_timestamp goes to a nearest grid point (quotient, or quotient + 1 from half a period on).
Rules added after the sensitivity sweep (what each small method computes, per path, helpers executed
interprocedurally, pre-/post-state of a written attribute kept apart):
  C09.STORE  update(): newest = max(newest, T), oldest = newest - (range - period), value (NaN iff missing) at
             the slot of T after the bounds moved, _update_gaps(T, newest before the update, missing).
  C09.FETCH  _wrapped_buffer_window = buffer[s:e], or buffer[s:] ++ buffer[:e] when e <= s; copy on request.
  C09.COUNT  has_value, time bounds, oldest/newest_timestamp, get_timestamp, covered range, count_covered,
             count_valid say what the bounds and the gap list say.
  C09.NONE   a value a path established to be None is not used afterwards on that path.
  C09.VALID  also: update()/at()/window()/to_internal_index raise only what and when they should; window()
             fills only a copy, answers empty only for an empty buffer / empty clamped range, projects index
             queries with slice.indices(count_covered()) before converting them; at() reads by key kind.
  C09.GAP    also: the full case analysis of _update_gaps, the interval surgery of _remove_gap, the sort +
             locally sound, progressing walk of _cleanup_gaps, and what _fill_gaps stores for which gap.
Rule added after the fifth seeding round (the constructors had not been read at all):
  C09.CONF   OrderedRingBuffer.__init__ (parameters bound by type: datetime = grid origin, timedelta = step, the
             other one = storage) leaves origin / step / storage = its parameters, range = len(storage) * step,
             sentinel bounds and no gaps on every completing path; every function outside the class on whose paths a
             ring buffer is built (found by resolving the constructor call through the imports; the owner's __init__
             when the call sits in it or in a private helper it executes; MovingWindow.__init__ must be one) passes
             its own datetime parameter as the origin (own attributes written earlier on the path resolved), the
             period of the samples it writes (config.resampling_period on a path that builds a Resampler(config),
             a timedelta parameter otherwise) and a container of ceil(span / that same period) slots.
Clauses added after the sixth seeding round:
  C09.VALID  at(): the gap test that licenses a raw storage read addresses the slot that is read: its argument is the
             normalised timestamp of the position (a datetime already on the grid may be passed as it is, a raw key only
             if is_missing() normalises by itself) -- gap boundaries lie on the grid, the test is a plain interval test.
  C09.COUNT  the window's own reports: MovingWindow.count_valid / count_covered / oldest_timestamp / newest_timestamp
             return the ring buffer's observer of the same role (the attribute holding the ring bound by what
             MovingWindow stores there); window() forwards its parameters to the ring's parameters of the same name.
Rule added for finding F23 (a rejected sample ended the window's update task):
  C09.REJECT the exception class(es) update() raises on its rejection paths (read from update()'s own paths) cannot leave
             a loop that feeds a MovingWindow's ring buffer: at every call of the ring's update() in the class (followed
             through helpers to their callers) a handler for that class or a superclass encloses the call inside the
             loop body and goes on with the loop on every way through it (control-flow graph of the handler: no re-raise,
             break, return), or an `if` inside the iteration has established that the timestamp is not older than the
             oldest slot / the buffer is empty.  A handler outside the loop is reported.  A function that lets the
             exception through and is handed on as a callback (the resampler's sink) is noted as not decided.
The gap-list/data consistency over all histories is NOT decided (that the walk of _cleanup_gaps leaves a
sorted, disjoint list is the inductive part; every single step is decided).
"""
from __future__ import annotations

import ast
from typing import Any

from ..engine.cfg import CFG, exc_class_name, handler_catches, handler_classes
from ..engine.normalize import ANCHOR_NAMES, inline_helpers, positional
from ..engine.report import AnalysisError, Run
from ..engine.resolver import FuncInfo, Program, dotted, walk_no_nested
from ..engine.sympath import Path
from ..engine.terms import Poly, TermEval
from ..engine.util import canon, method_call, u
from . import _c09_util
from ._c09_util import (
    MutationSummary, OrderedSymExec, decided, entails_le, entails_lt, first_call, func_params, index_of,
    is_extreme_of, loop_paths, lower_bounded, none_test, ordered_paths, pre_name, rename_comp_vars,
    selection, self_attr_root, subscripts_of, truth, upper_bounded, variants, writes, zero,
)

BUF = "timeseries._ringbuffer.buffer"
MW = "timeseries._moving_window"

ALIGNED_ATTRS = {
    "_timestamp_newest", "_timestamp_oldest", "_TIMESTAMP_MIN", "_TIMESTAMP_MAX",
    "time_bound_oldest", "time_bound_newest", "oldest_timestamp", "newest_timestamp",
    "_time_index_alignment",
}
PERIOD_ATTRS = {"_sampling_period", "_full_time_range", "sampling_period"}
ALIGNED_CALLS = {"normalize_timestamp", "get_timestamp"}

A, R, P, I, N, Q = "aligned", "raw", "period", "int", "none", "?"


def join(a: str, b: str) -> str:
    if a == b:
        return a
    if a == N:
        return b
    if b == N:
        return a
    if R in (a, b):
        return R
    return Q


class Typestate:
    """Flow-sensitive qualifier inference over one method of OrderedRingBuffer."""

    def __init__(self, run: Run, fn: FuncInfo, aligned_params: set[str], raw_params: set[str],
                 scan: bool = True, ret_qual: Any = None) -> None:
        self.run = run
        self.fn = fn
        self.sinks: list[tuple[str, ast.AST, str, str]] = []  # (what, node, qualifier, expr)
        self.returns: list[tuple[ast.AST, str]] = []
        self.ret_qual = ret_qual  # qualifier of the value returned by a private method of the class
        env: dict[str, str] = {}
        for a in fn.node.args.posonlyargs + fn.node.args.args + fn.node.args.kwonlyargs:
            if a.annotation is not None and u(a.annotation) == "int":
                env[a.arg] = I
        for p in aligned_params:
            env[p] = A
        for p in raw_params:
            env[p] = R
        if scan:
            self.block(fn.node.body, env)

    # ------------------------------------------------------------ expressions
    def q(self, e: ast.AST | None, env: dict[str, str]) -> str:
        if e is None:
            return N
        if isinstance(e, ast.Constant):
            if e.value is None:
                return N
            if isinstance(e.value, int) and not isinstance(e.value, bool):
                return I
            return Q
        if isinstance(e, ast.Name):
            return env.get(e.id, Q)
        if isinstance(e, ast.Attribute):
            base = u(e.value)
            if base == "self" or base.startswith("self."):
                if e.attr in ALIGNED_ATTRS:
                    return A
                if e.attr in PERIOD_ATTRS:
                    return P
                return Q
            if e.attr in ("start", "end"):
                return A  # Gap boundaries (invariant re-checked at every store, sink GAP)
            if e.attr == "timestamp":
                return R  # sample.timestamp
            return Q
        if isinstance(e, ast.Call):
            if isinstance(e.func, ast.Attribute) and u(e.func.value).startswith("self") \
                    and e.func.attr in ALIGNED_CALLS:
                return A
            if isinstance(e.func, ast.Attribute) and u(e.func.value) == "self" and self.ret_qual is not None \
                    and e.func.attr.startswith("_") and not e.func.attr.startswith("__"):
                return self.ret_qual(e.func.attr)
            name = u(e.func)
            if name in ("max", "min"):
                args = list(e.args)
                if len(args) == 1 and isinstance(args[0], (ast.GeneratorExp, ast.ListComp)):
                    return self.q(args[0].elt, env)
                out = N
                for a in args:
                    out = join(out, self.q(a, env))
                return out
            if name in ("deepcopy", "copy"):
                return self.q(e.args[0], env) if e.args else Q
            if name in ("int", "len", "round"):
                return I
            if name.split(".")[-1] == "timedelta" and all(isinstance(a, ast.Constant) and a.value == 0 for a in e.args) \
                    and all(isinstance(k.value, ast.Constant) and k.value.value == 0 for k in e.keywords):
                return P  # the zero duration is a whole number (0) of sampling periods
            return Q
        if isinstance(e, ast.BinOp):
            l, r = self.q(e.left, env), self.q(e.right, env)
            if isinstance(e.op, (ast.Add, ast.Sub)):
                if R in (l, r):
                    return R
                if l == A and r == P:
                    return A
                if l == P and r == A and isinstance(e.op, ast.Add):
                    return A
                if l == A and r == A and isinstance(e.op, ast.Sub):
                    return P
                if l == P and r == P:
                    return P
                if l == I and r == I:
                    return I
                return Q
            if isinstance(e.op, ast.Mult):
                if {l, r} == {I, P}:
                    return P
                if l == I and r == I:
                    return I
                return Q
            if isinstance(e.op, (ast.FloorDiv, ast.Mod)) and l == I and r == I:
                return I
            return Q
        if isinstance(e, ast.IfExp):
            return join(self.q(e.body, env), self.q(e.orelse, env))
        if isinstance(e, ast.NamedExpr):
            v = self.q(e.value, env)
            if isinstance(e.target, ast.Name):
                env[e.target.id] = v
            return v
        return Q

    # ------------------------------------------------------------ statements
    def block(self, stmts: list[ast.stmt], env: dict[str, str]) -> None:
        for s in stmts:
            self.stmt(s, env)

    def scan_expr(self, e: ast.AST, env: dict[str, str]) -> None:
        """Sinks inside an expression: Gap(...) arguments, private-method arguments, comparisons."""
        for n in walk_no_nested(e):
            if isinstance(n, ast.Call):
                name = u(n.func)
                if name == "Gap":
                    vals = {k.arg: k.value for k in n.keywords}
                    for i, a in enumerate(n.args[:2]):
                        vals[("start", "end")[i]] = a
                    for k in ("start", "end"):
                        if k in vals:
                            self.sinks.append(("GAP", n, self.q(vals[k], env), f"Gap({k}={u(vals[k])})"))
                elif isinstance(n.func, ast.Attribute) and u(n.func.value) == "self" \
                        and n.func.attr in PRIVATE_ALIGNED:
                    if any(isinstance(a, ast.Starred) for a in n.args) or any(k.arg is None for k in n.keywords):
                        raise AnalysisError(f"{self.fn.qual}: cannot bind the arguments of {u(n)[:80]}")
                    bound = positional(n, PRIVATE_PARAMS[n.func.attr])
                    for idx in PRIVATE_ALIGNED[n.func.attr]:
                        arg = bound.get(PRIVATE_PARAMS[n.func.attr][idx])
                        if arg is not None:
                            self.sinks.append((
                                "ARG", n, self.q(arg, env),
                                f"self.{n.func.attr}(... {u(arg)} ...) [parameter {idx}]"))
            elif isinstance(n, ast.BinOp) and isinstance(n.op, (ast.FloorDiv, ast.Mod)) \
                    and self.q(n.right, env) == P:
                ql = self.q(n.left, env)
                self.sinks.append(("DIV", n, A if ql == P else ql, f"{u(n)[:80]} [dividend: {ql}]"))

    def store(self, tgt: ast.AST, val: str, env: dict[str, str], node: ast.AST) -> None:
        if isinstance(tgt, ast.Name):
            env[tgt.id] = val
        elif isinstance(tgt, ast.Attribute):
            base = u(tgt.value)
            if base == "self" and tgt.attr in ("_timestamp_newest", "_timestamp_oldest"):
                self.sinks.append(("FIELD", node, val, f"self.{tgt.attr} = ..."))
            elif base != "self" and tgt.attr in ("start", "end"):
                self.sinks.append(("GAP", node, val, f"{u(tgt)} = ..."))
        elif isinstance(tgt, (ast.Tuple, ast.List)):
            for t in tgt.elts:
                self.store(t, Q, env, node)

    def stmt(self, s: ast.stmt, env: dict[str, str]) -> None:
        if isinstance(s, ast.Assign):
            self.scan_expr(s.value, env)
            val = self.q(s.value, env)
            for t in s.targets:
                if isinstance(t, (ast.Tuple, ast.List)) and isinstance(s.value, (ast.Tuple, ast.List)) \
                        and len(t.elts) == len(s.value.elts):
                    vals = [self.q(v, env) for v in s.value.elts]
                    for tt, vv in zip(t.elts, vals):
                        self.store(tt, vv, env, s)
                else:
                    self.store(t, val, env, s)
        elif isinstance(s, ast.AnnAssign):
            if s.value is not None:
                self.scan_expr(s.value, env)
                self.store(s.target, self.q(s.value, env), env, s)
        elif isinstance(s, ast.AugAssign):
            self.scan_expr(s.value, env)
            cur = self.q(s.target, env)
            fake = ast.BinOp(left=s.target, op=s.op, right=s.value)
            self.store(s.target, self.q(fake, env) if cur != Q else Q, env, s)
        elif isinstance(s, ast.Expr):
            self.scan_expr(s.value, env)
        elif isinstance(s, ast.Return):
            if s.value is not None:
                self.scan_expr(s.value, env)
                self.returns.append((s, self.q(s.value, env)))
        elif isinstance(s, ast.If):
            self.scan_expr(s.test, env)
            e1, e2 = dict(env), dict(env)
            self.block(s.body, e1)
            self.block(s.orelse, e2)
            t1 = _terminates(s.body)
            t2 = _terminates(s.orelse) if s.orelse else False
            env.clear()
            if t1 and not t2:
                env.update(e2)
            elif t2 and not t1:
                env.update(e1)
            else:
                for k in set(e1) | set(e2):
                    env[k] = join(e1.get(k, Q), e2.get(k, Q)) if k in e1 and k in e2 else Q
        elif isinstance(s, (ast.For, ast.While)):
            if isinstance(s, ast.For):
                self.scan_expr(s.iter, env)
                for n in ast.walk(s.target):
                    if isinstance(n, ast.Name):
                        env[n.id] = Q
            else:
                self.scan_expr(s.test, env)
            before = dict(env)
            for _ in range(2):
                self.block(s.body, env)
                for k in list(env):
                    env[k] = join(env[k], before.get(k, env[k]))
            if s.orelse:
                self.block(s.orelse, env)
        elif isinstance(s, ast.Try):
            self.block(s.body, env)
            for h in s.handlers:
                self.block(h.body, dict(env))
            self.block(s.orelse, env)
            self.block(s.finalbody, env)
        elif isinstance(s, ast.With):
            self.block(s.body, env)
        elif isinstance(s, ast.Assert):
            self.scan_expr(s.test, env)
        elif isinstance(s, (ast.Raise, ast.Pass, ast.Delete, ast.Break, ast.Continue,
                            ast.Import, ast.ImportFrom, ast.FunctionDef)):
            return
        elif isinstance(s, ast.Match):
            for c in s.cases:
                self.block(c.body, dict(env))
        else:
            raise AnalysisError(f"{self.fn.qual}: statement {type(s).__name__} not handled by the "
                                "typestate analysis")


def _terminates(stmts: list[ast.stmt]) -> bool:
    return bool(stmts) and isinstance(stmts[-1], (ast.Return, ast.Raise, ast.Continue, ast.Break))


# private methods doing slot arithmetic on these positional parameters (index after self)
PRIVATE_ALIGNED: dict[str, list[int]] = {}
PRIVATE_PARAMS: dict[str, list[str]] = {}   # parameter names (after self) of those methods


def _datetime_params(fn: FuncInfo) -> list[tuple[int, str]]:
    out = []
    args = fn.node.args.posonlyargs + fn.node.args.args
    for i, a in enumerate(args[1:]):
        if a.annotation is not None and "datetime" in u(a.annotation):
            out.append((i, a.arg))
    return out


ROLE_HINTS = {"update_gaps": "_update_gaps", "remove_gap": "_remove_gap", "cleanup_gaps": "_cleanup_gaps",
              "fill": "_fill_gaps", "fetch": "_wrapped_buffer_window"}


def _roles(prog: Program) -> dict[str, str]:
    """The private methods of OrderedRingBuffer the rules anchor on, bound by the role they play (who calls them
    with what); their names are only a hint to choose between several candidates:
      fetch         called from window() with the ring (`self._buffer`) as first argument and two slot positions
      fill          called from window() with the public `fill_value` and the gap list
      update_gaps   called from update() with three arguments, writes the gap list but neither data nor bounds
      remove_gap    called from update_gaps with its timestamp parameter only, writes the gap list
      cleanup_gaps  called from update_gaps without arguments, writes the gap list
    A role nobody plays is an AnalysisError (exit 2)."""
    cached = prog.__dict__.get("_c09_roles")
    if cached is not None:
        return cached
    cls = prog.cls(f"{BUF}:OrderedRingBuffer")
    summ = MutationSummary(prog, cls)

    def private_calls(fn: FuncInfo, depth: int = 2, seen: tuple[str, ...] = ()) -> list[tuple[ast.Call, FuncInfo]]:
        out = []
        for c in walk_no_nested(fn.node):
            if isinstance(c, ast.Call) and isinstance(c.func, ast.Attribute) and isinstance(c.func.value, ast.Name) \
                    and c.func.value.id in ("self", cls.name) and c.func.attr.startswith("_") \
                    and not c.func.attr.startswith("__"):
                m = prog.resolve_method(cls, c.func.attr)
                if m is not None:
                    out.append((c, m))
                    if depth > 0 and m.name not in seen and m.name != fn.name:
                        out.extend(private_calls(m, depth - 1, seen + (fn.name,)))
        return out

    def pick(role: str, cands: list[str]) -> str:
        names = sorted(set(cands))
        if ROLE_HINTS[role] in names or (not names and ROLE_HINTS[role] in cls.methods):
            return ROLE_HINTS[role]
        if len(names) == 1:
            return names[0]
        raise AnalysisError(f"C09: {'no' if not names else 'more than one'} private method of OrderedRingBuffer plays the "
                            f"role `{role}` ({names})")

    def arg_texts(c: ast.Call) -> list[str]:
        return [u(a) for a in c.args] + [u(k.value) for k in c.keywords]

    up, wn = cls.methods.get("update"), cls.methods.get("window")
    if up is None or wn is None:
        raise AnalysisError("OrderedRingBuffer.update / window not found")
    roles: dict[str, str] = {}
    in_window = private_calls(wn, 1)
    roles["fetch"] = pick("fetch", [m.name for c, m in in_window if c.args and u(c.args[0]) == "self._buffer"
                                    and len(arg_texts(c)) >= 3])
    roles["fill"] = pick("fill", [m.name for c, m in in_window if "fill_value" in arg_texts(c)
                                  and {"self.gaps", "self._gaps"} & set(arg_texts(c))])
    roles["update_gaps"] = pick("update_gaps", [
        m.name for c, m in private_calls(up, 1) if len(arg_texts(c)) == 3
        and "_gaps" in summ.of_method(m.name) and not summ.of_method(m.name) & {"_buffer", "_timestamp_newest", "_timestamp_oldest"}])
    ug = cls.methods[roles["update_gaps"]]
    ts = func_params(ug.node)[0] if func_params(ug.node) else ""
    inner = [(c, m) for c, m in private_calls(ug, 1) if "_gaps" in summ.of_method(m.name) and m.name != ug.name]
    roles["remove_gap"] = pick("remove_gap", [m.name for c, m in inner if arg_texts(c) == [ts]])
    tidy = [m.name for c, m in inner if not arg_texts(c)] or [
        m.name for c, m in private_calls(up, 1) if not arg_texts(c) and summ.of_method(m.name) == {"_gaps"}]
    walks_itself = any(isinstance(x, ast.While) and "len(self._gaps)" in u(x.test) for x in walk_no_nested(ug.node))
    if not tidy and ROLE_HINTS["cleanup_gaps"] not in cls.methods and walks_itself:
        roles["cleanup_gaps"] = ""      # the normalising walk is part of update_gaps itself (helper inlined)
    else:
        roles["cleanup_gaps"] = pick("cleanup_gaps", tidy)
    prog.__dict__["_c09_roles"] = roles
    prog.__dict__["_c09_keep"] = {r for r in roles.values() if r}
    return roles


_c09_util.KEEP_RESOLVER = lambda prog: {r for r in _roles(prog).values() if r}  # noqa: E731
_c09_util.ROLE_HINT_NAMES |= set(ROLE_HINTS.values())


def _role(prog: Program, role: str) -> str:
    return _roles(prog)[role]


def _role_func(prog: Program, role: str) -> FuncInfo:
    name = _role(prog, role)
    if not name and role == "cleanup_gaps":
        name = _role(prog, "update_gaps")      # host of the inlined walk
    return prog.func(f"{BUF}:OrderedRingBuffer.{name}")


def check_norm(run: Run, prog: Program) -> None:
    cls = prog.cls(f"{BUF}:OrderedRingBuffer")
    PRIVATE_ALIGNED.clear()
    PRIVATE_PARAMS.clear()
    for name, m in cls.methods.items():
        if name.startswith("_") and not name.startswith("__"):
            idx = [i for i, _ in _datetime_params(m)]
            if idx:
                PRIVATE_ALIGNED[name] = idx
                PRIVATE_PARAMS[name] = func_params(m.node)
    strict = {_role(prog, "fill"), _role(prog, "update_gaps"), _role(prog, "remove_gap")}
    if not strict <= set(PRIVATE_ALIGNED):
        raise AnalysisError(f"C09.NORM: private slot-arithmetic methods moved: {sorted(PRIVATE_ALIGNED)}")

    memo: dict[str, str] = {}
    stack: list[str] = []
    trees: dict[str, FuncInfo] = {}

    def tree(m: FuncInfo) -> FuncInfo:
        # simple private helpers are read at their call site (with the actual arguments)
        if m.name not in trees:
            trees[m.name] = FuncInfo(m.name, m.module, inline_helpers(prog, m, exclude={r for r in _roles(prog).values() if r}),
                                     m.cls, m.outer)
        return trees[m.name]

    def ret_qual(name: str) -> str:
        """Qualifier of what a private method returns, its datetime parameters being aligned (the ARG
        obligation at every call site)."""
        if name in memo:
            return memo[name]
        callee = prog.resolve_method(cls, name)
        if callee is None or name in stack:
            return Q
        stack.append(name)
        dts = {p for _, p in _datetime_params(callee)}
        sub = Typestate(run, tree(callee), dts if name in PRIVATE_ALIGNED else set(),
                        set() if name in PRIVATE_ALIGNED else dts, ret_qual=ret_qual)
        stack.pop()
        out = N
        for _node, ql in sub.returns:
            out = join(out, ql)
        memo[name] = out if sub.returns else Q
        return memo[name]

    # A private method that is not one of the anchored slot-arithmetic methods only *needs* aligned datetime
    # arguments if, read with raw ones, one of its own sinks fails (e.g. a new helper that clamps a raw query
    # bound needs none; one that stores its argument into a time bound does).  Greatest fixpoint downwards.
    changed = True
    while changed:
        changed = False
        for name in sorted(set(PRIVATE_ALIGNED) - strict - (ANCHOR_NAMES - set(ROLE_HINTS.values()))):
            m = cls.methods[name]
            memo.clear()
            trial = Typestate(run, tree(m), set(), {p for _, p in _datetime_params(m)}, ret_qual=ret_qual)
            if all(qual == A for _w, _n, qual, _t in trial.sinks):
                del PRIVATE_ALIGNED[name]
                changed = True
    memo.clear()

    n_sinks = 0
    for name, m in cls.methods.items():
        if name in ("normalize_timestamp", "__init__"):
            continue
        run.analysed(m.qual)
        dps = _datetime_params(m)
        private = name in PRIVATE_ALIGNED
        spliced = tree(m)
        ts = Typestate(run, spliced,
                       aligned_params={p for _, p in dps} if private else set(),
                       raw_params=set() if private else {p for _, p in dps}, ret_qual=ret_qual)
        for what, node, qual, text in ts.sinks:
            n_sinks += 1
            rule = "C09.NORM"
            inst = f"{m.qual}: {what} {text}"
            if what == "DIV":
                msg = ("floor-division slot arithmetic on a time distance that is not provably a whole number "
                       "of sampling periods (results shift by one slot)")
            elif what == "ARG":
                msg = ("a datetime that is not provably on the slot grid is passed to a private "
                       "method doing floor-division slot arithmetic on it (results shift by one slot)")
            elif what == "FIELD":
                msg = "a buffer time bound is set to a datetime that is not provably on the slot grid"
            else:
                msg = "a gap boundary is set to a datetime that is not provably on the slot grid"
            run.check(qual == A, rule, m.qual, node, f"{msg} — qualifier: {qual}; {text}",
                      node=node, file=m.file, instance=inst)
        if name in ("oldest_timestamp", "newest_timestamp", "time_bound_oldest",
                    "time_bound_newest", "get_timestamp"):
            for node, qual in ts.returns:
                n_sinks += 1
                run.check(qual in (A, N), "C09.NORM", m.qual, node,
                          f"{name} is relied upon as an aligned source but returns a value of "
                          f"qualifier {qual}", node=node, file=m.file)
    # normalize_timestamp defines the grid: align + n * period (on every returning path)
    nt = cls.methods.get("normalize_timestamp")
    if nt is None:
        raise AnalysisError("normalize_timestamp not found")
    run.analysed(nt.qual)
    ok, n_ret, wit = True, 0, None
    for p in ordered_paths(prog, nt):
        if p.exit != "return":
            continue
        n_ret += 1
        r = p.ret
        good = False
        if isinstance(r, ast.BinOp) and isinstance(r.op, ast.Add):
            for al, mul in ((r.left, r.right), (r.right, r.left)):
                if u(al) == "self._time_index_alignment" and isinstance(mul, ast.BinOp) \
                        and isinstance(mul.op, ast.Mult) and STEP in (u(mul.left), u(mul.right)):
                    good = True
        if not good:
            ok, wit = False, p
    run.check(ok and n_ret > 0, "C09.NORM", nt.qual, "return align_to + n * sampling_period",
              "normalize_timestamp does not return a point of the grid align_to + n*period",
              node=nt.node, file=nt.file, path=wit.describe() if wit is not None else None)
    if n_sinks < 12:
        raise AnalysisError(f"C09.NORM: only {n_sinks} alignment sinks found")


# ---------------------------------------------------------------------------------------------
STATE = {"_timestamp_newest", "_timestamp_oldest", "_buffer", "_gaps"}
OLDEST_F, NEWEST_F = "self._timestamp_oldest", "self._timestamp_newest"
EMPTY_SENTINELS = (frozenset({OLDEST_F, "self._TIMESTAMP_MAX"}), frozenset({NEWEST_F, "self._TIMESTAMP_MIN"}))
STEP = "self._sampling_period"


def _ring(prog: Program) -> Any:
    return prog.cls(f"{BUF}:OrderedRingBuffer")


def _bound_args(prog: Program, call: ast.Call) -> dict[str, ast.AST]:
    """Arguments of a call of an OrderedRingBuffer method keyed by parameter name (keyword == positional)."""
    if not isinstance(call.func, ast.Attribute):
        raise AnalysisError(f"cannot resolve call {u(call)[:80]}")
    m = prog.resolve_method(_ring(prog), call.func.attr)
    if m is None or any(isinstance(a, ast.Starred) for a in call.args) or any(k.arg is None for k in call.keywords):
        raise AnalysisError(f"cannot bind the arguments of {u(call)[:80]}")
    return positional(call, func_params(m.node))


def _param(prog: Program, method: str, idx: int) -> str:
    m = prog.resolve_method(_ring(prog), method)
    if m is None:
        raise AnalysisError(f"OrderedRingBuffer.{method} not found")
    ps = func_params(m.node)
    if idx >= len(ps):
        raise AnalysisError(f"OrderedRingBuffer.{method}: parameter {idx} not found")
    return ps[idx]


def _floor(run: Run, qual: str | None, ok: bool, msg: str) -> None:
    """Sanity floor of a rule: fail closed when an anchor was not found -- unless the rules have already
    reported what is wrong with that function (a floor must not hide a construct-level violation)."""
    if ok or any(qual is None or v.function == qual for v in run.violations):
        return
    raise AnalysisError(msg)


def _is_index_error(p: Path) -> bool:
    return p.exit == "raise" and p.ret is not None and "IndexError" in u(p.ret)


def _mutations(p: Path, summ: MutationSummary) -> list[tuple[int, str, str, int]]:
    """(position on the path, state attribute, text, line) of every write of the buffer state."""
    out = []
    for i, e in enumerate(p.effects):
        if e.kind == "write":
            tgt, val = e.node.elts  # type: ignore[attr-defined]
            r = self_attr_root(tgt)
            if r in STATE:
                out.append((i, r, f"{u(tgt)} = {u(val)}", e.lineno))
        elif e.kind == "del":
            r = self_attr_root(e.node)
            if r in STATE:
                out.append((i, r, f"del {u(e.node)}", e.lineno))
        elif e.kind == "call":
            for r in sorted(summ.of_call(e.node) & STATE):  # type: ignore[arg-type]
                out.append((i, r, u(e.node), e.lineno))
    return out


def _too_old_marks(p: Path) -> list[tuple[int, str, bool]]:
    """(position, T, outcome) of every decided `T < self._timestamp_oldest` (in any spelling)."""
    out = []
    for i, e in enumerate(p.effects):
        if e.kind != "cond":
            continue
        key, outcome = e.orig  # type: ignore[misc]
        if isinstance(key, tuple) and len(key) == 3 and key[0] == "<" and key[2] == OLDEST_F:
            out.append((i, key[1], outcome))
        elif isinstance(key, tuple) and len(key) == 3 and key[0] == "<=" and key[1] == OLDEST_F:
            out.append((i, key[2], not outcome))
    return out


def _empty_before(p: Path, before: int | None) -> bool:
    """The path has established (before that position) that nothing was written yet (sentinel bounds)."""
    return any(decided(p, ("==", s), before) is True for s in EMPTY_SENTINELS)


def _through_normalize(prog: Program) -> Any:
    """normalize_timestamp is monotone and fixes grid points: a bound by an aligned limit survives it."""
    def through(c: ast.Call) -> ast.AST | None:
        if method_call(c, "self", "normalize_timestamp"):
            args = _bound_args(prog, c)
            if len(args) == 1:
                return next(iter(args.values()))
        return None
    return through


def _index_arg(prog: Program, e: ast.AST | None, base: str, what: str) -> ast.AST:
    """e == `<base>.to_internal_index(X)` -> X."""
    if not (isinstance(e, ast.Call) and method_call(e, base, "to_internal_index")):
        raise AnalysisError(f"{what}: cannot relate slot position `{u(e)[:80]}` to a datetime")
    args = _bound_args(prog, e)
    tparam = _param(prog, "to_internal_index", 0)
    extra = {k: v for k, v in args.items() if k != tparam}
    if tparam not in args or any(not (isinstance(v, ast.Constant) and v.value is False) for v in extra.values()):
        raise AnalysisError(f"{what}: unexpected arguments in `{u(e)[:80]}`")
    return args[tparam]


def check_valid(run: Run, prog: Program) -> None:  # noqa: C901
    check_valid_update(run, prog)
    check_valid_window(run, prog)
    check_window_cases(run, prog)
    check_valid_at(run, prog)
    check_range(run, prog)


def check_valid_update(run: Run, prog: Program) -> None:
    """update(): reject-before-mutate, decided per symbolic path (helpers spliced in / summarised)."""
    up = prog.func(f"{BUF}:OrderedRingBuffer.update")
    run.analysed(up.qual)
    summ = MutationSummary(prog, _ring(prog))
    paths = ordered_paths(prog, up)
    kinds: set[str] = set()
    sites: dict[tuple[int, str], tuple[bool, Path]] = {}
    rejecting: list[Path] = []
    for p in paths:
        marks = _too_old_marks(p)
        muts = _mutations(p, summ)
        kinds |= {r for _i, r, _t, _l in muts}
        if any(o for _i, _t, o in marks) and not _empty_before(p, None):
            # the timestamp is older than the oldest slot of a non-empty window: reject, touch nothing
            rejecting.append(p)
            ok = _is_index_error(p) and not muts
            run.check(ok, "C09.VALID", up.qual, f"if {marks[0][1]} < self._timestamp_oldest [and written]: raise IndexError",
                      "the too-old test does not lead to `raise IndexError` before any mutation",
                      node=up.node, file=up.file, path=p.describe())
            continue
        for i, _r, text, line in muts:
            ok = any(pos < i and not o for pos, _t, o in marks) or _empty_before(p, i)
            prev = sites.get((line, text))
            if prev is None or (prev[0] and not ok):
                sites[(line, text)] = (ok, p)
    for p in paths:
        if p.exit == "raise" and not _is_assertion(p) and not any(p is r for r in rejecting):
            run.violation("C09.VALID", up.qual, f"raise {u(p.ret)[:60]}",
                          "update() raises although the (normalised) timestamp is not established to be older than "
                          "the oldest slot of a non-empty window: samples inside or ahead of the window are rejected",
                          node=up.node, file=up.file, path=p.describe())
    _floor(run, up.qual, {"_timestamp_newest", "_timestamp_oldest", "_buffer", "_gaps"} <= kinds,
           f"{up.qual}: expected writes of both time bounds, the data and the gap list, found {sorted(kinds)}")
    run.check(bool(rejecting), "C09.VALID", up.qual, "timestamp < self._timestamp_oldest",
              "update() does not reject exactly the timestamps older than the window "
              "(strict `<` against the oldest slot): no rejection test against self._timestamp_oldest found",
              node=up.node, file=up.file)
    for (line, text), (ok, p) in sorted(sites.items()):
        run.check(ok, "C09.VALID", up.qual, text,
                  "state is mutated on a path that has not passed the too-old rejection test",
                  node=ast.Pass(lineno=line), file=up.file, path=p.describe(),
                  instance=f"{up.qual}: `{text[:50]}` dominated by the too-old test")


def check_valid_window(run: Run, prog: Program) -> None:  # noqa: C901
    """window(): clamp-before-index, empty guard (on aligned operands), fill-before-return; per path."""
    wn = prog.func(f"{BUF}:OrderedRingBuffer.window")
    run.analysed(wn.qual)
    paths = ordered_paths(prog, wn)
    through = _through_normalize(prog)
    p_start, p_end = _param(prog, _role(prog, "fetch"), 1), _param(prog, _role(prog, "fetch"), 2)
    f_data, f_fill, f_origin, f_gaps = (_param(prog, _role(prog, "fill"), i) for i in range(4))
    fv = "fill_value"
    if fv not in wn.params:
        raise AnalysisError(f"{wn.qual}: public parameter fill_value not found")
    quals = Typestate(run, wn, set(), {p for _, p in _datetime_params(wn)}, scan=False)
    env0 = {p: R for _, p in _datetime_params(wn)}
    lower = {"self.oldest_timestamp"}
    upper = {f"self.newest_timestamp + {STEP}"}
    n = 0
    for p in paths:
        ws = p.calls(lambda c: method_call(c, None, _role(prog, "fetch")))
        if not ws:
            if p.calls(lambda c: method_call(c, "self", "to_internal_index")):
                raise AnalysisError(f"{wn.qual}: slot positions computed on a path without a data fetch")
            continue
        if len(ws) != 1:
            raise AnalysisError(f"{wn.qual}: {len(ws)} data fetches on one path")
        n += 1
        w = ws[0]
        wpos = index_of(p, w)
        a = _bound_args(prog, w.node)  # type: ignore[arg-type]
        s_pos, e_pos = a.get(p_start), a.get(p_end)
        xs, xe = _index_arg(prog, s_pos, "self", wn.qual), _index_arg(prog, e_pos, "self", wn.qual)
        firsts = [first_call(p, u(s_pos)), first_call(p, u(e_pos))]
        if None in firsts:
            raise AnalysisError(f"{wn.qual}: slot-index computation not found on the path")
        ipos = min(firsts)  # type: ignore[type-var]
        where = dict(node=wn.node, file=wn.file, path=p.describe())
        for x, fname, ok, word in (
                (xs, "max", lower_bounded(p, xs, lower, ipos, through), "oldest stored slot"),
                (xe, "min", upper_bounded(p, xe, upper, ipos, through), "slot after the newest")):
            run.check(ok, "C09.VALID", wn.qual, f"{fname}(<query bound>, <{word}>)",
                      f"the slot index of `{u(x)[:80]}` is computed without first clamping it to the "
                      f"{word}: data outside the covered range (evicted/unwritten slots) is exposed",
                      instance=f"{wn.qual}: clamp to the {word} dominates to_internal_index", **where)
        run.check(entails_lt(p, xs, xe, ipos), "C09.VALID", wn.qual, "if start >= end: return empty",
                  "slot positions are computed without the empty-range guard: equal positions make "
                  "_wrapped_buffer_window return the whole buffer", **where)
        for x in (xs, xe):
            ql = quals.q(x, dict(env0))
            run.check(ql == A, "C09.NORM", wn.qual, "start >= end",
                      "the emptiness/ordering guard before the slot-index computation compares "
                      "un-normalised datetimes: two times inside the same slot pass `start < end` "
                      f"yet map to the same slot index, and the whole buffer is returned — qualifier: {ql}; "
                      f"{u(x)[:100]}", instance=f"{wn.qual}: CMP operand {u(x)[:60]}", **where)
        if p.exit != "return":
            continue
        ok = decided(p, ("is", frozenset({fv, "None"}))) is True
        if not ok:
            for f in p.calls(lambda c: method_call(c, "self", _role(prog, "fill"))):
                if index_of(p, f) < wpos:
                    continue
                fa = _bound_args(prog, f.node)  # type: ignore[arg-type]
                ok = u(fa.get(f_origin)) == u(xs) and u(fa.get(f_gaps)) in ("self.gaps", "self._gaps") \
                    and u(w.node) in u(fa.get(f_data)) and u(fa.get(f_fill)) == fv \
                    and p.ret is not None and u(p.ret) in (u(f.node), u(fa.get(f_data)))
                if ok:
                    break
        run.check(ok, "C09.VALID", wn.qual, "if fill_value is not None: window = self._fill_gaps(window, "
                  "fill_value, <clamped start>, self.gaps)",
                  "a non-empty window can be returned without the gaps being filled from the clamped "
                  "start although fill_value was given (stale/unwritten slot values leak)", **where)
    if not n:
        raise AnalysisError(f"{wn.qual}: _wrapped_buffer_window call not found")


def _nonzero(p: Path, n: str) -> bool:
    tests = [(("truthy", n), True), (("<", "0", n), True), (("<=", "1", n), True),
             (("==", frozenset({n, "0"})), False), (("<=", n, "0"), False), (("<", n, "1"), False)]
    return any(decided(p, key) is pol for key, pol in tests)


def _gap_test_normalises(prog: Program) -> bool:
    """Does OrderedRingBuffer.is_missing() bring its argument onto the slot grid by itself?  (Yes iff its timestamp
    parameter is read nowhere but as the argument of self.normalize_timestamp(): then what it answers depends on the
    normalised timestamp only and a caller may pass a raw datetime.)"""
    fn = prog.resolve_method(_ring(prog), "is_missing")
    if fn is None:
        raise AnalysisError("OrderedRingBuffer.is_missing not found")
    ps = func_params(fn.node)
    if not ps:
        raise AnalysisError(f"{fn.qual}: no timestamp parameter")
    ts = ps[0]
    wrapped: set[int] = set()
    for c in ast.walk(fn.node):
        if isinstance(c, ast.Call) and method_call(c, "self", "normalize_timestamp") and len(c.args) == 1 \
                and not c.keywords and isinstance(c.args[0], ast.Name) and c.args[0].id == ts:
            wrapped.add(id(c.args[0]))
    reads = [n for n in ast.walk(fn.node) if isinstance(n, ast.Name) and n.id == ts and isinstance(n.ctx, ast.Load)]
    # `T = self.normalize_timestamp(T)` as an unconditional statement of the body: every later read is on the grid
    for s in fn.node.body:
        if isinstance(s, ast.Assign) and len(s.targets) == 1 and u(s.targets[0]) == ts and isinstance(s.value, ast.Call) \
                and s.value.args and id(s.value.args[0]) in wrapped:
            reads = [n for n in reads if n.lineno < s.lineno or any(n is x for x in ast.walk(s))]
            break
    return bool(reads) and all(id(n) in wrapped for n in reads)


def check_valid_at(run: Run, prog: Program) -> None:  # noqa: C901
    """MovingWindow.at: every buffer read is range-checked on both sides, exactly against the covered range."""
    at = prog.func(f"{MW}:MovingWindow.at")
    run.analysed(at.qual)
    paths = ordered_paths(prog, at)
    key = at.params[1]
    buf = "self._buffer"
    oldest, newest = f"{buf}.oldest_timestamp", f"{buf}.newest_timestamp"
    covered = (f"{buf}.count_covered()", "self.count_covered()", "len(self)")
    forms: set[str] = set()
    all_ok = True
    positions: dict[str, set[str]] = {"datetime": set(), "index": set()}

    def in_range(p: Path, kind: str, k: ast.AST) -> tuple[bool, bool]:
        if kind == "datetime":
            return entails_le(p, oldest, k), entails_le(p, k, newest)
        return (any(entails_le(p, f"-{c}", k) for c in covered),
                any(entails_lt(p, k, c) for c in covered))

    def out_of_range(p: Path, kind: str, k: str) -> bool:
        if kind == "datetime":
            return entails_lt(p, k, oldest) or entails_lt(p, newest, k)
        return any(entails_lt(p, k, f"-{c}") or (c != k and entails_le(p, c, k) and not entails_le(p, k, c))
                   for c in covered)

    for p in paths:
        exprs = [p.ret] + [e.node for e in p.effects if e.kind in ("call", "write")]
        seen: set[str] = set()
        for x in exprs:
            for sub in subscripts_of(x, buf):
                if u(sub) in seen:
                    continue
                seen.add(u(sub))
                k = _index_arg(prog, sub.slice, buf, at.qual)
                kind = "datetime"
                if isinstance(k, ast.Call) and method_call(k, buf, "get_timestamp"):
                    ga = _bound_args(prog, k)
                    if len(ga) != 1:
                        raise AnalysisError(f"{at.qual}: cannot bind {u(k)}")
                    k, kind = next(iter(ga.values())), "index"
                forms.add(kind)
                positions[kind].add(u(k))
                kd, ki = truth(p, f"isinstance({key}, datetime)"), truth(p, f"isinstance({key}, int)")
                run.check(kd is True if kind == "datetime" else ((kd is False or ki is True) and ki is not False),
                          "C09.VALID", at.qual, f"{kind} key handled as {kind}",
                          f"the {kind} way of reading is taken for a key that is not established to be "
                          f"{'a datetime' if kind == 'datetime' else 'an index'} (datetime: {kd}, int: {ki}): every "
                          "regular lookup fails", node=at.node, file=at.file, path=p.describe())
                lo, hi = in_range(p, kind, k)
                all_ok = all_ok and lo and hi
                run.check(lo and hi, "C09.VALID", at.qual, f"return {u(sub)}",
                          "the buffer is read at a position derived from the key without a two-sided range "
                          "check against the covered range (IndexError on both ends): out-of-range indices "
                          "return unwritten or wrapped-around slots"
                          + ("" if lo else " — lower side not established")
                          + ("" if hi else " — upper side not established"),
                          node=at.node, file=at.file, path=p.describe(),
                          instance=f"{at.qual}: read `{u(sub)[:60]}` dominated by a two-sided range guard")
                run.check(_nonzero(p, f"{buf}.count_valid()"), "C09.VALID", at.qual,
                          "if self._buffer.count_valid() == 0: raise IndexError",
                          "a read is possible on an empty buffer", node=at.node, file=at.file, path=p.describe())
                # the raw storage is read only for a slot that is established not to lie in a gap: slots skipped by a jump
                # ahead are recorded in the gap list but keep the value evicted from them
                # ... and the gap test addresses the slot the read addresses: gap boundaries lie on the slot grid and the
                # test is a plain interval test, so its argument is the *normalised* timestamp of the position read
                # (to_internal_index() normalises by itself); a datetime that is already on the grid (get_timestamp(),
                # normalize_timestamp()) may be passed as it is, a raw key only if is_missing() normalises on its own
                raw_test = None
                if kind == "index":
                    # get_timestamp() yields a slot-grid timestamp; normalising it again changes nothing
                    cands = [f"{buf}.is_missing({buf}.get_timestamp({u(k)}))",
                             f"{buf}.is_missing({buf}.normalize_timestamp({buf}.get_timestamp({u(k)})))"]
                else:
                    cands = [f"{buf}.is_missing({buf}.normalize_timestamp({u(k)}))"]
                    on_grid = isinstance(k, ast.Call) and any(method_call(k, buf, m) for m in sorted(ALIGNED_CALLS))
                    if on_grid or _gap_test_normalises(prog):
                        cands.append(f"{buf}.is_missing({u(k)})")
                    else:
                        raw_test = f"{buf}.is_missing({u(k)})"
                no_gap = any(truth(p, c) is False for c in cands)
                if not no_gap and raw_test is not None and truth(p, raw_test) is False:
                    run.violation(
                        "C09.VALID", at.qual, f"gap test and storage read address the same slot ({kind} key)",
                        f"the gap list is consulted with the key as given, `{raw_test[:70]}`, while `{u(sub)[:70]}` reads the slot "
                        "the key is *normalised* onto: gap boundaries lie on the slot grid and the gap test is a plain interval "
                        "test, so for a key off the grid the two address different slots -- a key less than half a period "
                        "before a gap rounds onto the gap's first slot, is judged `not missing`, and at() returns the value "
                        "evicted from that slot (or unwritten memory) where window() returns the fill value; a key in the "
                        "last half period of a gap rounds onto the valid slot after it and at() returns NaN for a stored "
                        "value.  Both sites must go through the same normalised timestamp (is_missing(normalize_timestamp("
                        "key)) or one local holding it); the same holds for a test on a shifted or otherwise derived raw key",
                        node=at.node, file=at.file, path=p.describe())
                    continue
                run.check(no_gap, "C09.VALID", at.qual, f"raw read of a covered slot only when it is not in a gap ({kind} key)",
                          f"`{u(sub)[:70]}` reads the raw storage for a covered slot without the gap list having been consulted "
                          "(is_missing(<that slot's timestamp>) false on the path): a slot skipped by a jump ahead (capacity 5, "
                          "valid samples at slots 0..4, then slot 7) still holds the value evicted from it, so at(slot 5) returns "
                          "slot 0's value where window() returns the fill value", node=at.node, file=at.file, path=p.describe(),
                          instance=f"{at.qual}: read `{u(sub)[:60]}` only for a slot outside every gap")
    if forms != {"datetime", "index"}:
        raise AnalysisError(f"{at.qual}: expected a buffer read per key kind, found {sorted(forms)}")
    # a position found out of range is rejected with IndexError
    n = 0
    for p in paths:
        for kind, ks in positions.items():
            for k in sorted(ks):
                if out_of_range(p, kind, k):
                    n += 1
                    run.check(_is_index_error(p), "C09.VALID", at.qual, f"{k} out of range: raise IndexError",
                              "a position outside the covered range is not rejected with IndexError",
                              node=at.node, file=at.file, path=p.describe())
    # ... and IndexError / TypeError are raised for nothing else
    for p in paths:
        if p.exit != "raise" or _is_assertion(p):
            continue
        if _raised(p, "IndexError"):
            ok = zero(p, f"{buf}.count_valid()") is True or any(
                out_of_range(p, kind, k) for kind, ks in positions.items() for k in ks)
        elif _raised(p, "TypeError"):
            ok = truth(p, f"isinstance({key}, datetime)") is False and truth(p, f"isinstance({key}, int)") is False
        else:
            ok = False
        run.check(ok, "C09.VALID", at.qual, f"raise {u(p.ret)[:50]}",
                  "at() raises although the buffer is not established to be empty nor the key to lie outside the "
                  "covered range (IndexError) / to be neither a datetime nor an index (TypeError): a lookup of a "
                  "covered slot fails", node=at.node, file=at.file, path=p.describe())
    _floor(run, at.qual, not all_ok or n >= 4, f"{at.qual}: only {n} rejecting paths found for the two key kinds")


def _gap_args(c: ast.Call) -> dict[str, ast.AST]:
    return positional(c, ["start", "end"])


def check_gaps(run: Run, prog: Program) -> None:
    check_gap_cases(run, prog)
    check_gap_bounds(run, prog)
    check_remove_gap(run, prog)
    check_cleanup(run, prog)
    check_fill_stores(run, prog)


def check_gap_bounds(run: Run, prog: Program) -> None:  # noqa: C901
    """C09.GAP: forward jumps mark every skipped slot; gap filling writes only inside the window."""
    fn = _role_func(prog, "update_gaps")
    run.analysed(fn.qual)
    ts, newest, rec = fn.params[1], fn.params[2], fn.params[3]
    first_unwritten = f"{newest} + {STEP}"
    paths = ordered_paths(prog, fn)
    gap_sites: set[int] = set()
    missing_recorded = 0
    for p in paths:
        gaps = p.calls(lambda c: u(c.func) == "Gap")
        for g in gaps:
            gap_sites.add(g.lineno)
            start = _gap_args(g.node).get("start")  # type: ignore[arg-type]
            if start is None:
                raise AnalysisError(f"{fn.qual}: Gap(...) without start")
            ok = upper_bounded(p, start, {first_unwritten, OLDEST_F}, index_of(p, g))
            run.check(ok, "C09.GAP", fn.qual, g.node,
                      f"a gap recorded by update() starts at `{u(start)}`: when the new sample jumps ahead of "
                      f"`{newest} + period`, the skipped (never written) slots before it are not marked as "
                      "missing, so count_valid/gaps/window() treat evicted data as valid",
                      node=ast.Pass(lineno=g.lineno), file=fn.file, path=p.describe(),
                      instance=f"{fn.qual}: {u(g.node)[:60]} starts no later than the first unwritten slot")
        # a missing sample that is not inside a gap yet is recorded as one
        if decided(p, ("truthy", rec)) is True and p.exit != "raise":
            known = decided(p, ("truthy", f"self.is_missing({ts})"))
            if gaps:
                missing_recorded += 1
            if known is False:
                run.check(bool(gaps), "C09.GAP", fn.qual, "missing sample -> gap recorded",
                          "a missing (None/NaN) sample is not recorded as a gap", node=fn.node, file=fn.file,
                          path=p.describe())
    _floor(run, fn.qual, len(gap_sites) >= 3, f"{fn.qual}: only {len(gap_sites)} Gap constructions found")
    run.check(missing_recorded > 0, "C09.GAP", fn.qual, "missing sample -> gap recorded",
              "a missing (None/NaN) sample is not recorded as a gap", node=fn.node, file=fn.file)
    # _fill_gaps writes only inside [0, len(data)]
    fg = _role_func(prog, "fill")
    run.analysed(fg.qual)
    data = fg.params[1]
    fpaths = ordered_paths(prog, fg)
    fpaths = fpaths + loop_paths(fpaths, fg.qual, prog=prog, fn=fg)
    stores: set[int] = set()
    for p in fpaths:
        for i, e in enumerate(p.effects):
            if e.kind != "write":
                continue
            tgt, val = e.node.elts  # type: ignore[attr-defined]
            if not (isinstance(tgt, ast.Subscript) and u(tgt.value) == data):
                continue
            if not isinstance(tgt.slice, ast.Slice) or tgt.slice.step is not None:
                raise AnalysisError(f"{fg.qual}: write `{u(tgt)}` into the window is not a plain slice store")
            stores.add(e.lineno)
            lo, hi = tgt.slice.lower, tgt.slice.upper
            lo_ok = lo is None or lower_bounded(p, lo, {"0"}, i)
            hi_ok = hi is None or upper_bounded(p, hi, {f"len({data})"}, i)
            run.check(lo_ok and hi_ok, "C09.GAP", fg.qual, f"{data}[{u(lo)[:40]}:{u(hi)[:40]}] = {u(val)}",
                      f"the fill writes `{u(tgt)[:160]}` without both indices clamped into [0, len({data})]: "
                      "a slice assignment past the end of a list *extends* it, so a window query returns more "
                      "slots than it spans (and list/numpy containers disagree)",
                      node=ast.Pass(lineno=e.lineno), file=fg.file, path=p.describe())
    if not stores:
        raise AnalysisError(f"{fg.qual}: slice assignments into the window not found")


def check_idx(run: Run, prog: Program) -> None:
    """The slot number of a timestamp is measured from the same origin, in the same unit, as the grid
    normalize_timestamp() snaps to: round((normalized T - _time_index_alignment) / _sampling_period)."""
    from ..engine.normalize import inline_helpers
    from ..engine.sympath import sym_paths
    fn = prog.func(f"{BUF}:OrderedRingBuffer.to_internal_index")
    nt = prog.func(f"{BUF}:OrderedRingBuffer.normalize_timestamp")
    run.analysed(fn.qual)
    T = fn.params[1]
    ORIGIN, STEP = "self._time_index_alignment", "self._sampling_period"
    te = TermEval()
    want = Poly.atom(f"self.normalize_timestamp({T})") - Poly.atom(ORIGIN)

    def slot_ok(e: ast.AST) -> bool:
        # round(X.total_seconds() / STEP.total_seconds()) | round(X / STEP) | X // STEP   with X = T' - ORIGIN
        if isinstance(e, ast.Call) and u(e.func) in ("round", "int") and len(e.args) == 1 and not e.keywords:
            e = e.args[0]
            if not (isinstance(e, ast.BinOp) and isinstance(e.op, ast.Div)):
                return False
        elif not (isinstance(e, ast.BinOp) and isinstance(e.op, ast.FloorDiv)):
            return False
        num, den = e.left, e.right
        secs = lambda x: isinstance(x, ast.Call) and isinstance(x.func, ast.Attribute) \
            and x.func.attr == "total_seconds" and not x.args  # noqa: E731
        if secs(num) and secs(den):
            num, den = num.func.value, den.func.value  # type: ignore[union-attr]
        elif secs(num) or secs(den):
            return False
        return u(den) == STEP and te.ev(num) == want

    n = 0
    for p in sym_paths(inline_helpers(prog, fn)):
        if p.exit != "return":
            continue
        n += 1
        r = p.ret
        ok = isinstance(r, ast.Call) and u(r.func) == "self.wrap" and len(r.args) == 1 and not r.keywords \
            and slot_ok(r.args[0])
        run.check(ok, "C09.IDX", fn.qual, "wrap(round((normalize(T) - _time_index_alignment) / _sampling_period))",
                  "the storage slot of a timestamp is not computed from the normalised timestamp's distance to "
                  "the alignment origin in sampling periods: normalize_timestamp() snaps to the "
                  "_time_index_alignment grid, so with another origin (e.g. the UNIX epoch) neighbouring slots "
                  f"can round onto the same cell and overwrite each other (found {u(r)[:120]})",
                  node=fn.node, file=fn.file, path=p.describe())
    if not n:
        raise AnalysisError(f"{fn.qual}: no return path")
    # the grid normalize_timestamp snaps to has that origin and step
    ok, wit = True, None
    for p in ordered_paths(prog, nt):
        dm = p.calls(lambda c: u(c.func) == "divmod")
        good = len(dm) == 1 and len(dm[0].node.args) == 2 and not dm[0].node.keywords \
            and u(dm[0].node.args[1]) == STEP \
            and te.ev(dm[0].node.args[0]) == Poly.atom(nt.params[1]) - Poly.atom(ORIGIN)
        if not good:
            ok, wit = False, p
    run.check(ok, "C09.IDX", nt.qual, "divmod(T - _time_index_alignment, _sampling_period)",
              "normalize_timestamp does not snap to the _time_index_alignment + k * _sampling_period grid that "
              "the slot arithmetic assumes", node=nt.node, file=nt.file,
              path=wit.describe() if wit is not None else None)
    wr = prog.func(f"{BUF}:OrderedRingBuffer.wrap")
    rets = [p.ret for p in ordered_paths(prog, wr) if p.exit == "return"]
    ok = bool(rets) and all(
        isinstance(r, ast.BinOp) and isinstance(r.op, ast.Mod) and u(r.left) == wr.params[1]
        and u(r.right) in ("self.maxlen", "len(self._buffer)") for r in rets)
    run.analysed(wr.qual)
    run.check(ok, "C09.IDX", wr.qual, "wrap(i) = i % maxlen",
              "wrap() is not the slot number modulo the capacity", node=wr.node, file=wr.file)
    check_rounding(run, prog)


# ---------------------------------------------------------------------------------------------
# Rules added after the sensitivity sweep: what each small method of the map computes, decided per path.
FULL = "self._full_time_range"
NAN_TEXTS = {"np.nan", "numpy.nan", "math.nan", "float('nan')", "np.NaN", "nan"}
_TE = TermEval()


def _ast(x: Any) -> ast.AST:
    return ast.parse(x, mode="eval").body if isinstance(x, str) else x


def _poly(x: Any) -> Poly:
    return _TE.ev(rename_comp_vars(_ast(x)))


def _same(a: Any, b: Any) -> bool:
    return a is not None and b is not None and _poly(a) == _poly(b)


def _where(fn: FuncInfo, p: Path) -> dict[str, Any]:
    return dict(node=fn.node, file=fn.file, path=p.describe())


def _is_assertion(p: Path) -> bool:
    return p.exit == "raise" and p.ret is not None and u(p.ret) == "AssertionError"


def _raised(p: Path, exc: str) -> bool:
    return p.exit == "raise" and p.ret is not None and exc in u(p.ret).split("(")[0]


def check_store(run: Run, prog: Program) -> None:  # noqa: C901
    """C09.STORE: what update() writes: newest = max(newest, T), oldest = newest - (range - period), the
    sample's value (NaN iff it has none) at the slot of T, and _update_gaps(T, previous newest, missing)."""
    up = prog.func(f"{BUF}:OrderedRingBuffer.update")
    run.analysed(up.qual)
    sample = up.params[1]
    t_norm = f"self.normalize_timestamp({sample}.timestamp)"
    has = f"self.has_value({sample})"
    summ = MutationSummary(prog, _ring(prog))
    g_ts, g_newest, g_rec = (_param(prog, _role(prog, "update_gaps"), i) for i in range(3))
    n = 0
    for p in ordered_paths(prog, up):
        if p.exit == "raise":
            continue
        n += 1
        where = _where(up, p)
        ws = writes(p)
        for e in p.calls():
            hidden = summ.of_call(e.node) & (STATE - {"_gaps"})  # type: ignore[arg-type]
            if hidden:
                raise AnalysisError(f"{up.qual}: `{u(e.node)[:60]}` writes {sorted(hidden)} out of sight")
        newest_w = [w for w in ws if u(w[1]) == NEWEST_F]
        oldest_w = [w for w in ws if u(w[1]) == OLDEST_F]
        data_w = [w for w in ws if isinstance(w[1], ast.Subscript) and u(w[1].value) == "self._buffer"]
        gap_c = [(index_of(p, e), e) for e in p.calls(lambda c: method_call(c, "self", _role(prog, "update_gaps")))]
        # newest bound
        v_new = newest_w[-1][2] if newest_w else _ast(NEWEST_F)
        ok = len(newest_w) <= 1 and is_extreme_of(p, v_new, NEWEST_F, t_norm, True, newest_w[-1][0] if newest_w else None)
        run.check(ok, "C09.STORE", up.qual, f"self._timestamp_newest = max(self._timestamp_newest, T) [{u(v_new)[:60]}]",
                  "after update() the newest bound is not the later of the previous newest slot and the sample's "
                  "(normalised) slot: the window does not end at the newest slot written", **where)
        # oldest bound
        ok = len(oldest_w) == 1 and (not newest_w or newest_w[-1][0] < oldest_w[0][0])
        if ok:
            cands = [NEWEST_F] + ([u(v_new)] if newest_w else [])
            ok = any(_poly(oldest_w[0][2]) == _poly(c) - _poly(FULL) + _poly(STEP) for c in cands)
        run.check(ok, "C09.STORE", up.qual, "self._timestamp_oldest = self._timestamp_newest - (range - period)",
                  "after update() the oldest bound is not the (new) newest bound minus the capacity minus one "
                  "period: the window does not cover exactly the last `capacity` slots", **where)
        bounds_done = max([w[0] for w in newest_w + oldest_w], default=-1)
        # the data
        ok = len(data_w) == 1
        if ok:
            pos, tgt, val, _line = data_w[0]
            try:
                slot_of = u(_index_arg(prog, tgt.slice, "self", up.qual))  # type: ignore[attr-defined]
            except AnalysisError:
                slot_of = ""   # not `self.to_internal_index(T)` with the range check on
            hv = truth(p, has)
            ok = slot_of == t_norm and pos > bounds_done and (
                (hv is True and u(val) == f"{sample}.value.base_value") or (hv is False and u(val) in NAN_TEXTS))
        run.check(ok, "C09.STORE", up.qual, "self._buffer[self.to_internal_index(T)] = value if has_value else NaN",
                  "update() does not store the sample's value (NaN iff it has no valid value) exactly once at the "
                  "slot of its normalised timestamp, after the window moved", **where)
        # the gap bookkeeping
        ok = len(gap_c) == 1 and gap_c[0][0] > bounds_done
        if ok:
            a = _bound_args(prog, gap_c[0][1].node)  # type: ignore[arg-type]
            prev = pre_name(newest_w[-1][3], NEWEST_F) if newest_w else NEWEST_F
            rec = a.get(g_rec)
            hv = truth(p, has)
            if isinstance(rec, ast.Constant) and isinstance(rec.value, bool):
                rec_ok = hv is not None and rec.value == (not hv)
            else:
                rec_ok = rec is not None and canon(rec) == ("not", ("truthy", has))
            ok = u(a.get(g_ts)) == t_norm and u(a.get(g_newest)) == prev and rec_ok
        run.check(ok, "C09.STORE", up.qual, "self._update_gaps(T, <newest before the update>, not has_value)",
                  "the gap bookkeeping is not told the sample's slot, the newest slot *before* this update and "
                  "whether the sample is missing", **where)
    if not n:
        raise AnalysisError(f"{up.qual}: no completing path")


def check_fetch(run: Run, prog: Program) -> None:  # noqa: C901
    """C09.FETCH: _wrapped_buffer_window returns buffer[s:e], or buffer[s:] ++ buffer[:e] when e <= s
    (the ring wraps), as a copy when asked."""
    fw = _role_func(prog, "fetch")
    run.analysed(fw.qual)
    b, s, e, fc = func_params(fw.node)[:4]

    def is_slice(x: ast.AST | None, lo: str | None, hi: str | None) -> bool:
        if not (isinstance(x, ast.Subscript) and u(x.value) == b and isinstance(x.slice, ast.Slice)
                and x.slice.step is None):
            return False
        lo_ok = u(x.slice.lower) == lo if lo is not None else (x.slice.lower is None or u(x.slice.lower) == "0")
        hi_ok = u(x.slice.upper) == hi if hi is not None else (
            x.slice.upper is None or u(x.slice.upper) == f"len({b})")
        return lo_ok and hi_ok

    n = 0
    for p in ordered_paths(prog, fw):
        if p.exit != "return":
            continue
        n += 1
        where = _where(fw, p)
        r = p.ret
        copied = False
        if isinstance(r, ast.Call) and u(r.func) in ("deepcopy", "copy.deepcopy", "copy.copy") and len(r.args) == 1:
            r, copied = r.args[0], True
        elif isinstance(r, ast.Call) and isinstance(r.func, ast.Attribute) and r.func.attr == "copy" and not r.args:
            r, copied = r.func.value, True
        is_list = truth(p, f"isinstance({b}, list)")
        if entails_lt(p, s, e):
            ok = is_slice(r, s, e)
            msg = "a window that does not wrap is not the contiguous slice buffer[start:end]"
            if ok and truth(p, fc) is True and not copied:
                ok, msg = False, "a copy was requested but a view on the stored data is returned"
            if ok and copied and truth(p, fc) is False:
                ok = True
        elif entails_le(p, e, s):
            parts: list[ast.AST] = []
            if isinstance(r, ast.BinOp) and isinstance(r.op, ast.Add) and is_list is True:
                parts = [r.left, r.right]
            elif isinstance(r, ast.Call) and u(r.func) in ("np.concatenate", "numpy.concatenate") and len(r.args) == 1 \
                    and isinstance(r.args[0], (ast.Tuple, ast.List)) and len(r.args[0].elts) == 2 and is_list is not True:
                parts = list(r.args[0].elts)
            ok = (len(parts) == 2 and is_slice(parts[0], s, None) and is_slice(parts[1], None, e)) or (
                is_slice(r, s, None) and entails_le(p, e, "0"))
            msg = ("a window that wraps around the end of the ring is not buffer[start:] followed by "
                   "buffer[:end] in the buffer's own container type")
        else:
            ok, msg = False, "the wrap-around case (end position <= start position) is not told apart"
        run.check(ok, "C09.FETCH", fw.qual, f"return {u(p.ret)[:80]}",
                  f"{msg}: the query returns other slots than the ones it spans", **where)
    if n < 3:
        raise AnalysisError(f"{fw.qual}: only {n} returning paths")


def _missing_count_ok(m: ast.AST) -> bool:
    """max(0, sum((g.end - max(g.start, oldest bound)) // period for g in gaps))"""
    if not (isinstance(m, ast.Call) and u(m.func) == "max" and len(m.args) == 2 and not m.keywords):
        return False
    rest = [a for a in m.args if u(a) != "0"]
    if len(rest) != 1 or not (isinstance(rest[0], ast.Call) and u(rest[0].func) == "sum" and len(rest[0].args) == 1):
        return False
    g = rest[0].args[0]
    if not (isinstance(g, (ast.GeneratorExp, ast.ListComp)) and len(g.generators) == 1 and not g.generators[0].ifs
            and isinstance(g.generators[0].target, ast.Name) and u(g.generators[0].iter) in ("self._gaps", "self.gaps")):
        return False
    v = g.generators[0].target.id
    elt = g.elt
    return isinstance(elt, ast.BinOp) and isinstance(elt.op, ast.FloorDiv) and u(elt.right) == STEP \
        and _same(elt.left, f"{v}.end - max({v}.start, {OLDEST_F})")


def check_count(run: Run, prog: Program) -> None:  # noqa: C901
    """C09.COUNT: the observers (count_valid, count_covered, oldest/newest timestamp, get_timestamp, has_value)
    report what the bounds and the gap list say."""
    q = f"{BUF}:OrderedRingBuffer."
    # ---- has_value
    hv = prog.func(q + "has_value")
    run.analysed(hv.qual)
    val = f"{hv.params[1]}.value"
    n = 0
    for p in ordered_paths(prog, hv, inline=False):
        if p.exit != "return" or p.ret is None:
            continue
        for r, outcome in OrderedSymExec().test(p, p.ret, p.lineno, substituted=True):
            n += 1
            none, nan = none_test(r, val), truth(r, f"{val}.isnan()")
            ok = outcome == (none is False and nan is False) and not (none is True and nan is not None)
            run.check(ok, "C09.COUNT", hv.qual, "has_value == value is not None and not value.isnan()",
                      f"has_value() is {outcome} although value-is-None is {none} and value-is-NaN is {nan}: missing "
                      "samples are stored / counted as valid (or valid ones as missing)", **_where(hv, r))
    if n < 3:
        raise AnalysisError(f"{hv.qual}: only {n} outcomes")
    # ---- time bounds as reported
    for name, field in (("time_bound_oldest", OLDEST_F), ("time_bound_newest", NEWEST_F)):
        fn = prog.func(q + name)
        run.analysed(fn.qual)
        for p in ordered_paths(prog, fn, inline=False):
            run.check(p.exit == "return" and u(p.ret) == field, "C09.COUNT", fn.qual, f"return {field}",
                      f"{name} does not report the {field[6:]} bound", **_where(fn, p))
    for name, bounds in (("newest_timestamp", ("self.time_bound_newest", NEWEST_F)),
                         ("oldest_timestamp", ("self.time_bound_oldest", OLDEST_F))):
        fn = prog.func(q + name)
        run.analysed(fn.qual)
        for p in ordered_paths(prog, fn, inline=False):
            if p.exit != "return":
                continue
            empty = zero(p, "self.count_valid()")
            r = p.ret
            if empty is True:
                ok = r is None or u(r) == "None"
            elif empty is False and name == "newest_timestamp":
                ok = u(r) in bounds
            elif empty is False:
                miss = [truth(p, f"self.is_missing({b})") for b in bounds]
                if True in miss:
                    r2 = rename_comp_vars(r) if r is not None else None
                    ok = r2 is not None and u(r2) in ("min((v0.end for v0 in self.gaps))", "min((v0.end for v0 in self._gaps))",
                                                       "min([v0.end for v0 in self.gaps])", "min([v0.end for v0 in self._gaps])")
                else:
                    ok = False in miss and u(r) in bounds
            else:
                ok = False
            run.check(ok, "C09.COUNT", fn.qual, f"return {u(r)[:60]}",
                      f"{name} is not None exactly on an empty buffer and otherwise the "
                      + ("newest bound" if name == "newest_timestamp" else
                         "oldest bound, or the end of the gap that covers it"), **_where(fn, p))
    # ---- get_timestamp
    gt = prog.func(q + "get_timestamp")
    run.analysed(gt.qual)
    idx = gt.params[1]
    for p in ordered_paths(prog, gt, inline=False):
        if p.exit != "return":
            continue
        empty = none_test(p, "self.oldest_timestamp")
        if empty is True:
            ok = p.ret is None or u(p.ret) == "None"
        elif empty is False and entails_le(p, "0", idx):
            ok = _same(p.ret, f"self.oldest_timestamp + {idx} * {STEP}")
        elif empty is False and entails_lt(p, idx, "0"):
            ok = _same(p.ret, f"self.newest_timestamp + {STEP} + {idx} * {STEP}")
        else:
            ok = False
        run.check(ok, "C09.COUNT", gt.qual, f"return {u(p.ret)[:70]}",
                  "get_timestamp(i) is not oldest + i periods for i >= 0 / one past the newest + i periods for i < 0 "
                  "(None on an empty buffer): index queries address other slots than the covered ones",
                  **_where(gt, p))
    # ---- covered range and counts (the range helper is read at its call site: it may be renamed or inlined)
    cc = prog.func(q + "count_covered")
    run.analysed(cc.qual)
    if prog.has_func(q + "_covered_time_range"):
        run.analysed(q + "_covered_time_range")
    n = 0
    for p in ordered_paths(prog, cc):
        if p.exit != "return":
            continue
        n += 1
        r = p.ret
        if isinstance(r, ast.Call) and u(r.func) == "int" and len(r.args) == 1:
            r = r.args[0]
        ok = isinstance(r, ast.BinOp) and isinstance(r.op, ast.FloorDiv)
        if ok:
            num, den = r.left, r.right  # type: ignore[union-attr]
            secs = lambda x: isinstance(x, ast.Call) and isinstance(x.func, ast.Attribute) \
                and x.func.attr == "total_seconds" and not x.args  # noqa: E731
            if secs(num) and secs(den):
                # the same quotient, but floored on floats: 0.3 // 0.1 == 2.0 (finding F14)
                run.violation("C09.COUNT", cc.qual, "count_covered floors a float quotient of seconds",
                              f"`{u(p.ret)[:90]}` floors the quotient of two float second counts: 0.3 // 0.1 == 2.0, so with a "
                              "100 ms sampling period three consecutive valid samples are reported as 2 covered slots and "
                              "every index query (window(0, 3), window(None, None), MovingWindow[...]) drops the newest value; "
                              "durations divide exactly as timedeltas (`covered // period`)", **_where(cc, p))
                num, den = num.func.value, den.func.value  # type: ignore[union-attr]
            some = truth(p, "self.oldest_timestamp")
            if some is None and none_test(p, "self.oldest_timestamp") is not None:
                some = not none_test(p, "self.oldest_timestamp")
            ok = u(den) == STEP and (
                (some is False and u(num) in ("timedelta(0)", "timedelta()", "timedelta(seconds=0)"))
                or (some is True and _same(num, f"self.newest_timestamp - self.oldest_timestamp + {STEP}")))
        run.check(ok, "C09.COUNT", cc.qual, f"return {u(p.ret)[:70]}",
                  "count_covered is not the covered range, newest - oldest + one period (zero on an empty buffer), in "
                  "sampling periods", **_where(cc, p))
    if n < 2:
        raise AnalysisError(f"{cc.qual}: only {n} returning paths")
    cv = prog.func(q + "count_valid")
    run.analysed(cv.qual)
    s_pos, e_pos = f"self.to_internal_index({OLDEST_F})", f"self.to_internal_index({NEWEST_F})"
    n = 0
    for p in ordered_paths(prog, cv):
        if p.exit != "return":
            continue
        n += 1
        if _empty_before(p, None):
            ok = u(p.ret) == "0"
        elif any(decided(p, ("==", s)) is False for s in EMPTY_SENTINELS):
            base = None
            if entails_le(p, s_pos, e_pos):
                base = _poly(e_pos) + _poly("1") - _poly(s_pos)
            elif entails_lt(p, e_pos, s_pos):
                base = _poly(e_pos) + _poly("1") - _poly(s_pos)
                caps = [c for c in ("len(self._buffer)", "self.maxlen") if p.ret is not None and c in u(p.ret)]
                base = base + _poly(caps[0]) if len(caps) == 1 else None
            ok = False
            if base is not None and p.ret is not None:
                for m in [x for x in ast.walk(p.ret) if isinstance(x, ast.Call) and u(x.func) == "max"]:
                    if _missing_count_ok(m) and _poly(p.ret) == base - _poly(m):
                        ok = True
        else:
            ok = False
        run.check(ok, "C09.COUNT", cv.qual, f"return {u(p.ret)[:80]}",
                  "count_valid is not (slots between the oldest and the newest bound, modulo the capacity) minus the "
                  "slots covered by gaps inside the window (0 on a buffer never written)", **_where(cv, p))
    if n < 3:
        raise AnalysisError(f"{cv.qual}: only {n} returning paths")
    check_facade(run, prog)


FACADE_REPORTS = {
    "count_valid": "the number of slots of the window that hold a valid value (covered slots minus the slots in gaps)",
    "count_covered": "the number of slots from the oldest to the newest valid one, holes included",
    "oldest_timestamp": "the timestamp of the oldest valid slot",
    "newest_timestamp": "the timestamp of the newest slot",
}


def _ring_attr(prog: Program) -> str:
    """The attribute in which MovingWindow keeps the ring buffer it builds (bound by what is stored, not by name)."""
    mw, ring = prog.cls(f"{MW}:MovingWindow"), _ring(prog)
    attrs: set[str] = set()
    for fn in mw.methods.values():
        for s in ast.walk(fn.node):
            if isinstance(s, (ast.Assign, ast.AnnAssign)) and isinstance(s.value, ast.Call) and _builds(prog, fn, s.value, ring):
                for t in (s.targets if isinstance(s, ast.Assign) else [s.target]):
                    if isinstance(t, ast.Attribute) and u(t.value) == "self":
                        attrs.add(t.attr)
    if len(attrs) != 1:
        raise AnalysisError(f"C09.COUNT: cannot tell in which attribute MovingWindow keeps its ring buffer ({sorted(attrs)})")
    return next(iter(attrs))


def check_facade(run: Run, prog: Program) -> None:
    """C09.COUNT (the window's own reports): MovingWindow answers count_valid / count_covered / oldest_timestamp /
    newest_timestamp with the ring buffer's observer of the *same* role (whose meaning the clauses above decide), on
    every returning path; a query by window() forwards each of its parameters to the ring's parameter of that name."""
    mw, ring = prog.cls(f"{MW}:MovingWindow"), _ring(prog)
    buf = f"self.{_ring_attr(prog)}"
    for name, meaning in FACADE_REPORTS.items():
        fn, src = prog.resolve_method(mw, name), prog.resolve_method(ring, name)
        if fn is None or fn.cls is not mw:
            if name.startswith("count_"):
                raise AnalysisError(f"MovingWindow.{name} not found")
            continue
        if src is None:
            raise AnalysisError(f"OrderedRingBuffer.{name} not found")
        run.analysed(fn.qual)
        is_prop = any(u(d) in ("property", "functools.cached_property", "cached_property") for d in src.node.decorator_list)
        want = f"{buf}.{name}" + ("" if is_prop else "()")
        n = 0
        for p in ordered_paths(prog, fn):
            if p.exit != "return":
                continue
            n += 1
            got = u(p.ret) if p.ret is not None else "None"
            other = next((o for o in FACADE_REPORTS if o != name and got in (f"{buf}.{o}", f"{buf}.{o}()")), None)
            run.check(got == want, "C09.COUNT", fn.qual, f"MovingWindow.{name} reports {want} [{got[:60]}]",
                      f"MovingWindow.{name} answers with `{got[:80]}` instead of the ring buffer's `{name}`"
                      + (f" -- that is `{other}`, {FACADE_REPORTS[other]}, where `{name}` is {meaning}: the two agree only "
                         "while the covered range has no hole (dense in-order stream), so after a jump ahead or a None/NaN "
                         "sample the window reports a count / bound that contradicts the content window() returns"
                         if other else f" ({meaning})")
                      + "; every report of the window must be the ring buffer's observer of the same role (the same for "
                      "count_valid <-> count_covered, oldest <-> newest swapped, a capacity or a constant in its place)",
                      **_where(fn, p))
        if not n:
            raise AnalysisError(f"{fn.qual}: no returning path")
    # the slice query: parameters forwarded by name (decided when the answer is the ring's window() call itself)
    fn, src = prog.resolve_method(mw, "window"), prog.resolve_method(ring, "window")
    if fn is None or src is None:
        raise AnalysisError("MovingWindow.window / OrderedRingBuffer.window not found")
    run.analysed(fn.qual)
    shared = [x for x in func_params(src.node) if x in func_params(fn.node)]
    for p in ordered_paths(prog, fn):
        r = p.ret
        if p.exit != "return" or not (isinstance(r, ast.Call) and method_call(r, buf, "window")):
            continue
        args = _bound_args(prog, r)
        bad = [(x, u(args[x]) if x in args else "<default>") for x in shared if x not in args or u(args[x]) != x]
        run.check(not bad, "C09.COUNT", fn.qual, f"return {buf}.window({', '.join(f'{x}={x}' for x in shared)})",
                  f"MovingWindow.window hands the ring buffer {', '.join(f'`{x}`=`{g[:40]}`' for x, g in bad)}: the query the "
                  "caller asked for (bounds, fill value, copy) is not the one answered", **_where(fn, p))


NONE_SCOPE = ["update", "window", "get_timestamp", "to_internal_index", "oldest_timestamp", "newest_timestamp",
              "count_valid", "count_covered"]


def _uses(x: ast.AST, text: str) -> bool:
    """Is a value with that text dereferenced, computed with, ordered or passed on inside expression x?"""
    parents: dict[int, ast.AST] = {}
    for n in ast.walk(x):
        for c in ast.iter_child_nodes(n):
            parents[id(c)] = n
    for n in ast.walk(x):
        if u(n) != text or not isinstance(n, ast.expr):
            continue
        par = parents.get(id(n))
        if par is None:
            continue
        if isinstance(par, ast.Compare) and all(isinstance(o, (ast.Is, ast.IsNot, ast.Eq, ast.NotEq)) for o in par.ops):
            continue
        if isinstance(par, (ast.Attribute, ast.Subscript, ast.BinOp, ast.UnaryOp, ast.Compare)):
            return True
        if isinstance(par, ast.Call) and n is not par.func and not u(par.func).startswith(("_logger.", "logging.", "print")):
            return True
    return False


def check_none(run: Run, prog: Program) -> None:
    """C09.NONE: a value a path has established to be None is not used afterwards on that path (an inverted
    `assert x is not None` / `if x is None` makes every regular call fail or compute with None)."""
    fns = [prog.func(f"{BUF}:OrderedRingBuffer.{m}") for m in NONE_SCOPE] + [prog.func(f"{MW}:MovingWindow.at")] \
        + [_role_func(prog, "update_gaps"), _role_func(prog, "remove_gap")]
    # private value helpers are spliced into their callers without their assertions: read them on their own too
    scope = {f.name for f in fns}
    fns += [m for name, m in sorted(_ring(prog).methods.items()) if name.startswith("_") and not name.startswith("__")
            and name not in scope and name not in _roles(prog).values()
            and any(isinstance(x, ast.Assert) for x in walk_no_nested(m.node))]
    n = 0
    for fn in fns:
        run.analysed(fn.qual)
        for p in ordered_paths(prog, fn):
            if p.exit == "raise":
                continue
            for i, e in enumerate(p.effects):
                if e.kind != "cond":
                    continue
                key, outcome = e.orig  # type: ignore[misc]
                if not (isinstance(key, tuple) and key[0] == "is" and "None" in key[1] and len(key[1]) == 2 and outcome):
                    continue
                n += 1
                x = next(iter(key[1] - {"None"}))
                later = [f.node.elts[1] if f.kind == "write" else f.node for f in p.effects[i + 1:]
                         if f.kind in ("call", "write", "cond")]
                later += [f.node.elts[0] for f in p.effects[i + 1:] if f.kind == "write"]  # type: ignore[attr-defined]
                if p.ret is not None and u(p.ret) != x:
                    later.append(p.ret)
                bad = next((y for y in later if _uses(y, x)), None)
                run.check(bad is None, "C09.NONE", fn.qual, f"{x} is None ... {u(bad)[:60] if bad is not None else ''}",
                          f"`{x}` was established to be None on this path and is used afterwards: the check that "
                          "should exclude the empty case is inverted, every regular call fails", **_where(fn, p))
    _floor(run, None, n >= 1, "C09.NONE: no None-establishing path found")


def _gap_ops(p: Path, prog: Program) -> dict[str, list[tuple[int, Any]]]:
    """Operations on the gap list on this path: Gap list assignments, appended gaps, removals, clean-ups."""
    ops: dict[str, list[tuple[int, Any]]] = {"assign": [], "append": [], "remove": [], "cleanup": [], "other": []}
    tidy = _role(prog, "cleanup_gaps")
    for i, e in enumerate(p.effects):
        if e.kind == "write" and self_attr_root(e.node.elts[0]) == "_gaps":  # type: ignore[attr-defined]
            tgt, val = e.node.elts  # type: ignore[attr-defined]
            if u(tgt) == "self._gaps" and isinstance(val, ast.Call) and u(val.func) == "sorted" and not tidy:
                continue     # first step of the inlined normalising walk (decided by the walk rule)
            ops["assign" if u(tgt) == "self._gaps" else "other"].append((i, val))
        elif e.kind == "loop" and not tidy and isinstance(e.orig, ast.While) and "len(self._gaps)" in u(e.orig.test):
            ops["cleanup"].append((i, e.orig))
        elif e.kind == "del" and self_attr_root(e.node) == "_gaps":
            ops["other"].append((i, e.node))
        elif e.kind == "call":
            c = e.node
            assert isinstance(c, ast.Call)
            if method_call(c, "self._gaps", "append") and len(c.args) == 1:
                ops["append"].append((i, c.args[0]))
            elif method_call(c, "self", _role(prog, "remove_gap")):
                ops["remove"].append((i, c))
            elif tidy and method_call(c, "self", tidy):
                ops["cleanup"].append((i, c))
            elif isinstance(c.func, ast.Attribute) and self_attr_root(c.func.value) == "_gaps" \
                    and c.func.attr in ("extend", "insert", "remove", "pop", "clear", "sort", "reverse"):
                ops["other"].append((i, c))
    return ops


def _tidied_by_update(prog: Program) -> bool:
    """The normalising walk is not part of update_gaps: then every completing path of update() itself runs it
    after the gap bookkeeping (the unit of behaviour is one update() call)."""
    tidy, track = _role(prog, "cleanup_gaps"), _role(prog, "update_gaps")
    if not tidy:
        return False
    up = prog.func(f"{BUF}:OrderedRingBuffer.update")
    done = 0
    for p in ordered_paths(prog, up):
        if p.exit == "raise":
            continue
        a = [index_of(p, e) for e in p.calls(lambda c: method_call(c, "self", track))]
        b = [index_of(p, e) for e in p.calls(lambda c: method_call(c, "self", tidy))]
        if not a or not b or b[-1] < a[-1]:
            return False
        done += 1
    return done > 0


def _gap_is(g: ast.AST | None, start: Any, end: Any) -> bool:
    if not (isinstance(g, ast.Call) and u(g.func) == "Gap"):
        return False
    a = _gap_args(g)
    return _same(a.get("start"), start) and _same(a.get("end"), end)


def check_gap_cases(run: Run, prog: Program) -> None:  # noqa: C901
    """C09.GAP: the case analysis of _update_gaps (which gaps a sample creates / removes) per path."""
    fn = _role_func(prog, "update_gaps")
    run.analysed(fn.qual)
    ts, newest, rec = fn.params[1], fn.params[2], fn.params[3]
    first_unwritten = f"{newest} + {STEP}"
    diff = f"{NEWEST_F} - {newest}"
    n = 0
    for p in ordered_paths(prog, fn):
        if p.exit == "raise":
            continue
        n += 1
        where = _where(fn, p)
        ops = _gap_ops(p, prog)
        missing, found = truth(p, rec), truth(p, f"self.is_missing({ts})")
        reset = False
        what, ok = "", True
        if ops["other"]:
            raise AnalysisError(f"{fn.qual}: gap-list operation `{u(ops['other'][0][1])[:60]}` not understood")
        if missing is None:
            ok, what = False, "the sample's missing flag is not examined"
        elif missing is False:
            far, near = entails_le(p, FULL, diff), entails_lt(p, diff, FULL)
            if far:
                reset = True
                ok = len(ops["assign"]) == 1 and not ops["append"] and not ops["remove"] \
                    and isinstance(ops["assign"][0][1], ast.List) and len(ops["assign"][0][1].elts) == 1 \
                    and _gap_is(ops["assign"][0][1].elts[0], OLDEST_F, NEWEST_F)
                what = ("a valid sample that jumps ahead by the whole capacity or more must leave exactly one gap "
                        "covering the window [oldest, newest)")
            elif not near:
                ok, what = False, "a valid sample is handled without examining whether it jumps ahead by the whole capacity"
            elif ops["assign"]:
                ok, what = False, "the gap list is replaced although the sample did not jump ahead by the whole capacity"
            elif found is True:
                gone = len(ops["remove"]) == 1 and u(next(iter(_bound_args(prog, ops["remove"][0][1]).values()), None)) == ts
                exempt = zero(p, "len(self._gaps)") is True or truth(p, "self._gaps") is False
                ok = not ops["append"] and (gone or (exempt and not ops["remove"]))
                what = "a valid sample written into a slot that is recorded as missing must take that slot out of its gap"
            elif found is False:
                jump, adjacent = entails_lt(p, first_unwritten, ts), entails_le(p, ts, first_unwritten)
                if jump:
                    ok = len(ops["append"]) == 1 and _gap_is(ops["append"][0][1], first_unwritten, ts) and not ops["remove"]
                    what = ("a valid sample that skips slots must record exactly the skipped slots "
                            f"[{newest} + period, {ts}) as one gap")
                elif adjacent:
                    ok = not ops["append"] and not ops["remove"]
                    what = "a valid sample that skips no slot must not change the gap list"
                else:
                    ok, what = False, "a valid sample is handled without examining whether it skips slots"
            else:
                ok, what = False, "a valid sample is handled without examining whether its slot is recorded as missing"
        else:
            if ops["assign"] or ops["remove"]:
                ok, what = False, "a missing sample must not replace the gap list or take a slot out of a gap"
            elif found is True:
                ok, what = not ops["append"], "a missing sample inside a gap must not add a gap"
            elif found is False:
                ok = len(ops["append"]) == 1 and isinstance(ops["append"][0][1], ast.Call) \
                    and u(ops["append"][0][1].func) == "Gap"
                if ok:
                    a = _gap_args(ops["append"][0][1])  # type: ignore[arg-type]
                    ok = _same(a.get("end"), f"{ts} + {STEP}") and upper_bounded(p, a.get("start"), {ts}, ops["append"][0][0])
                what = f"a missing sample outside every gap must record one gap that covers its slot and ends at {ts} + period"
            else:
                ok, what = False, "a missing sample is handled without examining whether its slot is already recorded as missing"
        run.check(ok, "C09.GAP", fn.qual, f"missing={missing} in-gap={found}: {what[:60]}",
                  f"{what} (gap operations on this path: "
                  f"{[u(x)[:50] for k in ('assign', 'append', 'remove') for _i, x in ops[k]]})", **where)
        if not reset:
            last = max([i for k in ("assign", "append", "remove") for i, _x in ops[k]], default=-1)
            ok = (bool(ops["cleanup"]) and ops["cleanup"][-1][0] > last) or (
                not ops["cleanup"] and _tidied_by_update(prog))
            run.check(ok, "C09.GAP", fn.qual, "self._cleanup_gaps() after the gap list changed / the window moved",
                      "the gap list is not normalised (outdated gaps dropped, start trimmed to the window, neighbours "
                      "merged) after the update: gaps / count_valid report evicted slots", **where)
    if n < 6:
        raise AnalysisError(f"{fn.qual}: only {n} completing paths")


def _gap_lookup(p: Path, ts: str) -> tuple[str, set[str], bool] | None:
    """Which expression on this path plays the role "the first gap of self._gaps that contains T (None / nothing
    when there is none)", which expressions are its position, and whether the path found one.  The lookup may
    be written with next(filter(...)) / next(generator) over the gaps or their enumeration, a list of hits, or
    an explicit search loop with break (folded to the generator form by the path walker)."""
    want = f"E.contains({ts})"
    seq = "self._gaps"

    def first_of(x: ast.AST) -> tuple[str, ast.AST | None] | None:
        """x == next(SEL, default) or SEL_as_list[0]  ->  (what SEL yields, default)"""
        if isinstance(x, ast.Call) and u(x.func) == "next" and len(x.args) == 2 and not x.keywords:
            sel = selection(x.args[0], seq)
            return (sel[0], x.args[1]) if sel is not None and sel[1] == want else None
        if isinstance(x, ast.Subscript) and u(x.slice) == "0":
            sel = selection(x.value, seq)
            return (sel[0], None) if sel is not None and sel[1] == want else None
        return None

    def as_gap(x: ast.AST | None) -> set[str] | None:
        if x is None:
            return None
        if isinstance(x, ast.Subscript) and u(x.slice) == "1":
            r = first_of(x.value)
            if r is not None and r[0] == "(I, E)" and (r[1] is None or (
                    isinstance(r[1], ast.Tuple) and len(r[1].elts) == 2 and u(r[1].elts[1]) == "None")):
                return {u(ast.Subscript(value=x.value, slice=ast.Constant(0), ctx=ast.Load()))}
        r = first_of(x)
        if r is not None and r[0] == "E" and (r[1] is None or u(r[1]) == "None"):
            return set()
        return None

    for e in p.effects:
        if e.kind != "cond":
            continue
        key, outcome = e.orig  # type: ignore[misc]
        if not isinstance(key, tuple):
            continue
        if key[0] == "is" and "None" in key[1] and isinstance(e.node, ast.Compare):
            x = next((y for y in [e.node.left] + e.node.comparators if u(y) != "None"), None)
            idx = as_gap(x)
            if idx is not None:
                return u(x), idx, not outcome
            r = first_of(x) if x is not None else None
            if r is not None and r[0] == "(I, E)" and (r[1] is None or u(r[1]) == "None"):
                return f"{u(x)}[1]", {f"{u(x)}[0]"}, not outcome      # the found (position, gap) pair itself
        elif key[0] == "truthy":
            idx = as_gap(e.node)
            if idx is not None:
                return u(e.node), idx, bool(outcome)
            sel = selection(e.node, seq)
            if sel is not None and sel[1] == want and sel[0] in ("(I, E)", "E"):
                hit = f"{u(e.node)}[0]"
                return (f"{hit}[1]", {f"{hit}[0]"}, bool(outcome)) if sel[0] == "(I, E)" else (hit, set(), bool(outcome))
    return None


def check_remove_gap(run: Run, prog: Program) -> None:  # noqa: C901
    """C09.GAP: _remove_gap(T) turns the gap [s, e) that contains T into [s, T) and [T + period, e), dropping empty
    pieces, and touches nothing else."""
    fn = _role_func(prog, "remove_gap")
    run.analysed(fn.qual)
    ts = fn.params[1]
    after = f"{ts} + {STEP}"
    n = 0
    for p in ordered_paths(prog, fn):
        if p.exit == "raise":
            continue
        where = _where(fn, p)
        look = _gap_lookup(p, ts)
        if look is None:
            run.violation("C09.GAP", fn.qual, "gap = first gap of self._gaps that contains T, else None",
                          "_remove_gap does not work on the (first) recorded gap that contains the timestamp, or does "
                          "not examine whether there is one", **where)
            continue
        g, idx_texts, found = look
        ops = _gap_ops(p, prog)
        ws = writes(p)
        if not found:
            run.check(not ws and not any(ops.values()), "C09.GAP", fn.qual, "no gap contains T: nothing to do",
                      "the gap list is changed although no gap contains the timestamp", **where)
            continue

        def drops(x: ast.AST) -> bool:
            """x removes the found gap from the list: del gaps[its index] / gaps.pop(its index) / gaps.remove(it)"""
            k = None
            if isinstance(x, ast.Subscript) and u(x.value) == "self._gaps":
                k = x.slice
            elif isinstance(x, ast.Call) and method_call(x, "self._gaps", "pop") and len(x.args) == 1:
                k = x.args[0]
            elif isinstance(x, ast.Call) and method_call(x, "self._gaps", "remove") and len(x.args) == 1:
                return u(x.args[0]) == g
            if k is None:
                return False
            if u(k) in idx_texts or u(k) == f"self._gaps.index({g})":
                return True
            sel = selection(k.args[0], "self._gaps") if isinstance(k, ast.Call) and u(k.func) == "next" and k.args else None
            return sel == ("I", f"E.contains({ts})")

        n += 1
        s0, e0 = f"{g}.start", f"{g}.end"
        left_empty = decided(p, ("==", frozenset({s0, ts})))
        right_tests = [decided(p, ("==", frozenset({e0, t}))) for t in variants(after)] + [
            decided(p, ("==", frozenset({f"{e0} - {STEP}", ts})))]
        right_empty = True if True in right_tests else (False if False in right_tests else None)
        deleted = any(drops(x) for _i, x in ops["other"])
        # values are read in the state they were evaluated in: `pre@L(G.end)` (a local bound before the write at
        # line L) is the original end, a plain `G.end` after a write is what was written
        s_orig, e_orig = "gap0_start", "gap0_end"

        def resolve(x: Any, pos: int) -> str:
            t = u(_ast(x)) if not isinstance(x, str) else x
            for _i, tg, _v, line in ws:
                if u(tg) in (s0, e0):
                    t = t.replace(pre_name(line, u(tg)), s_orig if u(tg) == s0 else e_orig)
            for chain, orig in ((s0, s_orig), (e0, e_orig)):
                if chain in t:
                    prev = [(i, v) for i, tg, v, _l in ws if u(tg) == chain and i < pos]
                    t = t.replace(chain, f"({resolve(prev[-1][1], prev[-1][0])})" if prev else orig)
            return t

        pieces: list[tuple[str, str]] = []
        copies = [(i, x) for i, x in ops["append"]]
        first_store = min([i for i, t, _v, _l in ws if u(t) in (s0, e0)], default=10 ** 9)
        understood = all(u(t) in (s0, e0) or any(u(t) in (f"{u(c)}.start", f"{u(c)}.end") for _i, c in copies)
                         for _i, t, _v, _l in ws) and not ops["assign"] and not ops["remove"] \
            and all(drops(x) for _i, x in ops["other"])
        for pos, c in copies:
            if isinstance(c, ast.Call) and u(c.func) == "Gap":
                a = _gap_args(c)
                if "start" not in a or "end" not in a:
                    understood = False
                    continue
                pieces.append((resolve(a["start"], pos), resolve(a["end"], pos)))
                continue
            took = first_call(p, u(c))
            if not (isinstance(c, ast.Call) and u(c.func) in ("deepcopy", "copy.deepcopy", "copy.copy", "copy")
                    and len(c.args) == 1 and u(c.args[0]) == g and took is not None and took < first_store):
                understood = False
                continue
            cs = next(((i, v) for i, t, v, _l in reversed(ws) if u(t) == f"{u(c)}.start"), None)
            ce = next(((i, v) for i, t, v, _l in reversed(ws) if u(t) == f"{u(c)}.end"), None)
            pieces.append((resolve(cs[1], cs[0]) if cs else s_orig, resolve(ce[1], ce[0]) if ce else e_orig))
        if not deleted:
            ms = next(((i, v) for i, t, v, _l in reversed(ws) if u(t) == s0), None)
            me = next(((i, v) for i, t, v, _l in reversed(ws) if u(t) == e0), None)
            pieces.append((resolve(ms[1], ms[0]) if ms else s_orig, resolve(me[1], me[0]) if me else e_orig))
        want: list[tuple[str, str]] = []
        if left_empty is not True:
            want.append((s_orig, ts))
        if right_empty is not True:
            want.append((after, e_orig))
        try:
            got = sorted((repr(_poly(a)), repr(_poly(b))) for a, b in pieces)
        except SyntaxError:
            got, understood = [], False
        exp = sorted((repr(_poly(a)), repr(_poly(b))) for a, b in want)
        ok = understood and left_empty is not None and right_empty is not None and got == exp
        run.check(ok, "C09.GAP", fn.qual,
                  f"[s, e) without T -> {' + '.join(f'[{a}, {b})' for a, b in want) or 'nothing'}",
                  f"taking `{ts}` out of the gap [{s0}, {e0}) that contains it leaves "
                  f"{[(a[:40], b[:40]) for a, b in pieces]} instead of the non-empty ones of "
                  f"[start, {ts}) and [{ts} + period, end): a written slot stays recorded as missing or a missing one "
                  "is reported as valid", **where)
    _floor(run, fn.qual, n >= 4, f"{fn.qual}: only {n} paths with a gap found")


def _ahead_fact(key: Any, outcome: bool, ivar: str, gaps: str) -> tuple[int | None, int | None]:
    """What one decided comparison says about n = len(gaps) - ivar (integers), as (lower, upper) bound of n, in
    every linear spelling: `i < len - 1`, `i + 1 < len`, `len > i + 1`, `i + 2 <= len`, `len - i > 1`,
    `i == len - 1`, ...  (None, None) when the comparison is about something else."""
    if not (isinstance(key, tuple) and key and key[0] in ("<", "<=", "==")):
        return None, None
    try:
        a, b = (key[1], key[2]) if key[0] != "==" else tuple(sorted(key[1]))
        d = _poly(b) - _poly(a) - (_poly(f"len({gaps})") - _poly(ivar))
        sign = 1
        if d.const_value() is None:
            d, sign = _poly(b) - _poly(a) + (_poly(f"len({gaps})") - _poly(ivar)), -1
        c = d.const_value()
    except (SyntaxError, ValueError, TypeError):
        return None, None
    if c is None or c.denominator != 1:
        return None, None
    c = int(c)                                   # b - a == sign * n + c
    if key[0] == "==":
        return (-sign * c, -sign * c) if outcome else (None, None)
    t = 1 if key[0] == "<" else 0                # holds  <=>  sign * n + c >= t
    if sign > 0:
        return (t - c, None) if outcome else (None, t - c - 1)
    return (None, c - t) if outcome else (c - t + 1, None)


def _ahead_bounds(p: Path, ivar: str, gaps: str, before: int | None = None, lo: int | None = None,
                  stop: int | None = None) -> tuple[int | None, int | None]:
    """Bounds of len(gaps) - ivar entailed by the comparisons decided on the path [before effect `before`; only
    those decided before effect `stop`, where the list changes its length]; `lo`: what the loop test gives."""
    hi: int | None = None
    excluded: set[int] = set()
    for i, e in enumerate(p.effects):
        if (before is not None and i >= before) or (stop is not None and i >= stop):
            break
        if e.kind != "cond":
            continue
        key, outcome = e.orig  # type: ignore[misc]
        if isinstance(key, tuple) and key and key[0] == "==" and not outcome:
            v = _ahead_fact(key, True, ivar, gaps)[0]
            if v is not None:
                excluded.add(v)
            continue
        flo, fhi = _ahead_fact(key, outcome, ivar, gaps)
        if flo is not None:
            lo = flo if lo is None else max(lo, flo)
        if fhi is not None:
            hi = fhi if hi is None else min(hi, fhi)
    while lo is not None and lo in excluded:
        lo += 1
    while hi is not None and hi in excluded:
        hi -= 1
    return lo, hi


def check_cleanup(run: Run, prog: Program) -> None:  # noqa: C901
    """C09.GAP: _cleanup_gaps sorts the gaps by start and then walks them with an index; each step of the walk
    is locally sound (a gap is dropped only if it ended before the window, trimmed only if it starts before it,
    its successor dropped only if contained or after being merged into it, merged only if it overlaps or
    touches), makes progress (changes the list xor advances by one) and advances only past a gap that needs
    nothing.  (That the result is then sorted and disjoint is the inductive part and stays undecided.)"""
    fn = _role_func(prog, "cleanup_gaps")
    run.analysed(fn.qual)
    gaps = "self._gaps"
    paths = ordered_paths(prog, fn)
    loops, seen_loops = [], set()
    for p in paths:
        for e in p.effects:
            if e.kind == "loop" and isinstance(e.orig, ast.While) and id(e.orig) not in seen_loops \
                    and f"len({gaps})" in u(e.orig.test):
                seen_loops.add(id(e.orig))
                loops.append((p, e))
    if len(loops) != 1:
        raise AnalysisError(f"{fn.qual}: expected one index walk over the gap list, found {len(loops)}")
    p0, loop = loops[0]
    where0 = _where(fn, p0)
    # sorted by start first
    sort_ok = False
    for i, tgt, val, _line in writes(p0):
        if i < index_of(p0, loop) and u(tgt) == gaps and isinstance(val, ast.Call) and u(val.func) == "sorted" \
                and [u(a) for a in val.args] == [gaps]:
            key = next((k.value for k in val.keywords if k.arg == "key"), None)
            rev = next((k.value for k in val.keywords if k.arg == "reverse"), None)
            if isinstance(key, ast.Lambda) and len(key.args.args) == 1 and rev is None \
                    and u(key.body) in (f"{key.args.args[0].arg}.start", f"{key.args.args[0].arg}.start.timestamp()"):
                sort_ok = True
    for c in p0.calls(lambda c: method_call(c, gaps, "sort")):
        sort_ok = sort_ok or index_of(p0, c) < index_of(p0, loop)
    run.check(sort_ok, "C09.GAP", fn.qual, "self._gaps = sorted(self._gaps, key=start)",
              "the gaps are not sorted by their start before neighbours are compared and merged", **where0)
    test = loop.orig.test  # type: ignore[union-attr]
    ck = canon(test)
    entry = getattr(loop, "entry", {})
    # the loop test says exactly `index < len(gaps)`, in any linear spelling (`i + 1 <= len`, `len - i > 0`, ...)
    ivar = next((n.id for n in ast.walk(test) if isinstance(n, ast.Name) and n.id in entry
                 and _ahead_fact(ck, True, n.id, gaps) == (1, None)), None)
    ok = ivar is not None and ivar in entry and u(entry[ivar]) == "0"
    run.check(ok, "C09.GAP", fn.qual, "i = 0; while i < len(self._gaps)",
              "the walk does not visit every gap (from the first one, while the index is inside the list)", **where0)
    if not ok:
        return
    w1, w2 = f"{gaps}[{ivar}]", f"{gaps}[{ivar} + 1]"
    summ = MutationSummary(prog, _ring(prog))

    def resized(p: Path) -> int | None:
        """Position of the first effect after which len(gaps) / the loop test's guarantee is no longer the entry one."""
        for i, e in enumerate(p.effects):
            if e.kind == "write" and self_attr_root(e.node.elts[0]) == "_gaps" \
                    and u(e.node.elts[0]) not in (f"{w1}.start", f"{w1}.end", f"{w2}.start", f"{w2}.end"):  # type: ignore[attr-defined]
                return i
            if e.kind == "del" and self_attr_root(e.node) == "_gaps":
                return i
            if e.kind == "call" and summ.of_call(e.node) & {"_gaps"}:  # type: ignore[arg-type]
                return i
        return None

    def has_next(p: Path, before: int | None = None) -> bool | None:
        """Does the current gap have a successor (index + 1 < len), as far as the index guards taken on the path
        say -- whatever their spelling; the loop test itself gives len - index >= 1."""
        lo, hi = _ahead_bounds(p, ivar, gaps, before, 1, resized(p))
        return True if lo is not None and lo >= 2 else False if hi is not None and hi <= 1 else None

    def present(p: Path, before: int | None = None) -> bool:
        return truth(p, w2, before) is True or none_test(p, w2, before) is False or has_next(p, before) is True

    def absent(p: Path) -> bool:
        return has_next(p) is False or truth(p, w2) is False or none_test(p, w2) is True
    q0 = Path()
    q0.env = dict(getattr(loop, "env", {}))
    n = 0
    for p, _st in OrderedSymExec(4096, prog, fn).block(q0, list(loop.orig.body)):  # type: ignore[union-attr]
        if p.exit == "raise" or truth(p, "None") is True:
            continue
        n += 1
        where = _where(fn, p)
        muts: list[tuple[int, str, str, ast.AST | None]] = []
        for i, e in enumerate(p.effects):
            if e.kind == "write" and self_attr_root(e.node.elts[0]) == "_gaps":  # type: ignore[attr-defined]
                muts.append((i, "set", u(e.node.elts[0]), e.node.elts[1]))  # type: ignore[attr-defined]
            elif e.kind == "del" and self_attr_root(e.node) == "_gaps":
                muts.append((i, "del", u(e.node), None))
            elif e.kind == "call" and summ.of_call(e.node) & {"_gaps"}:  # type: ignore[arg-type]
                muts.append((i, "call", u(e.node), None))
        adv = u(p.env[ivar]) if ivar in p.env else ivar
        texts = " ".join(t for _i, _k, t, _v in muts) + " " + " ".join(u(v) for _i, _k, _t, v in muts if v is not None) \
            + " " + " ".join(u(e.node) for e in p.effects if e.kind == "cond")
        if w2 in texts:
            run.check(has_next(p) is True, "C09.GAP", fn.qual, f"{w2} only while {ivar} < len - 1",
                      "the successor of the current gap is looked at although the current gap is not established to "
                      "have one", **where)
        if not muts:
            done = entails_lt(p, OLDEST_F, f"{w1}.end") and entails_le(p, OLDEST_F, f"{w1}.start") and (
                absent(p) or entails_lt(p, f"{w1}.end", f"{w2}.start"))
            run.check(adv == f"{ivar} + 1" and done, "C09.GAP", fn.qual, f"{ivar} += 1 past a gap that needs nothing",
                      "the walk leaves a gap without changing the list although it is not established that the gap "
                      "lies inside the window and neither overlaps nor touches its successor -- or it does not "
                      f"advance by exactly one (index becomes `{adv}`): outdated / overlapping gaps are reported, "
                      "or the walk never ends", **where)
            continue
        ok, what = adv == ivar, "the list is changed and the index moved in the same step (a gap is skipped)"
        merged = False
        for i, kind, tgt, val in muts:
            if not ok:
                break
            if kind == "del" and tgt == w1:
                ok, what = entails_le(p, f"{w1}.end", OLDEST_F, i), "a gap is dropped although it is not established to end before the window"
            elif kind == "set" and tgt == f"{w1}.start":
                ok = u(val) == OLDEST_F and entails_lt(p, f"{w1}.start", OLDEST_F, i)
                what = "a gap's start is moved although it is not established to start before the window (or not to the oldest slot)"
            elif kind == "set" and tgt == f"{w1}.end":
                ok = u(val) == f"{w2}.end" and present(p, i) and entails_le(p, f"{w2}.start", f"{w1}.end", i) and (
                    entails_le(p, f"{w1}.end", f"{w2}.end", i) or (sort_ok and entails_lt(p, f"{w2}.start", f"{w1}.start", i)))
                what = ("a gap is extended to its successor's end although the two are not established to overlap or "
                        "touch, or the successor could end earlier (missing slots become valid)")
                merged = ok
            elif kind == "del" and tgt == w2:
                ok = present(p, i) and (merged or (
                    entails_le(p, f"{w1}.start", f"{w2}.start", i) and entails_le(p, f"{w2}.end", f"{w1}.end", i)))
                what = "the successor gap is dropped although it is neither contained in the current gap nor merged into it"
            else:
                ok, what = False, f"gap-list operation `{tgt[:50]}` not understood"
        run.check(ok, "C09.GAP", fn.qual, f"step: {', '.join(f'{k} {t}' for _i, k, t, _v in muts)[:80]}",
                  f"{what}: the gap list no longer describes the missing slots of the window", **where)
    _floor(run, fn.qual, n >= 5, f"{fn.qual}: only {n} steps of the walk found")


def check_fill_stores(run: Run, prog: Program) -> None:
    """C09.GAP: inside _fill_gaps every gap with a non-empty clamped slot range is written, with exactly as many
    fill values as the range has slots, in the container's own way."""
    fg = _role_func(prog, "fill")
    run.analysed(fg.qual)
    data, fill = fg.params[1], fg.params[2]
    body = loop_paths(ordered_paths(prog, fg), fg.qual, prog=prog, fn=fg)
    ranges: set[tuple[str, str]] = set()
    stores = []
    for p in body:
        for i, tgt, val, _line in writes(p):
            if isinstance(tgt, ast.Subscript) and u(tgt.value) == data and isinstance(tgt.slice, ast.Slice):
                lo, hi = tgt.slice.lower, tgt.slice.upper
                ranges.add((u(lo), u(hi)))
                stores.append((p, i, lo, hi, val))
    if not stores:
        raise AnalysisError(f"{fg.qual}: no slice store inside the loop over the gaps")
    for p, i, lo, hi, val in stores:
        arr, lst = truth(p, f"isinstance({data}, np.ndarray)"), truth(p, f"isinstance({data}, list)")
        if u(val) == fill:
            ok = arr is True or lst is False
        else:
            ok = isinstance(val, ast.BinOp) and isinstance(val.op, ast.Mult) and (lst is True or arr is False)
            if ok:
                rep, cnt = (val.left, val.right) if isinstance(val.left, ast.List) else (val.right, val.left)
                ok = isinstance(rep, ast.List) and len(rep.elts) == 1 and u(rep.elts[0]) == fill \
                    and lo is not None and hi is not None and _poly(cnt) == _poly(hi) - _poly(lo)
        run.check(ok and entails_lt(p, lo, hi, i), "C09.GAP", fg.qual, f"{data}[lo:hi] = {u(val)[:60]}",
                  "the slots of a gap are not overwritten by exactly (hi - lo) fill values in the container's own "
                  "way under lo < hi: a list window changes its length (more / fewer slots than the query spans)",
                  **_where(fg, p))
    for p in body:
        if any(isinstance(t, ast.Subscript) and u(t.value) == data for _i, t, _v, _l in writes(p)):
            continue
        empty = any(entails_le(p, hi, lo) for lo, hi in ranges)
        foreign = truth(p, f"isinstance({data}, np.ndarray)") is False and truth(p, f"isinstance({data}, list)") is False
        run.check(empty or foreign, "C09.GAP", fg.qual, "a gap is skipped only if its clamped slot range is empty",
                  "a gap whose clamped slot range is not empty is not filled: the query returns the stale / unwritten "
                  "values of missing slots instead of the fill value", **_where(fg, p))


def check_window_cases(run: Run, prog: Program) -> None:  # noqa: C901
    """C09.VALID: window(): which queries are answered how (copy before fill, index queries projected on the
    covered range, empty answers and exceptions only where the query calls for them)."""
    wn = prog.func(f"{BUF}:OrderedRingBuffer.window")
    run.analysed(wn.qual)
    start, end = wn.params[1], wn.params[2]
    fv, fc = "fill_value", "force_copy"
    if fv not in wn.params or fc not in wn.params:
        raise AnalysisError(f"{wn.qual}: public parameters fill_value / force_copy not found")
    p_start, p_end = _param(prog, _role(prog, "fetch"), 1), _param(prog, _role(prog, "fetch"), 2)
    p_fc = _param(prog, _role(prog, "fetch"), 3)
    paths = ordered_paths(prog, wn)
    is_dt = lambda p, x: truth(p, f"isinstance({x}, datetime)")  # noqa: E731
    pairs: set[tuple[str, str]] = set()

    def projected(x: ast.AST, which: int) -> bool:
        """x == self.get_timestamp(slice(start, end).indices(self.count_covered())[..][which])"""
        calls = [c for c in ast.walk(x) if isinstance(c, ast.Call) and method_call(c, "self", "get_timestamp")]
        if len(calls) != 1:
            return False
        a = next(iter(_bound_args(prog, calls[0]).values()), None)
        if not (isinstance(a, ast.Subscript) and u(a.slice) == str(which)):
            return False
        base = a.value
        while isinstance(base, ast.Subscript) and isinstance(base.slice, ast.Slice):
            base = base.value
        return isinstance(base, ast.Call) and isinstance(base.func, ast.Attribute) and base.func.attr == "indices" \
            and [u(x) for x in base.args] == ["self.count_covered()"] and not base.keywords \
            and u(base.func.value) == f"slice({start}, {end})"

    def raw_use(x: ast.AST) -> bool:
        """Does x mention a query bound outside `slice(start, end)`?"""
        inside: set[int] = set()
        for c in ast.walk(x):
            if isinstance(c, ast.Call) and u(c) == f"slice({start}, {end})":
                inside |= {id(n) for n in ast.walk(c)}
        return any(isinstance(n, ast.Name) and n.id in (start, end) and id(n) not in inside for n in ast.walk(x))

    fetch = 0
    for p in paths:
        for w in p.calls(lambda c: method_call(c, None, _role(prog, "fetch"))):
            a = _bound_args(prog, w.node)  # type: ignore[arg-type]
            pairs.add((u(_index_arg(prog, a.get(p_start), "self", wn.qual)),
                       u(_index_arg(prog, a.get(p_end), "self", wn.qual))))
    for p in paths:
        ws = p.calls(lambda c: method_call(c, None, _role(prog, "fetch")))
        where = _where(wn, p)
        ks, ke = is_dt(p, start), is_dt(p, end)
        if ws:
            fetch += 1
            a = _bound_args(prog, ws[0].node)  # type: ignore[arg-type]
            xs = _index_arg(prog, a.get(p_start), "self", wn.qual)
            xe = _index_arg(prog, a.get(p_end), "self", wn.qual)
            conv = [c.node for c in p.calls(lambda c: method_call(c, "self", "get_timestamp"))]
            if ks is False and ke is False:
                # both bounds are indices: each is projected, then converted, and the raw index is used nowhere else
                ok = any(projected(c, 0) for c in conv) and any(projected(c, 1) for c in conv) \
                    and all(projected(c, 0) or projected(c, 1) for c in conv) \
                    and not raw_use(xs) and not raw_use(xe) \
                    and all(projected(c, k) for x, k in ((xs, 0), (xe, 1)) for c in ast.walk(x)
                            if isinstance(c, ast.Call) and method_call(c, "self", "get_timestamp"))
            else:
                ok = ks is True and ke is True and not conv
            run.check(ok, "C09.VALID", wn.qual, "index bounds -> slice(start, end).indices(count_covered()) -> get_timestamp",
                      "a query by index is not first projected on the covered range (None, negative and out-of-range "
                      "indices) and then converted to timestamps, or a query by datetime is converted: the query "
                      f"fails or addresses other slots (start datetime: {ks}, end datetime: {ke})", **where)
            if p.calls(lambda c: method_call(c, "self", _role(prog, "fill"))):
                c = a.get(p_fc)
                ok = (isinstance(c, ast.Constant) and c.value is True) or (c is not None and truth(p, u(c)) is True)
                run.check(ok, "C09.VALID", wn.qual, "fill only a copy (force_copy established true)",
                          "the fill values are written into what may be a view on the ring: a query overwrites the "
                          "stored data of missing slots", **where)
        elif p.exit == "return":
            ok = zero(p, "self.count_covered()") is True or any(entails_le(p, xe, xs) for xs, xe in pairs)
            arr = truth(p, "isinstance(self._buffer, np.ndarray)")
            if ok and p.ret is not None and u(p.ret) in ("np.array([])", "[]") and arr is not (u(p.ret) != "[]"):
                run.violation("C09.VALID", wn.qual, f"return {u(p.ret)}",
                              "the empty answer is not of the buffer's container type (list vs numpy array)", **where)
                continue
            run.check(ok, "C09.VALID", wn.qual, "empty answer only for an empty buffer or an empty clamped range",
                      "window() answers with nothing although the buffer covers slots and the clamped query range "
                      "is not established to be empty", **where)
        if p.exit == "raise" and not _is_assertion(p):
            converted = bool(p.calls(lambda c: method_call(c, "self", "get_timestamp")))
            if _raised(p, "ValueError"):
                ok = none_test(p, fv) is False and truth(p, fc) is False
            elif _raised(p, "IndexError"):
                not_dt = any(e.kind == "cond" and e.orig[1] is False and isinstance(e.orig[0], tuple)  # type: ignore[index]
                             and e.orig[0][0] == "truthy"  # type: ignore[index]
                             and e.orig[0][1].startswith("isinstance(self.get_timestamp(")  # type: ignore[index]
                             and e.orig[0][1].endswith(", datetime)") for e in p.effects)  # type: ignore[index]
                ok = (ks is not None and ke is not None and ks != ke) or (converted and not_dt)
            else:
                ok = False
            run.check(ok, "C09.VALID", wn.qual, f"raise {u(p.ret)[:40]}",
                      "window() raises on a query it has to answer: ValueError is for fill_value together with "
                      "force_copy=False only, IndexError for one datetime and one index only", **where)
    if not fetch or not pairs:
        raise AnalysisError(f"{wn.qual}: no path fetches data")
    d_fill, d_copy = _default_of(wn, fv), _default_of(wn, fc)
    ok = (isinstance(d_fill, ast.Constant) and d_fill.value is None) or (
        isinstance(d_copy, ast.Constant) and d_copy.value is True)
    run.check(ok, "C09.VALID", wn.qual, "defaults: fill_value given => force_copy=True",
              "the default query asks for filled gaps without a copy, which window() refuses: every plain "
              "window(start, end) raises", node=wn.node, file=wn.file)


def check_range(run: Run, prog: Program) -> None:
    """C09.VALID: to_internal_index raises IndexError exactly for T outside [oldest, newest + period] (unless told
    not to check)."""
    fn = prog.func(f"{BUF}:OrderedRingBuffer.to_internal_index")
    run.analysed(fn.qual)
    t = f"self.normalize_timestamp({fn.params[1]})"
    allow = fn.params[2]
    hi = f"{NEWEST_F} + {STEP}"
    n = 0
    for p in ordered_paths(prog, fn):
        if _is_assertion(p):
            continue
        n += 1
        unchecked = truth(p, allow)
        if p.exit == "raise":
            ok = _raised(p, "IndexError") and unchecked is False and (entails_lt(p, hi, t) or entails_lt(p, t, OLDEST_F))
            what = "raises although the timestamp is not established to lie outside [oldest, newest + period]"
        else:
            ok = unchecked is True or (entails_le(p, t, hi) and entails_le(p, OLDEST_F, t))
            what = "answers although the timestamp is not established to lie inside [oldest, newest + period]"
        run.check(ok, "C09.VALID", fn.qual, f"{p.exit}: {u(p.ret)[:50]}",
                  f"to_internal_index {what}: update() / window() fail on slots of the window (the slot after the "
                  "newest is the exclusive end of a query) or wrap onto other slots", **_where(fn, p))
    if n < 3:
        raise AnalysisError(f"{fn.qual}: only {n} paths")
    dflt = _default_of(fn, allow)
    run.check(isinstance(dflt, ast.Constant) and dflt.value is False, "C09.VALID", fn.qual,
              f"{allow}: bool = False", "the range check of to_internal_index is off unless asked for: update() and the "
              "queries rely on it being on", node=fn.node, file=fn.file)


def _default_of(fn: FuncInfo, name: str) -> ast.AST | None:
    a = fn.node.args
    pos = a.posonlyargs + a.args
    for arg, d in zip(pos[len(pos) - len(a.defaults):], a.defaults):
        if arg.arg == name:
            return d
    for arg, d in zip(a.kwonlyargs, a.kw_defaults):
        if arg.arg == name:
            return d
    return None


def check_rounding(run: Run, prog: Program) -> None:
    """C09.IDX: normalize_timestamp goes to a *nearest* grid point: the quotient, or the quotient + 1 when the
    remainder is at least half a period; a grid point is a fixed point.  (The clamp rules of window() rely on
    normalisation being monotone and leaving aligned bounds alone.)"""
    nt = prog.func(f"{BUF}:OrderedRingBuffer.normalize_timestamp")
    run.analysed(nt.qual)
    origin = "self._time_index_alignment"
    half = {f"{STEP} / 2", f"0.5 * {STEP}"}
    for p in ordered_paths(prog, nt):
        if p.exit != "return":
            continue
        dm = [e.node for e in p.calls(lambda c: u(c.func) == "divmod")]
        ok = len(dm) == 1
        if ok:
            quot, rem = f"{u(dm[0])}[0]", f"{u(dm[0])}[1]"
            zero_rem = any(decided(p, ("==", frozenset({rem, z}))) is True for z in ("timedelta(0)", "timedelta()"))
            if _same(p.ret, f"{origin} + ({quot}) * {STEP}"):
                ok = zero_rem or upper_bounded(p, _ast(rem), half)
            elif _same(p.ret, f"{origin} + ({quot} + 1) * {STEP}"):
                ok = not zero_rem and lower_bounded(p, _ast(rem), half)
            else:
                ok = False
        run.check(ok, "C09.IDX", nt.qual, f"return {u(p.ret)[:70]}",
                  "normalize_timestamp does not go to a nearest point of the slot grid (quotient, or quotient + 1 "
                  "from half a period on): timestamps are stored in a slot further away, later timestamps can land "
                  "in earlier slots and aligned query bounds move", **_where(nt, p))


# --------------------------------------------------------------------------------------------- C09.CONF
ORIGIN_F = "self._time_index_alignment"


def _annotated(fn: FuncInfo, word: str) -> list[str]:
    """Parameters (positional and keyword-only) whose annotation names `word` as a type."""
    a = fn.node.args
    out = []
    for x in a.posonlyargs + a.args + a.kwonlyargs:
        if x.annotation is not None and any(
                (isinstance(n, ast.Name) and n.id == word) or (isinstance(n, ast.Attribute) and n.attr == word)
                for n in ast.walk(x.annotation)):
            out.append(x.arg)
    return out


def _attr_state(p: Path, upto: int | None = None) -> tuple[dict[str, ast.AST], dict[str, ast.AST]]:
    """What the attributes of `self` hold before effect `upto` of the path (end of the path: None), every read
    of an attribute written earlier on the path replaced by what was written; second result: the value each
    `pre@<line>(self.X)` name (a local that read self.X before that line overwrote it) stands for."""
    state: dict[str, ast.AST] = {}
    replaced: dict[str, ast.AST] = {}
    for pos, tgt, val, line in writes(p):
        if upto is not None and pos >= upto:
            break
        if not (isinstance(tgt, ast.Attribute) and isinstance(tgt.value, ast.Name) and tgt.value.id == "self"):
            continue
        chain = u(tgt)
        new = _resolved(val, state, replaced)
        if chain in state:
            replaced[pre_name(line, chain)] = state[chain]
        state[chain] = new
    return state, replaced


def _resolved(e: ast.AST, state: dict[str, ast.AST], replaced: dict[str, ast.AST]) -> ast.AST:
    import copy

    class R(ast.NodeTransformer):
        def visit_Attribute(self, n: ast.Attribute) -> ast.AST:  # noqa: N802
            if isinstance(n.ctx, ast.Load) and u(n) in state:
                return copy.deepcopy(state[u(n)])
            return self.generic_visit(n)

        def visit_Name(self, n: ast.Name) -> ast.AST:  # noqa: N802
            return copy.deepcopy(replaced[n.id]) if n.id in replaced else n
    return ast.fix_missing_locations(R().visit(copy.deepcopy(e)))


def _ring_ctor_roles(prog: Program) -> tuple[FuncInfo, str, str, str]:
    """(constructor of the ring buffer, storage parameter, period parameter, alignment parameter), the
    parameters bound by their type: the datetime is the origin of the slot grid, the timedelta its step."""
    init = prog.resolve_method(_ring(prog), "__init__")
    if init is None:
        raise AnalysisError("OrderedRingBuffer.__init__ not found")
    origin, period = _annotated(init, "datetime"), _annotated(init, "timedelta")
    rest = [x for x in func_params(init.node) if x not in origin + period]
    if len(origin) != 1 or len(period) != 1 or len(rest) != 1:
        raise AnalysisError(f"{init.qual}: cannot tell storage / sampling period / alignment point apart "
                            f"({func_params(init.node)})")
    return init, rest[0], period[0], origin[0]


def _ceil_ratio(n: ast.AST) -> tuple[str, ast.AST, ast.AST] | None:
    """N -> (rounding, A, B) for N = ceil(A / B) | floor(A / B) | int(A / B) | round(A / B) | A // B | -(-A // B),
    A and B durations or both their `.total_seconds()`."""
    def secs(x: ast.AST) -> ast.AST | None:
        if isinstance(x, ast.Call) and isinstance(x.func, ast.Attribute) and x.func.attr == "total_seconds" \
                and not x.args and not x.keywords:
            return x.func.value
        return None

    def ratio(q: ast.AST, op: type) -> tuple[ast.AST, ast.AST] | None:
        if not (isinstance(q, ast.BinOp) and isinstance(q.op, op)):
            return None
        a, b = secs(q.left), secs(q.right)
        if a is not None and b is not None:
            return a, b
        return (q.left, q.right) if a is None and b is None else None

    if isinstance(n, ast.Call) and len(n.args) == 1 and not n.keywords:
        name = u(n.func).split(".")[-1]
        if name == "int" and isinstance(n.args[0], ast.Call):
            inner = _ceil_ratio(n.args[0])
            if inner is not None:
                return inner
        kind = {"ceil": "ceil", "floor": "floor", "int": "floor", "round": "round", "trunc": "floor"}.get(name)
        r = ratio(n.args[0], ast.Div)
        if kind is not None and r is not None:
            return kind, r[0], r[1]
        return None
    if isinstance(n, ast.UnaryOp) and isinstance(n.op, ast.USub) and isinstance(n.operand, ast.BinOp) \
            and isinstance(n.operand.left, ast.UnaryOp) and isinstance(n.operand.left.op, ast.USub):
        r = ratio(ast.BinOp(left=n.operand.left.operand, op=n.operand.op, right=n.operand.right), ast.FloorDiv)
        return ("ceil", r[0], r[1]) if r is not None else None
    r = ratio(n, ast.FloorDiv)
    return ("floor", r[0], r[1]) if r is not None else None


def _storage_len(e: ast.AST) -> ast.AST | None:
    """Number of slots of a freshly built container: np.empty / zeros / ones / full(N, ...) (shape=N), [x] * N."""
    if isinstance(e, ast.Call) and u(e.func).split(".")[-1] in ("empty", "zeros", "ones", "full"):
        for k in e.keywords:
            if k.arg == "shape":
                return k.value
        return e.args[0] if e.args else None
    if isinstance(e, ast.BinOp) and isinstance(e.op, ast.Mult):
        for lst, n in ((e.left, e.right), (e.right, e.left)):
            if isinstance(lst, ast.List) and len(lst.elts) == 1:
                return n
    return None


def check_conf_ring(run: Run, prog: Program) -> None:
    """C09.CONF (the ring): a new OrderedRingBuffer is the empty map it was configured to be."""
    init, storage, period, origin = _ring_ctor_roles(prog)
    run.analysed(init.qual)
    want = [
        (ORIGIN_F, origin, "the origin of the slot grid is not the alignment point the buffer was built with: "
         "normalize_timestamp / to_internal_index lay the slots out from another point, so updates and queries land "
         "on another grid than the one asked for (the same for a constant, a default or another parameter)"),
        (STEP, period, "the step of the slot grid is not the sampling period the buffer was built with"),
        ("self._buffer", storage, "the storage is not the container the buffer was built with (capacity and container "
         "type are the caller's)"),
        (FULL, f"len({storage}) * {period}", "the time range of the window is not capacity * sampling period: "
         "update() keeps another number of slots than the storage holds"),
        (NEWEST_F, "self._TIMESTAMP_MIN", "a new buffer does not start with the `nothing written yet` newest bound: "
         "the emptiness tests and max(newest, T) of the first update() read a slot that was never written"),
        (OLDEST_F, "self._TIMESTAMP_MAX", "a new buffer does not start with the `nothing written yet` oldest bound: "
         "the first update() is rejected as too old or the window claims unwritten slots"),
    ]
    n = 0
    for p in ordered_paths(prog, init):
        if p.exit == "raise":
            continue
        n += 1
        state, _ = _attr_state(p)
        where = _where(init, p)
        for attr, value, msg in want:
            got = state.get(attr)
            run.check(got is not None and _same(got, value), "C09.CONF", init.qual,
                      f"{attr} = {value} [{u(got)[:60] if got is not None else 'never set'}]", msg, **where)
        gaps = state.get("self._gaps")
        ok = (isinstance(gaps, ast.List) and not gaps.elts) or (
            isinstance(gaps, ast.Call) and u(gaps.func) == "list" and not gaps.args and not gaps.keywords)
        run.check(ok, "C09.CONF", init.qual, f"self._gaps = [] [{u(gaps)[:60] if gaps is not None else 'never set'}]",
                  "a new buffer does not start with an empty gap list (nothing is written, nothing is missing inside "
                  "the covered range yet)", **where)
    if not n:
        raise AnalysisError(f"{init.qual}: no completing path")


def _builds(prog: Program, fn: FuncInfo, call: ast.Call, cls: Any, name: str | None = None) -> bool:
    """`call` (inside `fn`) constructs that class (followed through the imports of the module), or a class of
    the analysed package with that name."""
    d = dotted(call.func)
    if d is None or d.split(".")[0] in ("self", "cls"):
        return False
    tgt = prog.resolve_name(fn.module, d)
    if tgt is None or isinstance(tgt, FuncInfo) or not hasattr(tgt, "methods"):
        return False
    return tgt is cls if cls is not None else getattr(tgt, "name", None) == name


def _ring_builders(prog: Program) -> list[FuncInfo]:
    """Functions outside the ring-buffer class on whose paths a ring buffer is built: the constructor of the
    class when the construction sits in it or in one of its private helpers, else the function itself."""
    ring = _ring(prog)
    hosts: dict[str, FuncInfo] = {}
    for fn in prog.all_functions():
        if fn.cls is ring or (fn.outer is not None and fn.outer.cls is ring):
            continue
        if not any(isinstance(c, ast.Call) and _builds(prog, fn, c, ring) for c in ast.walk(fn.node)):
            continue
        host = fn
        if fn.cls is not None and fn.name != "__init__" and fn.name.startswith("_"):
            ctor = prog.resolve_method(fn.cls, "__init__")
            if ctor is not None and ctor.cls is fn.cls:
                host = ctor
        hosts[host.qual] = host
    return list(hosts.values())


def check_conf_builders(run: Run, prog: Program) -> None:  # noqa: C901
    """C09.CONF (who builds a ring): the buffer is laid out the way its owner was configured: alignment point,
    sampling period of the samples that will be written, capacity = ceil(span / that period)."""
    ring = _ring(prog)
    _init, storage, period, origin = _ring_ctor_roles(prog)
    ring_params = [storage, period, origin]
    hosts = _ring_builders(prog)
    if f"{MW}:MovingWindow.__init__" not in {h.qual for h in hosts}:
        raise AnalysisError("C09.CONF: MovingWindow.__init__ does not build the ring buffer it reads")
    for host in hosts:
        run.analysed(host.qual)
        dts, tds = _annotated(host, "datetime"), _annotated(host, "timedelta")
        n = 0
        for p in ordered_paths(prog, host):
            if p.exit == "raise":
                continue
            where = _where(host, p)
            built = [(i, e.node) for i, e in enumerate(p.effects) if e.kind == "call" and isinstance(e.node, ast.Call)
                     and _builds(prog, host, e.node, ring)]
            if host.name == "__init__" and len(built) != 1:
                raise AnalysisError(f"{host.qual}: a completing path builds {len(built)} ring buffers")
            resamplers = [u(e.node.args[0]) for e in p.effects  # type: ignore[attr-defined]
                          if e.kind == "call" and isinstance(e.node, ast.Call) and len(e.node.args) == 1
                          and not e.node.keywords and _builds(prog, host, e.node, None, "Resampler")]
            for i, call in built:
                n += 1
                if any(isinstance(a, ast.Starred) for a in call.args) or any(k.arg is None for k in call.keywords):
                    raise AnalysisError(f"{host.qual}: cannot bind the arguments of {u(call)[:80]}")
                state, replaced = _attr_state(p, i)
                args = {k: _resolved(v, state, replaced) for k, v in positional(call, ring_params).items()}
                # --- the alignment point
                got = args.get(origin)
                if dts:
                    ok = got is not None and u(got) in dts
                    text = f"{origin}=<{' / '.join(dts)}> [{u(got)[:60] if got is not None else 'not passed: default'}]"
                    run.check(ok, "C09.CONF", host.qual, text,
                              f"the alignment point `{' / '.join(dts)}` this window is configured with does not reach the "
                              f"ring buffer it builds (parameter `{origin}` of OrderedRingBuffer gets "
                              f"{'`' + u(got)[:60] + '`' if got is not None else 'nothing, i.e. its own default'}): the slots "
                              "are laid out from another origin, so for every alignment point off that grid updates and "
                              "datetime queries are snapped to other slots (two samples in one slot, spurious gaps, wrong "
                              "oldest/newest timestamps, at(grid point) out of range) — the same for an argument that is "
                              "dropped, a constant, or another datetime", **where)
                # --- the sampling period
                per = args.get(period)
                if per is None:
                    raise AnalysisError(f"{host.qual}: no sampling period in {u(call)[:80]}")
                if resamplers:
                    ok = u(per) in {f"{c}.resampling_period" for c in resamplers}
                    wanted = f"{resamplers[0]}.resampling_period"
                else:
                    ok = u(per) in tds or not tds
                    wanted = "<the sampling period parameter>"
                run.check(ok, "C09.CONF", host.qual, f"{period}={wanted} [{u(per)[:60]}]",
                          "the slot grid of the ring buffer does not have the period of the samples that are written to "
                          "it (the resampling period when the window resamples, the input sampling period otherwise): "
                          "consecutive samples share a slot or leave slots unwritten", **where)
                # --- the capacity
                store = args.get(storage)
                length = _storage_len(store) if store is not None else None
                if length is None:
                    if isinstance(store, ast.Name) and store.id in host.params:
                        continue        # the caller's container
                    raise AnalysisError(f"{host.qual}: cannot read the capacity of `{u(store)[:80] if store is not None else ''}`")
                cr = _ceil_ratio(length)
                if cr is None:
                    if isinstance(length, ast.Name) and length.id in host.params:
                        continue        # the caller's capacity
                    raise AnalysisError(f"{host.qual}: cannot read the capacity `{u(length)[:80]}` as span / period")
                kind, span, step = cr
                ok = kind == "ceil" and _same(step, per) and (u(span) in tds or not tds) and u(span) != u(step)
                run.check(ok, "C09.CONF", host.qual, f"capacity = ceil(<span> / {u(per)[:40]}) [{u(length)[:70]}]",
                          "the ring buffer does not get ceil(window span / sampling period) slots of the period it is laid "
                          "out with: the window keeps fewer slots than its span (rounded down, divided by another "
                          "period) or evicts by another range than it stores", **where)
        if not n:
            raise AnalysisError(f"{host.qual}: no completing path builds the ring buffer")


def check_conf(run: Run, prog: Program) -> None:
    check_conf_ring(run, prog)
    check_conf_builders(run, prog)


# --------------------------------------------------------------------------------------------- C09.REJECT
def _rejection_classes(run: Run, prog: Program) -> set[str]:
    """Exception classes OrderedRingBuffer.update() raises on its rejection paths (the timestamp was decided to be
    older than the oldest slot of a non-empty window), read from update()'s own paths."""
    up = prog.func(f"{BUF}:OrderedRingBuffer.update")
    out: set[str] = set()
    for p in ordered_paths(prog, up):
        if p.exit == "raise" and not _is_assertion(p) and any(o for _i, _t, o in _too_old_marks(p)) \
                and not _empty_before(p, None):
            name = exc_class_name(p.ret)
            if name is None:
                raise AnalysisError(f"{up.qual}: cannot read the class of `raise {u(p.ret)[:60]}`")
            out.add(name)
    return out


def _parents(root: ast.AST) -> dict[int, ast.AST]:
    out: dict[int, ast.AST] = {}
    for n in ast.walk(root):
        for c in ast.iter_child_nodes(n):
            out[id(c)] = n
    return out


def _catches(h: ast.ExceptHandler, raised: str) -> str:
    classes = handler_classes(h)
    if classes is None or raised in classes:
        return "yes"
    return handler_catches(h, "E", raised)


_LOOPS = (ast.For, ast.AsyncFor, ast.While)
_FUNCS = (ast.FunctionDef, ast.AsyncFunctionDef, ast.Lambda)


def _in_block(block: list[ast.stmt], node: ast.AST) -> bool:
    return any(node is x for s in block for x in ast.walk(s))


def _rejection_impossible(test: ast.AST, holds: bool, ts: str, buf: str, alias: dict[str, str]) -> bool:
    """Does knowing that `test` is `holds` entail that update() cannot reject: the buffer is empty (oldest bound
    None) or the sample's timestamp is not older than the oldest stored slot?  (normalize_timestamp is monotone and
    leaves the aligned oldest slot alone, so the raw timestamp may be compared.)"""
    oldest = {f"{buf}.oldest_timestamp", f"{buf}.time_bound_oldest", f"{buf}._timestamp_oldest"}

    def t(e: ast.AST) -> str:
        return alias.get(u(e), u(e))
    if isinstance(test, ast.UnaryOp) and isinstance(test.op, ast.Not):
        return _rejection_impossible(test.operand, not holds, ts, buf, alias)
    if isinstance(test, ast.BoolOp):
        conj = isinstance(test.op, ast.And) == holds      # every operand has that value / at least one has
        sub = [_rejection_impossible(v, holds, ts, buf, alias) for v in test.values]
        return any(sub) if conj else all(sub)
    if isinstance(test, ast.Compare) and len(test.ops) == 1:
        a, op, b = t(test.left), test.ops[0], t(test.comparators[0])
        if isinstance(op, (ast.Is, ast.IsNot)) and {a, b} & {f"{buf}.oldest_timestamp"} and "None" in (a, b):
            return isinstance(op, ast.Is) == holds
        if a == ts and b in oldest:
            return isinstance(op, ast.GtE) and holds or isinstance(op, ast.Lt) and not holds
        if b == ts and a in oldest:
            return isinstance(op, ast.LtE) and holds or isinstance(op, ast.Gt) and not holds
    return False


def _leaves(stmts: list[ast.stmt]) -> bool:
    return bool(stmts) and isinstance(stmts[-1], (ast.Continue, ast.Return, ast.Raise, ast.Break))


class _Escape:
    """Where does an exception of class `raised`, raised by the expression `site` inside function `fn`, go?"""

    def __init__(self, fn: ast.AST, file: str) -> None:
        self.fn = fn
        self.file = file
        self.parents = _parents(fn)
        self._cfg: CFG | None = None

    @property
    def cfg(self) -> CFG:
        if self._cfg is None:
            self._cfg = CFG(self.fn, self.file)   # type: ignore[arg-type]
        return self._cfg

    def chain(self, site: ast.AST) -> list[tuple[ast.AST, ast.AST]]:
        """(ancestor, child through which the site is reached), innermost first, up to the function."""
        out, cur = [], site
        while cur is not self.fn:
            par = self.parents.get(id(cur))
            if par is None:
                raise AnalysisError(f"C09.REJECT: `{u(site)[:60]}` is not inside the function that is read")
            out.append((par, cur))
            cur = par
        return out

    def handler_leaves(self, h: ast.ExceptHandler, loop: ast.AST | None) -> list[str] | None:
        """None if every way through the handler goes on with the loop (without a loop: completes or returns
        normally); else a description of a way that leaves the loop (re-raise / break / return)."""
        g = self.cfg
        explicit = lambda a, b, lab: not lab.startswith("exc:") or isinstance(g.nodes[a].ast, ast.Raise)  # noqa: E731
        heads = g.nodes_of(h)
        if not heads:
            raise AnalysisError(f"C09.REJECT: handler at line {h.lineno} not found on the control-flow graph")
        if loop is None:
            bad = {g.raise_exit}
            avoid: set[int] = set()
        else:
            inside = {id(x) for st in loop.body for x in ast.walk(st)}  # type: ignore[attr-defined]
            avoid = set(g.nodes_of(loop))
            bad = {n.id for n in g.nodes if n.id not in avoid and (n.ast is None or id(n.ast) not in inside)} - {g.entry}
        for hn in heads:
            pth = g.path(hn, bad, avoid=avoid, edge_ok=explicit)
            if pth is not None:
                return g.describe_path(pth)
        return None

    def pretested(self, site: ast.Call, buf: str, top: ast.AST | None) -> bool:
        """An `if` on the way to the call (enclosing, or an earlier guard statement that leaves) makes the rejection
        impossible; only tests inside the loop iteration (`top` = the loop) count: an older test is stale."""
        if len(site.args) != 1 or site.keywords:
            return False
        ts = f"{u(site.args[0])}.timestamp"
        alias: dict[str, str] = {}
        facts: list[tuple[ast.AST, bool]] = []
        for par, child in self.chain(site):
            for field in ("body", "orelse", "finalbody"):
                block = getattr(par, field, None)
                if not isinstance(block, list) or not any(child is x for x in block):
                    continue
                for st in block:
                    if st is child:
                        break
                    if isinstance(st, ast.If) and not st.orelse and _leaves(st.body):
                        facts.append((st.test, False))
                    elif isinstance(st, ast.Assign) and len(st.targets) == 1 and isinstance(st.targets[0], ast.Name):
                        alias[st.targets[0].id] = u(st.value)
                if isinstance(par, ast.If):
                    facts.append((par.test, field == "body"))
            if par is top:
                break
        return any(_rejection_impossible(t, holds, ts, buf, alias) for t, holds in facts)

    def decide(self, site: ast.AST, raised: str) -> tuple[str, str, list[str] | None]:
        """('swallowed' | 'ends-loop' | 'escapes', explanation, witness)"""
        chain = self.chain(site)
        loops_above = lambda i: [a for a, c in chain[i + 1:] if isinstance(a, _LOOPS) and any(c is x for x in a.body)]  # noqa: E731
        for i, (par, child) in enumerate(chain):
            if isinstance(par, ast.Try) and any(child is x for x in par.body):
                for h in par.handlers:
                    verdict = _catches(h, raised)
                    if verdict == "no":
                        continue
                    if verdict == "maybe":
                        continue      # catches a subclass / an unknown class: the rejection may pass it
                    outer = loops_above(i)
                    loop = outer[0] if outer else None
                    wit = self.handler_leaves(h, loop)
                    if wit is None:
                        return ("swallowed", f"`except {u(h.type) if h.type is not None else ''}` at line {h.lineno} takes it and goes on"
                                + (" with the loop" if loop is not None else ""), None)
                    if loop is not None and any(isinstance(a, _LOOPS) for a, _c in chain[:i]):
                        return ("ends-loop", f"the handler `except {u(h.type) if h.type is not None else ''}` at line {h.lineno} "
                                "lies outside the receive loop: catching the rejection there ends the loop all the same", wit)
                    return ("ends-loop" if loop is not None or any(isinstance(a, _LOOPS) for a, _c in chain[:i]) else "escapes",
                            f"the handler `except {u(h.type) if h.type is not None else ''}` at line {h.lineno} does not go on "
                            + ("with the loop (it re-raises, breaks or returns)" if loop is not None else
                               "(it lies outside the receive loop / re-raises)"), wit)
            if isinstance(par, _LOOPS) and any(child is x for x in par.body):
                # nothing inside the loop body took it: it leaves the loop, whoever catches it further out
                later = [h for a, c in chain[i + 1:] if isinstance(a, ast.Try) and any(c is x for x in a.body)
                         for h in a.handlers if _catches(h, raised) == "yes"]
                return ("ends-loop", (f"the only handler that takes it (`except {u(later[0].type) if later[0].type is not None else ''}`, "
                                      f"line {later[0].lineno}) lies OUTSIDE the loop: the loop has ended when it runs" if later else
                                      "no handler between the call and the loop takes it"), None)
        return ("escapes", "no handler in this function takes it", None)


def check_reject(run: Run, prog: Program) -> None:  # noqa: C901
    """C09.REJECT: a rejected (too old) sample must not stop later updates from being applied: the exception update()
    raises on its rejection path cannot leave a loop that feeds the ring buffer of a MovingWindow."""
    mw = prog.cls(f"{MW}:MovingWindow")
    buf = f"self.{_ring_attr(prog)}"
    up = prog.func(f"{BUF}:OrderedRingBuffer.update")
    raised = _rejection_classes(run, prog)
    _floor(run, up.qual, bool(raised), f"{up.qual}: no rejection path (raise under the too-old test) found")
    if not raised:
        return
    # every function of the class, nested ones too: (node, qualified name, names it can be called / passed by)
    funcs: list[tuple[ast.AST, str, set[str]]] = []
    for m in mw.methods.values():
        funcs.append((m.node, m.qual, {f"self.{m.name}"}))
        for x in ast.walk(m.node):
            if isinstance(x, (ast.FunctionDef, ast.AsyncFunctionDef)) and x is not m.node:
                funcs.append((x, f"{m.qual}.<locals>.{x.name}", {x.name}))
    file = next(iter(mw.methods.values())).file

    def own_nodes(fn: ast.AST) -> list[ast.AST]:
        return list(walk_no_nested(fn))

    def aliases(fn: ast.AST) -> set[str]:
        return {buf} | {t.id for s in own_nodes(fn) if isinstance(s, ast.Assign) and u(s.value) == buf
                        for t in s.targets if isinstance(t, ast.Name)}

    decided_sites = 0
    seen: set[tuple[int, int]] = set()
    work: list[tuple[ast.AST, str, ast.AST, str]] = []     # (function, its name, raising expression, what it is)
    for fn, qual, _names in funcs:
        al = aliases(fn)
        for c in own_nodes(fn):
            if isinstance(c, ast.Call) and isinstance(c.func, ast.Attribute) and c.func.attr == "update" \
                    and u(c.func.value) in al:
                work.append((fn, qual, c, f"`{u(c)[:60]}`"))
    if not work:
        raise AnalysisError(f"C09.REJECT: no call of the ring buffer's update() found in {mw.qual}")
    while work:
        fn, qual, site, what = work.pop(0)
        if (id(fn), id(site)) in seen:
            continue
        seen.add((id(fn), id(site)))
        run.analysed(qual)
        esc = _Escape(fn, file)
        for exc in sorted(raised):
            top = next((a for a, c in esc.chain(site) if isinstance(a, _LOOPS) and any(c is x for x in a.body)), None)
            if isinstance(site, ast.Call) and method_call(site, None, "update") and esc.pretested(site, buf, top):
                decided_sites += 1
                run.ok("C09.REJECT", f"{qual}: {what} cannot be rejected (timestamp tested against the oldest slot first)")
                continue
            verdict, why, wit = esc.decide(site, exc)
            if verdict == "swallowed":
                decided_sites += 1
                run.ok("C09.REJECT", f"{qual}: {exc} of {what} does not end the feeding loop", why)
            elif verdict == "ends-loop":
                decided_sites += 1
                run.violation(
                    "C09.REJECT", qual, f"{exc} raised by {what} leaves the loop that feeds the window",
                    f"OrderedRingBuffer.update() rejects a sample older than the window with `raise {exc}`; at {what} inside the "
                    f"receive loop of {qual.split(':')[-1]} {why}.  One late sample therefore ends the window's update task: "
                    "every later sample is lost and the window silently stops following its source (the error only "
                    "surfaces when the window is stopped), although the property demands that a rejected update leaves "
                    "the map able to take the following ones.  Accepted: a handler for that class (or a superclass) "
                    "around the call INSIDE the loop body that neither re-raises nor breaks nor returns, or a test of the "
                    "sample's timestamp against oldest_timestamp before the call; a try around the whole loop, a handler "
                    "for another class, or one that re-raises end the loop all the same",
                    node=site, file=file, path=wit)
            else:
                # it leaves this function: follow it to the callers inside the class; a function handed on as a
                # callback is run by someone else
                name = next(n for f, _q, n in funcs if f is fn)
                handed = []
                for g, gq, _n in funcs:
                    gp = _parents(g)
                    for x in own_nodes(g):
                        if isinstance(x, ast.Call) and u(x.func) in name:
                            work.append((g, gq, x, f"`{u(x)[:60]}` (which lets the {exc} of {what} through)"))
                        elif isinstance(x, (ast.Attribute, ast.Name)) and u(x) in name and isinstance(x.ctx, ast.Load):
                            par = gp.get(id(x))
                            if not (isinstance(par, ast.Call) and par.func is x):
                                handed.append((gq, par))
                for gq, par in handed:
                    run.note(f"C09.REJECT not decided for {qual}: {what} lets {exc} through and the function is handed on as a "
                             f"callback in {gq} (`{u(par)[:70] if par is not None else ''}`): the resampler collects the "
                             "exceptions of its sinks per tick and raises ResamplingError, which would end the resampling "
                             "task -- but resampled timestamps only move forward, so the too-old rejection cannot occur on "
                             "that route as long as the resampler is the window's only writer (not decided statically)")
    if not decided_sites:
        raise AnalysisError(f"C09.REJECT: no call of the ring buffer's update() inside a receive loop of {mw.qual} could be decided")


_GUARD = (
    "        if (\n            timestamp < self._timestamp_oldest\n"
    "            and self._timestamp_oldest != self._TIMESTAMP_MAX\n        ):\n"
    "            raise IndexError(\n"
    "                f\"Timestamp {timestamp} too old (cut-off is at {self._timestamp_oldest}).\"\n"
    "            )\n\n")
_MOVE = (
    "        # Update timestamps\n        prev_newest = self._timestamp_newest\n"
    "        self._timestamp_newest = max(self._timestamp_newest, timestamp)\n"
    "        self._timestamp_oldest = self._timestamp_newest - (\n"
    "            self._full_time_range - self._sampling_period\n        )\n\n")

_TRY_UPDATE = (
    "                    try:\n                        self._buffer.update(sample)\n"
    "                    except IndexError:\n"
    "                        # The ring buffer rejects samples that are older than the\n"
    "                        # window.  That must not end the window's update task.\n"
    "                        _logger.warning(\n"
    "                            \"Dropping sample that is too old for the window: %s\", sample\n"
    "                        )\n")

CONTROLS = [
    ("slot number counted from the UNIX epoch", BUF,
     "                (timestamp - self._time_index_alignment).total_seconds()\n                / self._sampling_period.total_seconds()",
     "                timestamp.timestamp()\n                / self._sampling_period.total_seconds()", "C09.IDX"),
    ("missing sample records only its own slot", BUF,
     "                start_gap = min(newest + self._sampling_period, timestamp)\n", "                start_gap = timestamp\n", "C09.GAP"),
    ("fill clamp uses the capacity", BUF, "            end_index = min(end_index, len(data))\n",
     "            end_index = min(end_index, self.maxlen)\n", "C09.GAP"),
    ("datetime upper check relaxed by one period", MW,
     "                or key > self._buffer.newest_timestamp\n",
     "                or key >= self._buffer.newest_timestamp + self._buffer.sampling_period\n", "C09.VALID"),
    ("Gap built from the un-normalised sample timestamp", BUF,
     "self._update_gaps(timestamp, prev_newest, not self.has_value(sample))",
     "self._update_gaps(sample.timestamp, prev_newest, not self.has_value(sample))", "C09.NORM"),
    ("too-old check moved after the writes", BUF,
     "        # Update timestamps\n        prev_newest = self._timestamp_newest\n        self._timestamp_newest = max(self._timestamp_newest, timestamp)\n",
     "        # Update timestamps\n        prev_newest = self._timestamp_newest\n",
     "C09.VALID"),
    ("lower clamp dropped in window()", BUF,
     "max(start, self.oldest_timestamp)", "start", "C09.VALID"),
    ("upper clamp dropped in window()", BUF,
     "min(end, self.newest_timestamp + self._sampling_period)", "end", "C09.VALID"),
    ("newest bound set from raw timestamp", BUF,
     "self._timestamp_newest = max(self._timestamp_newest, timestamp)",
     "self._timestamp_newest = max(self._timestamp_newest, sample.timestamp)", "C09.NORM"),
    ("datetime branch of at() loses its upper check", MW,
     "                or key > self._buffer.newest_timestamp\n", "", "C09.VALID"),
    ("too-old rejection really placed after the time bounds moved", BUF,
     _GUARD + _MOVE, _MOVE + _GUARD, "C09.VALID"),
    ("too-old rejection uses a non-strict comparison", BUF,
     "            timestamp < self._timestamp_oldest\n", "            timestamp <= self._timestamp_oldest\n",
     "C09.VALID"),
    ("too-old rejection only logs", BUF,
     "            raise IndexError(\n                f\"Timestamp {timestamp} too old",
     "            print(\n                f\"Timestamp {timestamp} too old", "C09.VALID"),
    ("empty-range guard of window() dropped", BUF,
     "        if start >= end:\n            return np.array([]) if isinstance(self._buffer, np.ndarray) else []\n",
     "", "C09.VALID"),
    ("empty-range guard of window() admits equal bounds", BUF,
     "        if start >= end:\n", "        if start > end:\n", "C09.VALID"),
    ("window() fills from the unclamped time origin", BUF,
     "window = self._fill_gaps(window, fill_value, start, self.gaps)",
     "window = self._fill_gaps(window, fill_value, self._timestamp_oldest, self.gaps)", "C09.VALID"),
    ("window() returns without filling", BUF,
     "        if fill_value is not None:\n            window = self._fill_gaps(window, fill_value, start, self.gaps)\n",
     "", "C09.VALID"),
    ("window() compares before normalising", BUF,
     "        start = self.normalize_timestamp(max(start, self.oldest_timestamp))\n",
     "        start = max(start, self.oldest_timestamp)\n", "C09.NORM"),
    ("index branch of at() loses its lower check", MW,
     "if key < -covered or key >= covered:", "if key >= covered:", "C09.VALID"),
    ("index branch of at() checked against the capacity", MW,
     "            covered = self._buffer.count_covered()\n", "            covered = self._buffer.maxlen\n", "C09.VALID"),
    ("at() reads an empty buffer", MW,
     "        if self._buffer.count_valid() == 0:\n            raise IndexError(\"The buffer is empty.\")\n", "",
     "C09.VALID"),
    ("jump-ahead gap starts at the new sample", BUF,
     "Gap(start=newest + self._sampling_period, end=timestamp)", "Gap(start=timestamp, end=timestamp)", "C09.GAP"),
    ("fill start index not clamped", BUF,
     "            start_index = max(start_index, 0)\n", "", "C09.GAP"),
    # ---- controls for the rules added after the sensitivity sweep
    ("newest bound moved to the earlier slot", BUF,
     "self._timestamp_newest = max(self._timestamp_newest, timestamp)",
     "self._timestamp_newest = min(self._timestamp_newest, timestamp)", "C09.STORE"),
    ("oldest bound on the wrong side of the newest", BUF,
     "        self._timestamp_oldest = self._timestamp_newest - (\n", "        self._timestamp_oldest = self._timestamp_newest + (\n",
     "C09.STORE"),
    ("valid and missing values swapped", BUF,
     "        if self.has_value(sample):\n            assert sample.value is not None\n",
     "        if not self.has_value(sample):\n            assert sample.value is not None\n", "C09.STORE"),
    ("update() rejects everything once something was written", BUF,
     "            timestamp < self._timestamp_oldest\n            and self._timestamp_oldest",
     "            timestamp < self._timestamp_oldest\n            or self._timestamp_oldest", "C09.VALID"),
    ("window() fills a view on the ring", BUF,
     "        if fill_value is not None and not force_copy:\n", "        if fill_value is None and not force_copy:\n", "C09.VALID"),
    ("window() answers with nothing on a written buffer", BUF,
     "        if self.count_covered() == 0:\n", "        if self.count_covered() != 0:\n", "C09.VALID"),
    ("index query not projected on the covered range", BUF,
     "            start, end = self._to_covered_indices(start, end)\n", "", "C09.VALID"),
    ("at() takes the datetime branch for indices", MW,
     "        if isinstance(key, datetime):\n            assert", "        if not isinstance(key, datetime):\n            assert",
     "C09.VALID"),
    ("to_internal_index rejects the slot after the newest", BUF,
     "            self._timestamp_newest + self._sampling_period < timestamp\n",
     "            self._timestamp_newest + self._sampling_period <= timestamp\n", "C09.VALID"),
    ("at() asserts the converted index away", MW,
     "            assert timestamp is not None\n", "            assert timestamp is None\n", "C09.NONE"),
    ("full-capacity window fetched as empty", BUF,
     "        if start_pos >= end_pos:\n", "        if start_pos > end_pos:\n", "C09.FETCH"),
    ("copy requested, view returned", BUF,
     "        if force_copy:\n            return deepcopy(arr)\n", "        if not force_copy:\n            return deepcopy(arr)\n",
     "C09.FETCH"),
    ("count_valid is 0 on a written buffer", BUF,
     "        if self._timestamp_newest == self._TIMESTAMP_MIN:\n            return 0\n",
     "        if self._timestamp_newest != self._TIMESTAMP_MIN:\n            return 0\n", "C09.COUNT"),
    ("count_valid off by one", BUF,
     "        return end_pos + 1 - start_pos - sum_missing_entries\n",
     "        return end_pos - start_pos - sum_missing_entries\n", "C09.COUNT"),
    ("index 0 counted from the newest end", BUF, "            if index >= 0\n", "            if index > 0\n", "C09.COUNT"),
    ("NaN counts as a value", BUF,
     "return not (sample.value is None or sample.value.isnan())",
     "return not (sample.value is None and sample.value.isnan())", "C09.COUNT"),
    ("gap list never normalised after an update", BUF,
     "                self._remove_gap(timestamp)\n\n        self._cleanup_gaps()\n",
     "                self._remove_gap(timestamp)\n", "C09.GAP"),
    ("slot written into the only gap stays missing", BUF,
     "        elif len(self._gaps) > 0:\n", "        elif len(self._gaps) > 1:\n", "C09.GAP"),
    ("split gap keeps the written slot", BUF,
     "            new_gap = deepcopy(gap)\n            gap.end = timestamp\n", "            new_gap = deepcopy(gap)\n", "C09.GAP"),
    ("gaps are filled only when their range is empty", BUF,
     "            if start_index < end_index:\n", "            if start_index > end_index:\n", "C09.GAP"),
    ("normalisation steps away from the nearest slot", BUF,
     "            num_samples += 1\n", "            num_samples -= 1\n", "C09.IDX"),
    ("gaps inside the window dropped as outdated", BUF,
     "            if w_1.end <= self._timestamp_oldest:\n", "            if w_1.end > self._timestamp_oldest:\n", "C09.GAP"),
    ("gap walk never advances", BUF,
     "            else:\n                i += 1\n", "            else:\n                i += 0\n", "C09.GAP"),
    ("range check of to_internal_index off by default", BUF,
     "allow_outside_range: bool = False", "allow_outside_range: bool = True", "C09.VALID"),
    ("empty answer in the other container type", BUF,
     "            return np.array([]) if isinstance(self._buffer, np.ndarray) else []\n",
     "            return [] if isinstance(self._buffer, np.ndarray) else np.array([])\n", "C09.VALID"),
    # ---- controls for C09.CONF (what a new buffer is, and what its owner hands it)
    ("window's alignment point never reaches its ring buffer", MW,
     "            sampling_period=self._sampling_period,\n            align_to=align_to,\n",
     "            sampling_period=self._sampling_period,\n", "C09.CONF"),
    ("window's ring buffer aligned to a constant", MW,
     "            align_to=align_to,\n        )\n", "            align_to=UNIX_EPOCH,\n        )\n", "C09.CONF"),
    ("resampling window laid out on the input period", MW,
     "            sampling_period=self._sampling_period,\n", "            sampling_period=input_sampling_period,\n", "C09.CONF"),
    ("capacity of the window rounded down", MW,
     "        num_samples = math.ceil(\n", "        num_samples = math.floor(\n", "C09.CONF"),
    ("ring buffer ignores the alignment point it is given", BUF,
     "        self._time_index_alignment: datetime = align_to\n",
     "        self._time_index_alignment: datetime = UNIX_EPOCH\n", "C09.CONF"),
    ("time range of a new buffer is one slot", BUF,
     "        self._full_time_range: timedelta = len(self._buffer) * self._sampling_period\n",
     "        self._full_time_range: timedelta = self._sampling_period\n", "C09.CONF"),
    ("new buffer claims a written slot", BUF,
     "        self._timestamp_newest: datetime = self._TIMESTAMP_MIN\n",
     "        self._timestamp_newest: datetime = self._TIMESTAMP_MAX\n", "C09.CONF"),
    # ---- controls for the round-6 clauses (gap test on the slot read; the window's own reports)
    ("at() asks the gap list about the raw key", MW,
     "            if self._buffer.is_missing(self._buffer.normalize_timestamp(key)):\n",
     "            if self._buffer.is_missing(key):\n", "C09.VALID"),
    ("at() asks the gap list about the neighbouring slot", MW,
     "            if self._buffer.is_missing(self._buffer.normalize_timestamp(key)):\n",
     "            if self._buffer.is_missing(self._buffer.normalize_timestamp(key) + self._buffer.sampling_period):\n",
     "C09.VALID"),
    ("window reports the covered count as its valid count", MW,
     "        return self._buffer.count_valid()\n\n    def count_covered",
     "        return self._buffer.count_covered()\n\n    def count_covered", "C09.COUNT"),
    ("window reports the valid count as its covered count", MW,
     "        return self._buffer.count_covered()\n\n    @overload",
     "        return self._buffer.count_valid()\n\n    @overload", "C09.COUNT"),
    ("window reports the newest slot as its oldest", MW,
     "        return self._buffer.oldest_timestamp\n", "        return self._buffer.newest_timestamp\n", "C09.COUNT"),
    # ---- controls for C09.REJECT (finding F23: a rejected sample ended the window's update task)
    ("rejection of a late sample ends the receive loop", MW, _TRY_UPDATE, "                    self._buffer.update(sample)\n",
     "C09.REJECT"),
    ("rejection caught around the whole receive loop", MW, _TRY_UPDATE + "\n        except asyncio.CancelledError:\n",
     "                    self._buffer.update(sample)\n\n        except IndexError:\n"
     "            _logger.warning(\"Dropping sample\")\n        except asyncio.CancelledError:\n", "C09.REJECT"),
    ("rejection handler re-raises", MW, _TRY_UPDATE, _TRY_UPDATE + "                        raise\n", "C09.REJECT"),
    ("handler for another exception class", MW, "                    except IndexError:\n",
     "                    except KeyError:\n", "C09.REJECT"),
    ("window query drops the caller's fill value", MW,
     "            start, end, force_copy=force_copy, fill_value=fill_value\n",
     "            start, end, force_copy=force_copy\n", "C09.COUNT"),
]


def _rules_for(expect: str) -> Any:
    """The part of the rule set a control of that rule has to be re-run with (runtime only)."""
    def norm(run: Run, prog: Program) -> None:
        check_norm(run, prog)
        check_valid_window(run, prog)   # the emptiness-guard operands are a C09.NORM obligation decided there
    return {"C09.NORM": norm, "C09.VALID": check_valid, "C09.GAP": check_gaps, "C09.IDX": check_idx,
            "C09.STORE": check_store, "C09.FETCH": check_fetch, "C09.COUNT": check_count,
            "C09.NONE": check_none, "C09.CONF": check_conf, "C09.REJECT": check_reject}[expect]


def run_rules(run: Run, prog: Program) -> None:
    check_norm(run, prog)
    check_store(run, prog)
    check_valid(run, prog)
    check_gaps(run, prog)
    check_idx(run, prog)
    check_fetch(run, prog)
    check_count(run, prog)
    check_none(run, prog)
    check_conf(run, prog)
    check_reject(run, prog)


def check(run: Run, prog: Program, tier: str) -> str:
    run.rule("C09.NORM", "grid-alignment typestate: buffer time bounds, gap boundaries, datetime "
             "arguments of private slot-arithmetic methods and the operands of the emptiness guard "
             "before slot-index computation are provably on the slot grid")
    run.rule("C09.VALID", "update() rejects too-old timestamps before any mutation; window() clamps "
             "both ends and checks emptiness before computing slot indices and fills gaps before "
             "returning; MovingWindow.at guards every buffer read with a two-sided range check and a gap test "
             "on the normalised timestamp of the slot it reads")
    run.rule("C09.GAP", "every gap recorded by update() starts no later than the first unwritten slot; a "
             "missing sample records a gap; _fill_gaps writes only inside [0, len(window)]")
    run.rule("C09.IDX", "slot number = round((normalised T - alignment origin) / sampling period), the grid "
             "normalize_timestamp snaps to; wrap() is modulo the capacity")
    run.rule("C09.STORE", "update() moves the newest bound to max(newest, T) and the oldest to newest - (range - "
             "period), stores the value (NaN iff missing) at the slot of T after that, and tells the gap "
             "bookkeeping T, the previous newest slot and whether the sample is missing")
    run.rule("C09.FETCH", "_wrapped_buffer_window returns buffer[s:e], or buffer[s:] followed by buffer[:e] when the "
             "ring wraps (e <= s), in the buffer's container type, as a copy when requested")
    run.rule("C09.COUNT", "has_value, time bounds, oldest/newest timestamp, get_timestamp, covered range and "
             "count_covered / count_valid report what the bounds and the gap list say; MovingWindow's count_valid / "
             "count_covered / oldest / newest timestamp are the ring buffer's observer of the same role")
    run.rule("C09.NONE", "a value established to be None on a path is not used afterwards on that path")
    run.rule("C09.CONF", "a new ring buffer is the empty map it was configured to be (grid origin = alignment point, "
             "step = sampling period, range = capacity * period, sentinel bounds, no gaps), and whoever builds one "
             "(MovingWindow) hands it its own alignment point, the period of the samples it will write and "
             "ceil(span / that period) slots")
    run.rule("C09.REJECT", "the exception update() raises for a too-old sample cannot leave a loop that feeds a MovingWindow's "
             "ring buffer: it is taken by a handler inside the loop body that goes on with the loop, or excluded by a test "
             "of the timestamp against the oldest slot (a rejected update must not stop later updates from being applied)")
    run_rules(run, prog)
    run.floor("C09.REJECT", 1)
    run.floor("C09.CONF", 10)
    run.floor("C09.IDX", 3)
    run.floor("C09.STORE", 4)
    run.floor("C09.FETCH", 3)
    run.floor("C09.COUNT", 10)
    run.floor("C09.NONE", 1)
    run.floor("C09.NORM", 12)
    run.floor("C09.VALID", 10)
    run.floor("C09.GAP", 6)
    from ..engine.controls import run_controls

    run_controls(run, CONTROLS, run_rules, tier, base_prog=prog, select=_rules_for)
    run.assume("aligned ± k·sampling_period is aligned; datetime arithmetic is exact (timedelta "
               "microsecond resolution)")
    run.undecided("consistency of the incrementally maintained gap list / count_valid with the "
                  "stored data over all update histories (inductive data-structure invariant)")
    return ("Qualifier (typestate) inference aligned/raw over all OrderedRingBuffer methods with "
            "interprocedural private-parameter obligations, plus dominance/path rules on update(), "
            "window() and MovingWindow.at. Decides alignment discipline and validate-before-use; "
            "does not decide gap-list consistency over histories.")
