"""C19  Formulas switch to fallback components when a primary meter fails — structure.

  C19.SEL   abstract interpretation of fetch_next_with_fallback over {primary ok / errors} x
            {synchronised fallback sample present / absent} x {primary valid / invalid}: returns the
            primary iff it is valid or no fallback sample exists, the fallback otherwise, and the
            fallback's next sample when the primary errors.  What is returned is one of the received samples WHOLE: a sample
            assembled in the function (`Sample(ts, value)`, `replace(..)`) counts as a received sample only if both parts
            come from the same one -- the fallback's value under the primary's timestamp is neither.
  C19.ERR   every receive() on the primary or the fallback inside MetricFetcher sits in a try whose
            handler names a *catchable class* derived from ReceiverError (a subscripted generic such as
            `ReceiverError[Any]` is not a class: the except clause itself raises TypeError), except
            the two documented terminal sites.
  C19.LAZY  the fallback is started only when it is not running and the primary was invalid or
            failed, judged by the same validity predicate as everywhere else; once running the
            synchronised path is taken.
  C19.SYNC  _synchronize_and_fetch_fallback (as one unit with its private helpers): everything read from the
            fallback stream is in _latest_fallback_sample before the routine can be left or await again;
            `primary older than fallback -> None` is tested on every call; the catch-up loop runs while the
            primary is newer and advances only the fallback; no other cycle contains a read of the fallback stream (how many
            samples a round takes from it depends on the two timestamps only, never on a value being valid).  "The cached sample" is the attribute or a local
            that provably holds its current value (_c06_util.AliasStates), so a local mirror is read like the
            attribute -- and a mirror that is written back late is not.
  C19.ESYNC a sample read straight from the fallback stream is returned to the round only on paths that consult
            the synchronisation state or compare a timestamp (the primary-error path does not: finding F12).
  C19.BUF   the fallback engine's receiver is created with the default capacity (like every other
            formula input).
  C19.TICK  once the fallback runs, every tick of fetch_next_with_fallback reads it.
  C19.METRIC the formula generated for the fallback of a term reads the same metric (and builds the same quantity)
            as the builder of the formula whose term it backs: the generator handed to FallbackFormulaMetricFetcher
            is followed to its generate() and both builder configurations are compared.
  C19.PAIR  the two places that decide which components back which meter agree: the device predicates under which
            a meter's successors are its fallback == the device side of the (device, meter) pair table, and every
            pair is the one the component graph defines (`is_X_meter` == METER whose successors are all `is_X`).
            The pair table is obtained by executing the two-candidate predicate for every combination of
            candidate kinds (PairInterp), whatever its spelling (and-chain, any() over a table, dict, helper); the kinds
            include a meter whose successors are of different kinds and the grid meter: neither is anybody's primary.

  C19.COVER the function that builds the primary -> fallbacks map from the requested component set (bound by role: it consults
            the pairing predicate and records entries of the map it returns) records a primary that is NOT itself requested --
            the meter in front of a requested device -- only on paths that established that everything the meter measures is
            requested (successors(<primary>) subset of the requested set, in any spelling, also inside a private helper or a
            closure): decided as "no recording site is reachable in the scenario `some successor is not requested`" (F24).

  C19.LOOP  the loop that drives a formula survives every failing round: each Exception-family edge out of
            `await evaluator.apply()` enters a handler that certainly catches it (Exception / BaseException / bare) and
            from which the next evaluation follows (no raise / return / break).
  C19.RESYNC the consumer's re-alignment, which C19.ESYNC relies on for the unsynchronised primary-error path, advances
            every stream of every lagging group (C06.SYNC re-issued under this property).
  C19.ERR   also: streams are read with receive() only (anext / __anext__ / async for report a closed stream as
            StopAsyncIteration, which no ReceiverError handler sees).

LAZY / ERR are decided per scenario (fallback configured / running, received primary valid) on the CFG;
roles are bound by dataflow (sa/props/_c06_util.py).
"""
from __future__ import annotations

import ast
from typing import Any

from ..engine.absint import Interp, Obj, _Raise
from ..engine.cfg import own_parts
from ..engine.report import AnalysisError, Run
from ..engine.resolver import Program, body_walk
from ..engine.util import canon, canon_total, find_calls, method_call, u
from ._c06_util import EVAL_CLS, AliasStates, select_ifexp, engine_loop, rereport, expr_guards, tri, resyncs_on_divergence, VALID_HINT, Flow, HelperCalls, indent_of, inline_all, is_validity_call, validity_name, lifted, names_eq, pruned, unawait, seg, spliced, src_patch, stmt_patch, truth_atom

STEPS = "timeseries.formula_engine._formula_steps"
MF = f"{STEPS}:MetricFetcher"
FFM = "timeseries.formula_engine._formula_generators._fallback_formula_metric_fetcher"
SYNC_HINT = "_synchronize_and_fetch_fallback"
GEN_PKG = "timeseries.formula_engine._formula_generators"
FG = f"{GEN_PKG}._formula_generator:FormulaGenerator"
RFB = "timeseries.formula_engine._resampled_formula_builder:ResampledFormulaBuilder"
GRAPH_MOD = "microgrid.component_graph"
ENGINE_MOD = "timeseries.formula_engine._formula_engine"


class SelInterp(HelperCalls, Interp):
    def __init__(self, sync_params: list[str] | None = None, sync_name: str = SYNC_HINT, valid_name: str | None = VALID_HINT) -> None:
        super().__init__()
        self.scn: dict[str, Any] = {}
        self.sync_params = sync_params or []
        self.sync_name = sync_name
        self.valid_name = valid_name

    def reset(self) -> None:
        self.scn = {}

    def snapshot(self) -> Any:
        return dict(self.scn)

    def unknown_name(self, ident: str, node: ast.AST) -> Any:
        if ident in ("ReceiverError", "Any"):
            return ident
        if ident == "_logger":
            return Obj("logger")
        if ident == "anext":
            return ("m", "anext", None)
        if ident == "Sample":
            return ("m", "Sample")
        if ident == "replace":
            return ("m", "replace")
        if ident == "dataclasses":
            return Obj("dataclasses")
        if ident == "QuantityT":
            return ident
        raise AnalysisError(f"name {ident} not modelled in C19.SEL")

    def get_attr(self, base: Any, attr: str, node: ast.AST) -> Any:
        if isinstance(base, Obj) and base.cls == "logger":
            return ("m", "log")
        if isinstance(base, Obj) and base.cls == "self":
            if attr == "_stream":
                return Obj("stream", who="primary")
            if attr == self.sync_name:
                return ("m", SYNC_HINT)
            if attr == self.valid_name:
                return ("m", VALID_HINT)
            if attr == "_name":
                return "name"
        if isinstance(base, Obj) and base.cls == "dataclasses" and attr == "replace":
            return ("m", "replace")
        if isinstance(base, Obj) and base.cls == "Sample" and attr in ("timestamp", "value"):
            # the two parts of a sample remember which received sample they were taken from
            if attr in base.fields:
                return base.fields[attr]
            return Obj("ts" if attr == "timestamp" else "v", of=base.fields.get("who"))
        if isinstance(base, Obj) and base.cls == "v" and attr in ("isnan", "isinf"):
            return ("m", "vprobe", attr, base)  # the validity test written in line on the received value
        if isinstance(base, Obj) and base.cls in ("stream", "fallback") and attr == "receive":
            return ("m", "receive", base)
        if isinstance(base, Obj) and base.cls in ("stream", "fallback") and attr == "__anext__":
            return ("m", "anext", base)
        if isinstance(base, Obj) and base.cls == "fallback" and attr == "name":
            return "fb"
        return super().get_attr(base, attr, node)

    def get_item(self, base: Any, key: Any, node: ast.AST) -> Any:
        if base == "ReceiverError" or base == ("m", "Sample"):
            return base
        return super().get_item(base, key, node)

    def apply(self, fn: Any, pos: list[Any], kw: dict[str, Any], node: ast.AST) -> Any:
        if isinstance(fn, tuple) and fn[0] == "m":
            if fn[1] == "log":
                return None
            if fn[1] == "anext":
                # the async-iterator protocol: `anext(rx)` / `rx.__anext__()` deliver the next sample like receive(), but a
                # CLOSED stream surfaces as StopAsyncIteration (Receiver.__anext__ converts ReceiverStoppedError), which is
                # not a ReceiverError
                src = fn[2] if fn[2] is not None else (pos[0] if pos else None)
                if not (isinstance(src, Obj) and src.cls in ("stream", "fallback")):
                    raise AnalysisError("anext() of something that is not a stream in C19.SEL")
                if src.cls == "stream":
                    self.scn["primary_receives"] = self.scn.get("primary_receives", 0) + 1
                    d = self.choose(3, "primary anext: delivers / raises ReceiverError / stream closed (StopAsyncIteration)")
                    if d == 1:
                        self.scn["primary_error"] = True
                        raise _Raise("ReceiverError", node)
                    if d == 2:
                        self.scn["primary_error"] = True
                        raise _Raise("StopAsyncIteration", node)
                    return Obj("Sample", who="primary", value=Obj("v", of="primary"))
                self.scn["fallback_receives"] = self.scn.get("fallback_receives", 0) + 1
                return Obj("Sample", who="fallback_next")
            if fn[1] == "receive":
                src = fn[2]
                if src.cls == "stream":
                    self.scn["primary_receives"] = self.scn.get("primary_receives", 0) + 1
                    if self.choose(2, "primary receive raises ReceiverError") == 1:
                        self.scn["primary_error"] = True
                        raise _Raise("ReceiverError", node)
                    return Obj("Sample", who="primary", value=Obj("v", of="primary"))
                self.scn["fallback_receives"] = self.scn.get("fallback_receives", 0) + 1
                return Obj("Sample", who="fallback_next")
            if fn[1] in ("Sample", "replace"):
                return self._assembled(fn[1], pos, kw, node)
            if fn[1] == "_synchronize_and_fetch_fallback":
                full = list(pos) + [kw[n] for n in self.sync_params[len(pos):] if n in kw]
                self.scn["sync_args"] = [getattr(p, "cls", None) and p.fields.get("who", p.cls) for p in full]
                if self.choose(2, "synchronised fallback sample exists") == 1:
                    self.scn["fb"] = True
                    return Obj("Sample", who="fallback")
                self.scn["fb"] = False
                return None
            if fn[1] == VALID_HINT:
                ok = self._valid()
                self.scn["valid_arg"] = pos[0]
                return ok
            if fn[1] == "vprobe":
                # in-line test: an invalid value is present and either NaN or infinite (both explored)
                ok = self._valid()
                self.scn["valid_arg"] = fn[3]
                if ok:
                    return False
                if "enc" not in self.scn:
                    self.scn["enc"] = ("isnan", "isinf")[self.choose(2, "invalid primary value is NaN / infinite")]
                return fn[2] == self.scn["enc"]
        return super().apply(fn, pos, kw, node)

    def _assembled(self, how: str, pos: list[Any], kw: dict[str, Any], node: ast.AST) -> Any:
        """`Sample(ts, value)` / `replace(sample, timestamp=.., value=..)`: a sample put together in the function.  When both
        parts come from the same received sample it IS that sample (a copy); otherwise it is a mix, named by its parts."""
        def part(x: Any) -> str:
            if isinstance(x, Obj) and x.cls in ("ts", "v") and x.fields.get("of"):
                return f"{x.fields['of']}.{'timestamp' if x.cls == 'ts' else 'value'}"
            return "<something else>"

        if how == "replace":
            if not pos or not (isinstance(pos[0], Obj) and pos[0].cls == "Sample"):
                raise AnalysisError(f"replace() of something that is not a sample in C19.SEL (line {getattr(node, 'lineno', '?')})")
            base = pos[0]
            ts = kw.get("timestamp", self.get_attr(base, "timestamp", node))
            val = kw.get("value", self.get_attr(base, "value", node))
        else:
            args = dict(zip(("timestamp", "value"), pos))
            args.update(kw)
            if set(args) != {"timestamp", "value"}:
                raise AnalysisError(f"Sample(..) without a timestamp and a value in C19.SEL (line {getattr(node, 'lineno', '?')})")
            ts, val = args["timestamp"], args["value"]
        src_t = ts.fields.get("of") if isinstance(ts, Obj) and ts.cls == "ts" else None
        src_v = val.fields.get("of") if isinstance(val, Obj) and val.cls == "v" else None
        if src_t is not None and src_t == src_v:
            return Obj("Sample", who=src_t, timestamp=ts, value=val)
        return Obj("Sample", who=f"Sample({part(ts)}, {part(val)})", timestamp=ts, value=val, mixed=True, node=node)

    def _valid(self) -> bool:
        if "valid" not in self.scn:
            self.scn["valid"] = self.choose(2, "primary value valid") == 1
        return bool(self.scn["valid"])

    def handler_matches(self, h: ast.ExceptHandler, name: str) -> bool:
        if h.type is None:
            return True
        if name != "ReceiverError":  # StopAsyncIteration and the like: only a handler that names it or a base class of it
            return any(k in u(h.type) for k in (name, "Exception", "BaseException"))
        return "ReceiverError" in u(h.type)

    def truth_of(self, v: Any, node: ast.AST | None) -> bool:
        return True


def check_sel(run: Run, prog: Program) -> None:
    fn = prog.func(f"{MF}.fetch_next_with_fallback")
    run.analysed(fn.qual)
    sname = fallback_sync_name(prog)
    vname = validity_name(prog)
    it = SelInterp([p for p in prog.func(f"{MF}.{sname}").params if p != "self"], sname, vname)
    it.bind_helpers(prog, fn, keep=(sname,) + ((vname,) if vname else ()))

    def make_args() -> dict[str, Any]:
        return {"self": Obj("self"), fn.params[1]: Obj("fallback")}

    outs = it.explore(fn.node, make_args)
    if len(outs) < 4:
        raise AnalysisError(f"{fn.qual}: only {len(outs)} abstract paths")
    for out in outs:
        s = out.state
        desc = "; ".join(f"{l}={d}" for l, d in zip(out.labels, out.decisions))
        who = out.value.fields.get("who") if isinstance(out.value, Obj) else None
        if out.kind == "raise":
            why_r = (": a closed primary stream read through the async-iterator protocol surfaces as StopAsyncIteration, which the "
                     "ReceiverError handler does not catch -- the term never switches to its fallback, every evaluation fails"
                     if out.value == "StopAsyncIteration" else "")
            run.violation("C19.SEL", fn.qual, "raises", f"path raises {out.value}: {desc}{why_r}", node=out.raise_node or fn.node, file=fn.file)
            continue
        if s.get("primary_error"):
            want = "fallback_next"
            why = "the primary stream failed: the fallback's next sample must be used"
        elif s.get("fb") is False:
            want = "primary"
            why = "no synchronised fallback sample: the primary sample must be returned"
        elif s.get("valid"):
            want = "primary"
            why = "the primary value is valid: it must be returned"
        else:
            want = "fallback"
            why = "the primary value is missing and a synchronised fallback sample exists"
        mixed = isinstance(out.value, Obj) and bool(out.value.fields.get("mixed"))
        run.check(who == want, "C19.SEL", fn.qual, f"returns {who} [{desc}]",
                  f"{why}, but `{who}` is returned ({desc})"
                  + (": a sample assembled from the timestamp of one source and the value of another is neither of the two received "
                     "samples.  The term's value must be the other source's value *for the same timestamp*; the synchronisation only "
                     "guarantees a fallback sample that is not older than the primary (a fallback stream with a gap delivers T+1 for "
                     "the primary's T), and it is the sample's own timestamp by which the evaluator notices that and re-aligns.  "
                     "Re-labelled, the value of another timestamp is emitted under T -- also when neither source had a valid value "
                     "for T (the sample handed on must be one of the received samples whole: same for dataclasses.replace(), for a "
                     "value averaged / summed from both, for the fallback's timestamp on the primary's value)" if mixed else ""),
                  node=(out.value.fields.get("node") if mixed and out.value.fields.get("node") is not None else fn.node), file=fn.file,
                  instance=f"{fn.qual}: {desc} -> {want}")
        run.check(s.get("primary_receives", 0) == 1, "C19.SEL", fn.qual, "primary received once",
                  f"the primary stream is received {s.get('primary_receives', 0)} times in one round ({desc})",
                  node=fn.node, file=fn.file, instance=f"{fn.qual}: one primary receive ({desc})")
        consumed = s.get("fallback_receives", 0) + (1 if "sync_args" in s else 0)
        run.check(consumed >= 1, "C19.TICK", fn.qual, "the running fallback is read on every tick",
                  f"a tick completes without reading the running fallback ({desc}): its receiver piles up unread "
                  "samples, and the primary-error path (`return await fallback.receive()`) then hands back the oldest "
                  "unread sample - the term lags behind by as many ticks as the primary had been healthy, for ever",
                  node=fn.node, file=fn.file, instance=f"{fn.qual}: fallback consumed ({desc})")
        if "valid_arg" in s:
            va = s["valid_arg"]
            run.check(isinstance(va, Obj) and va.cls == "v" and va.fields.get("of", "primary") == "primary", "C19.SEL", fn.qual, "validity of the primary value",
                      "validity is not judged on the primary sample's value", node=fn.node, file=fn.file,
                      instance=f"{fn.qual}: validity judged on primary.value ({desc})")
        if "sync_args" in s:
            run.check(s["sync_args"] == ["primary", "fallback"], "C19.SEL", fn.qual, "sync(primary, fallback_fetcher)",
                      f"the fallback is synchronised against {s['sync_args']}", node=fn.node, file=fn.file,
                      instance=f"{fn.qual}: sync args ({desc})")


def check_err(run: Run, prog: Program) -> None:
    cls = prog.cls(MF)
    n = 0
    # terminal sites: (a) on the paths of fetch_next() while no fallback is configured: the error is the formula's
    # to report; (b) the fallback read after the primary already failed: nothing left to fall back to
    terminal_used = set()
    unit = fetch_unit(prog)
    absorbed = set(getattr(unit.node, "_inlined", ())) | {"fetch_next"}
    for m in [unit] + [x for x in cls.methods.values() if x.name not in absorbed]:
        parents = {}
        for node in ast.walk(m.node):
            for ch in ast.iter_child_nodes(node):
                parents[ch] = node
        for call in find_calls(m.node, lambda c: isinstance(c.func, ast.Attribute) and c.func.attr == "receive"):
            n += 1
            # enclosing try whose *body* contains the call
            cur: ast.AST = call
            handler = None
            in_handler = False
            while cur in parents:
                par = parents[cur]
                if isinstance(par, ast.Try) and any(cur is s or any(cur is x for x in ast.walk(s)) for s in par.body):
                    for h in par.handlers:
                        if h.type is not None and "ReceiverError" in u(h.type):
                            handler = h
                    break
                if isinstance(par, ast.ExceptHandler):
                    in_handler = True
                cur = par
            who = u(call.func.value)  # type: ignore[union-attr]
            if handler is None:
                key = m.name
                is_terminal = (m is unit and _only_without_fallback(prog, m, call)) \
                    or (m.name == "fetch_next_with_fallback" and in_handler)
                if is_terminal:
                    terminal_used.add(key)
                    run.ok("C19.ERR", f"{m.qual}: `{u(call)}` is a documented terminal site")
                else:
                    run.violation("C19.ERR", m.qual, call,
                                  f"`{u(call)}` is awaited outside any `try ... except ReceiverError`: a "
                                  "failing stream aborts the formula instead of switching sources",
                                  node=call, file=m.file)
                continue
            names = [u(e) for e in (handler.type.elts if isinstance(handler.type, ast.Tuple) else [handler.type])]
            only_rx = all(n_.split("[")[0].split(".")[-1] == "ReceiverError" for n_ in names)
            run.check(only_rx, "C19.ERR", m.qual, f"except {u(handler.type)} around {who}.receive(): stream errors only",
                      f"`except {u(handler.type)}` treats something other than a ReceiverError (a timeout, a cancellation, any "
                      "exception) like a failed stream: the source is switched although the stream is healthy", node=handler,
                      file=m.file, instance=f"{m.qual}: handler around {who}.receive() catches stream errors only")
            catchable = isinstance(handler.type, (ast.Name, ast.Attribute)) or (
                isinstance(handler.type, ast.Tuple) and all(isinstance(e, (ast.Name, ast.Attribute)) for e in handler.type.elts))
            run.check(catchable, "C19.ERR", m.qual, f"except {u(handler.type)} (around {who}.receive())",
                      f"`except {u(handler.type)}` does not name a class: a subscripted generic alias is not "
                      "catchable — when the stream actually fails Python raises `TypeError: catching "
                      "classes that do not inherit from BaseException is not allowed` from the except "
                      "clause itself, so the switch to the other source never happens",
                      node=handler, file=m.file, instance=f"{m.qual}: handler around {who}.receive() is catchable")
    # ... and a stream is read with receive() only: the async-iterator protocol (`anext(rx)`, `rx.__anext__()`, `async for`)
    # reports a closed stream as StopAsyncIteration -- Receiver.__anext__ converts the ReceiverStoppedError, receive()
    # converts it back -- which no ReceiverError handler sees
    proto = protocol_reads(cls)
    fact = anext_hides_stop()
    for m, x, how in proto:
        n += 1
        run.analysed(m.qual)
        run.violation("C19.ERR", m.qual, x,
                      f"`{u(x)[:70]}` reads a stream through the async-iterator protocol ({how}): {fact}, so the `except ReceiverError` "
                      "handler that switches to the other source does not see a CLOSED stream (other receiver errors are still "
                      "handled, and the sites that use receive() still switch: the sites no longer agree).  The StopAsyncIteration "
                      "escapes from fetch_next() on every evaluation, the formula never emits again although the other source "
                      "keeps delivering valid samples", node=x, file=m.file)
    if not proto:
        run.ok("C19.ERR", f"{cls.qual}: streams are read with receive() only, whose failure is a ReceiverError")
    if n < 4:
        raise AnalysisError(f"C19.ERR: only {n} receive() sites found in MetricFetcher")


def protocol_reads(cls: Any) -> list[tuple[Any, ast.AST, str]]:
    """(method, node, how) for every read of a stream through the async-iterator protocol in the methods of `cls`."""
    out: list[tuple[Any, ast.AST, str]] = []
    for m in cls.methods.values():
        for x in ast.walk(m.node):
            if isinstance(x, ast.Call) and isinstance(x.func, ast.Name) and x.func.id in ("anext", "aiter") and x.args:
                out.append((m, x, f"builtin {x.func.id}()"))
            elif isinstance(x, ast.Call) and isinstance(x.func, ast.Attribute) and x.func.attr in ("__anext__", "__aiter__"):
                out.append((m, x, f"{x.func.attr}()"))
            elif isinstance(x, ast.AsyncFor):
                out.append((m, x.iter, "async for"))
            elif isinstance(x, ast.comprehension) and x.is_async:
                out.append((m, x.iter, "async comprehension"))
    return out


def anext_hides_stop() -> str:
    """The library fact the protocol clause rests on, re-read from the installed frequenz.channels source when present:
    Receiver.__anext__ has a handler for ReceiverStoppedError that raises StopAsyncIteration."""
    from ..engine.resolver import find_installed_source

    frozen = "Receiver.__anext__ turns ReceiverStoppedError into StopAsyncIteration, which is not a ReceiverError (frequenz.channels 1.x)"
    path = find_installed_source("frequenz.channels._receiver")
    if path is None:
        return frozen
    try:
        tree = ast.parse(path.read_text())
    except (OSError, SyntaxError):
        return frozen
    for fn in (x for x in ast.walk(tree) if isinstance(x, ast.AsyncFunctionDef) and x.name == "__anext__"):
        for h in (x for x in ast.walk(fn) if isinstance(x, ast.ExceptHandler)):
            if h.type is not None and "ReceiverStoppedError" in u(h.type) and any(
                    isinstance(r, ast.Raise) and r.exc is not None and "StopAsyncIteration" in u(r.exc) for r in ast.walk(h)):
                return frozen + f" [read from {path.name}:{h.lineno}]"
    raise AnalysisError("frequenz.channels: Receiver.__anext__ no longer converts ReceiverStoppedError into StopAsyncIteration "
                        "(the C19.ERR protocol clause rests on that)")


def _only_without_fallback(prog: Program, m: Any, call: ast.Call) -> bool:
    """The call is executed only when no fallback is configured (whatever the spelling of that test)."""
    fl = Flow(prog, m)
    _is_fb, _aw, scenario, _recv = _fallback_model(fl)
    nid = fl.node_of(call)
    return fl.cfg.path(fl.cfg.entry, [nid], edge_ok=scenario(configured=True)) is None \
        and fl.cfg.path(fl.cfg.entry, [nid], edge_ok=scenario(configured=False)) is not None


def fallback_sync_name(prog: Program) -> str:
    """The fallback synchronisation, bound by role: the private coroutine method that
    fetch_next_with_fallback() hands the freshly received primary sample to (the name is only a hint)."""
    cls = prog.cls(MF)
    if SYNC_HINT in cls.methods:
        return SYNC_HINT
    fw = Flow(prog, prog.func(f"{MF}.fetch_next_with_fallback"))
    prim = [c for _n, c in fw.calls(lambda c: method_call(c, "self._stream", "receive"))]
    cands = set()
    for nid, c in fw.calls(lambda c: isinstance(c.func, ast.Attribute) and u(c.func.value) == "self" and c.func.attr.startswith("_")
                           and c.func.attr in cls.methods and cls.methods[c.func.attr].is_async):
        if any(fw.is_node_any(a, prim, nid) for a in list(c.args) + [k.value for k in c.keywords]):
            cands.add(c.func.attr)  # type: ignore[union-attr]
    if len(cands) != 1:
        raise AnalysisError(f"{MF}: no method plays the role of the fallback synchronisation (candidates: {sorted(cands)})")
    return cands.pop()


def fetch_unit(prog: Program) -> Any:
    """MetricFetcher.fetch_next() as one unit of behaviour: every private callee read in (`_fetch_next`,
    whatever it is called, however it is split, or already inlined), except the shared validity predicate."""
    return inline_all(prog, prog.func(f"{MF}.fetch_next"), stop={validity_name(prog) or VALID_HINT})


def _fallback_model(fl: Flow) -> tuple[Any, Any, Any, list[tuple[int, ast.Call]]]:
    """Atoms of MetricFetcher._fetch_next: is a fallback configured / running, is the received primary valid."""
    def is_fb(e: ast.AST, nid: int | None) -> bool:
        o = fl.origin(e, nid)
        return bool(o) and all(q.kind == "expr" and u(q.node) == "self._fallback" for q in o)

    def awaited(c: ast.Call) -> bool:
        return isinstance(fl._parent.get(id(c)), ast.Await)

    recv = [(nid, c) for nid, c in fl.calls(lambda c: method_call(c, "self._stream", "receive")) if awaited(c)]
    vname = validity_name(fl.prog)

    memo: dict[Any, Any] = {}
    recv_nodes = {nid for nid, _c in recv}

    def scenario(normal_only: bool = False, received: bool | None = None, **assign: Any) -> Any:
        """Edge filter of the scenario: `configured` / `running` / `valid` decide the branches that test them;
        `received` says whether the primary receive returned (True) or raised (False).  Flags computed from
        these conditions are followed through the definitions the scenario can execute."""
        key = (normal_only, received, tuple(sorted(assign.items())))
        if key in memo:
            return memo[key]

        def atom(e: ast.AST, nid: int) -> bool | None:
            if isinstance(e, ast.Attribute) and e.attr == "is_running" and is_fb(e.value, nid):
                return assign.get("running")
            ta = truth_atom(e)
            if ta is not None and is_fb(ta[0], nid):
                cfgd = assign.get("configured")
                return None if cfgd is None else ((not cfgd) if ta[1] else cfgd)
            if ta is not None and isinstance(ta[0], ast.Name):
                o = fl.origin(ta[0], nid, scenario=lambda _f: memo[key])
                if o and all(q.kind == "expr" and any(unawait(q.node) is c for _n, c in recv) for q in o):
                    return not ta[1]  # what receive() returned is a sample, never None
            if isinstance(e, (ast.Name, ast.Attribute)) and is_fb(e, nid):
                return assign.get("configured")
            def is_value(x: ast.AST) -> bool:
                """`x` denotes <the received primary sample>.value"""
                o = fl.origin1(x, nid)
                if o is None or o.kind != "expr" or not (isinstance(o.node, ast.Attribute) and o.node.attr == "value"):
                    return False
                vo = fl.origin(o.node.value, o.nid, scenario=lambda _f: memo[key])
                return bool(vo) and all(q.kind == "expr" and any(unawait(q.node) is c for _n, c in recv) for q in vo)

            enc = assign.get("valid")  # True | "none" | "nan" | "inf" (the three encodings of a missing value)
            arg = is_validity_call(e, vname)
            if arg is not None and is_value(arg):
                return None if enc is None else enc is True
            if enc is not None:
                # the same test written in line: judged leaf by leaf for the encoding at hand
                if ta is not None and is_value(ta[0]):
                    return (enc == "none") if ta[1] else (enc != "none")
                if isinstance(e, ast.Call) and isinstance(e.func, ast.Attribute) and e.func.attr in ("isnan", "isinf") \
                        and not e.args and is_value(e.func.value):
                    if enc == "none":
                        return None  # would raise on None: only reachable if the None test was wrong -- undecided
                    return enc == ("nan" if e.func.attr == "isnan" else "inf")
            return None

        full_atom = lifted(fl, atom, scenario=lambda _f: memo[key])
        base = pruned(fl.cfg, full_atom, normal_only=normal_only)

        def ok(a: int, b: int, lab: str) -> bool:
            if received is not None and a in recv_nodes and lab.startswith("exc:") == received:
                return False
            return base(a, b, lab)

        ok.atom = full_atom  # type: ignore[attr-defined]  # the scenario's verdict on a condition evaluated at a node
        memo[key] = ok
        return ok

    return is_fb, awaited, scenario, recv


def check_plain_primary(run: Run, prog: Program, rule: str) -> None:
    """Without a fallback configured fetch_next() is the plain primary read: nothing of the fallback is
    dereferenced (that would raise on None) and the call can return.  Shared with C06 (a fetch that raises
    in the common configuration drops every round)."""
    raw = prog.func(f"{MF}.fetch_next")
    fl = Flow(prog, fetch_unit(prog))
    cfg = fl.cfg
    is_fb, _aw, scenario, _recv = _fallback_model(fl)
    unconfigured = scenario(configured=False)

    def evaluated(x: ast.AST, nid: int) -> bool:
        """Without a fallback, is the sub-expression x of node nid evaluated at all?  (`fb is not None and fb.is_running`,
        `fb.name if fb else ""`: an earlier operand / the test of the conditional expression may shield it.)"""
        for test, need in expr_guards(fl, x):
            v = tri(test, lambda e: unconfigured.atom(e, nid))
            if v is not None and v != need:
                return False
        return True

    derefs = [n.id for n in cfg.nodes if n.ast is not None and n.id in fl.live and any(
        isinstance(x, ast.Attribute) and isinstance(x.ctx, ast.Load) and is_fb(x.value, n.id) and evaluated(x, n.id)
        for part in own_parts(n) if not isinstance(n.ast, (ast.FunctionDef, ast.AsyncFunctionDef)) for x in ast.walk(part))]
    handed = [nid for nid, c in fl.calls(lambda c: method_call(c, "self", "fetch_next_with_fallback"))]
    wit = cfg.path(cfg.entry, derefs + handed, edge_ok=unconfigured)
    plain = cfg.path(cfg.entry, [cfg.exit], edge_ok=scenario(normal_only=True, configured=False))
    run.check(wit is None and plain is not None, rule, raw.qual, "if self._fallback is None: primary only",
              "the fallback is dereferenced without checking that one is configured", node=raw.node, file=raw.file,
              path=cfg.describe_path(wit))


def check_lazy(run: Run, prog: Program) -> None:
    """Decided per scenario on the CFG of _fetch_next (private helpers spliced in): the conditions
    `self._fallback is None`, `self._fallback.is_running` and `self._is_value_valid(<received>.value)`
    are the atoms; whatever their spelling (negated, named by a local, early return or else-branch),
    a scenario cuts the branches it cannot take."""
    raw = prog.func(f"{MF}.fetch_next")
    run.analysed(raw.qual)
    unit = fetch_unit(prog)
    for nm in sorted(getattr(unit.node, "_inlined", ())):
        run.analysed(f"{MF}.{nm}")
    fl = Flow(prog, unit)
    cfg = fl.cfg
    normal = lambda a, b, lab: not lab.startswith("exc:")  # noqa: E731
    next_stores = [n.id for n in cfg.nodes if n.id in fl.live and any(
        isinstance(t, ast.Attribute) and t.attr == "_next_value" and u(t.value) == "self" for t in fl._writes(n.id))]

    def returned(r: int, scn: Any = None) -> list[Any]:
        """Origins of what a return statement hands back (read through `self._next_value` when that is returned)."""
        rv = cfg.nodes[r].ast.value  # type: ignore[union-attr]
        if rv is None:
            return []
        if u(rv) == "self._next_value" and len(next_stores) == 1 and cfg.path(cfg.entry, [r], avoid=next_stores) is None:
            st_ = cfg.nodes[next_stores[0]].ast
            return fl.origin(st_.value, next_stores[0], scenario=scn)  # type: ignore[union-attr]
        return fl.origin(rv, r, scenario=scn)

    is_fb, awaited, scenario, recv = _fallback_model(fl)
    starts = [nid for nid, c in fl.calls(lambda c: isinstance(c.func, ast.Attribute) and c.func.attr == "start")
              if is_fb(c.func.value, nid)]  # type: ignore[union-attr]
    if len(starts) != 1:
        run.violation("C19.LAZY", raw.qual, "self._fallback.start()", f"expected one start site, found {len(starts)}",
                      node=raw.node, file=raw.file)
        return
    st = starts[0]
    sync = [nid for nid, c in fl.calls(lambda c: method_call(c, "self", "fetch_next_with_fallback"))
            if awaited(c) and len(c.args) + len(c.keywords) == 1 and is_fb((c.args + [k.value for k in c.keywords])[0], nid)]
    running_reads = [n.id for n in cfg.nodes if n.ast is not None and n.id in fl.live and any(
        isinstance(x, ast.Attribute) and x.attr == "is_running" for part in own_parts(n) for x in ast.walk(part))]

    # --- running: never (re)started, always the synchronised fetch
    run_e = scenario(configured=True, running=True)
    wit = cfg.path(cfg.entry, [st], edge_ok=run_e)
    wit2 = cfg.path(cfg.entry, [cfg.exit], avoid=sync, edge_ok=scenario(normal_only=True, configured=True, running=True))
    ok = bool(running_reads) and bool(sync) and wit is None and wit2 is None
    run.check(ok, "C19.LAZY", raw.qual, "start() only while not running; running -> synchronised fetch",
              "the fallback can be (re)started while it is already running, or a running fallback is "
              "not consulted", node=raw.node, file=raw.file, path=cfg.describe_path(wit or wit2))
    # --- not running: the received primary sample is judged by the shared validity predicate
    idle = scenario(configured=True, running=False)
    prim = [(nid, c) for nid, c in recv if cfg.path(cfg.entry, [nid], edge_ok=idle) is not None]
    after = [m for nid, _c in prim for m, lab in cfg.succ[nid] if normal(nid, m, lab)]
    valid_e = scenario(normal_only=True, received=True, configured=True, running=False, valid=True)
    invalid_es = [scenario(normal_only=True, received=True, configured=True, running=False, valid=enc) for enc in ("none", "nan", "inf")]
    # an invalid sample cannot be returned without starting the fallback -- unless the branch is decided by
    # something other than _is_value_valid(<received>.value)
    wit = None
    for invalid_e in invalid_es:
        for m in after:
            wit = wit or (cfg.path(m, [cfg.exit], avoid=[st], edge_ok=invalid_e) if m != st else None)
    ok = len(prim) == 1 and bool(after) and wit is None
    run.check(ok, "C19.LAZY", raw.qual, "validity of the received primary decides",
              "the decision to start the fallback does not use the shared validity predicate "
              "_is_value_valid(primary.value) (None / NaN / inf): primaries that are missing in another "
              "encoding never start the fallback", node=raw.node, file=raw.file, path=cfg.describe_path(wit))
    if ok:
        good = cfg.reachable(after, edge_ok=valid_e)
        rets = [r for r in fl.returns() if r in good]
        valid_scn = lambda _f: scenario(received=True, configured=True, running=False, valid=True)  # noqa: E731

        def is_prim(r: int) -> bool:
            o = returned(r, valid_scn)
            return bool(o) and all(q.kind == "expr" and unawait(q.node) is prim[0][1] for q in o)

        run.check(st not in good and bool(rets) and all(is_prim(r) for r in rets),
            "C19.LAZY", raw.qual, "valid primary -> returned, fallback not started",
            "a valid primary sample starts the fallback (or is not returned)", node=raw.node, file=raw.file)
        run.check(all(st in cfg.reachable(after, edge_ok=e_) for e_ in invalid_es), "C19.LAZY", raw.qual, "invalid primary -> fallback started",
                  "an invalid primary sample does not start the fallback", node=raw.node, file=raw.file)
    # a failing primary (handler path) always reaches start()
    for r, _c in prim:
        for m, lab in cfg.succ[r]:
            if lab == "exc:E" and cfg.nodes[m].kind == "handler":
                wit = cfg.path(m, [cfg.exit], avoid=[st], edge_ok=scenario(received=False, configured=True, running=False))
                run.check(st in cfg.reachable([m]) and wit is None, "C19.LAZY", raw.qual, "failed primary -> fallback started",
                          "a failing primary stream does not start the fallback", node=cfg.nodes[m].ast, file=raw.file,
                          path=cfg.describe_path(wit))
    # no fallback configured: plain primary, the fallback is never dereferenced
    check_plain_primary(run, prog, "C19.LAZY")
    # what apply() later pushes (self._next_value) is the sample this very call fetched, and it is what is returned
    def is_source(e: ast.AST | None) -> bool:
        c = unawait(e)
        return isinstance(e, ast.Await) and isinstance(c, ast.Call) and (
            method_call(c, "self._stream", "receive") or method_call(c, "self", "fetch_next_with_fallback"))

    ok = len(next_stores) == 1
    if ok:
        st_node = cfg.nodes[next_stores[0]].ast
        val = getattr(st_node, "value", None)
        ok = isinstance(st_node, (ast.Assign, ast.AnnAssign)) and val is not None \
            and cfg.path(cfg.entry, [cfg.exit], avoid=next_stores, edge_ok=normal) is None
        if ok:
            so = fl.origin(val, next_stores[0])
            ok = bool(so) and all(q.kind == "expr" and (is_source(q.node) or (isinstance(q.node, ast.Constant) and q.node.value is None))
                                  for q in so) and any(is_source(q.node) for q in so)
            for r in fl.returns():
                ok = ok and names_eq(returned(r), so)
            ok = ok and bool(fl.returns())
    run.check(ok, "C19.LAZY", raw.qual, "self._next_value = <the sample fetched by this call>, and that is returned",
              "the fetched sample is not what apply() later pushes", node=raw.node, file=raw.file)


def check_sync(run: Run, prog: Program, rule: str = "C19.SYNC") -> None:
    """Stated on the synchronisation routine as one unit of behaviour (private helpers read in: the guarded read of the
    fallback stream may live in a helper of its own) and on *values*, not spellings: "the cached fallback sample" is the
    attribute itself or a local that holds the attribute's current value whenever the statement is reached
    (AliasStates: `latest = self._latest_fallback_sample` ... `latest = await self._read_and_remember(..)`)."""
    raw = prog.func(f"{MF}.{fallback_sync_name(prog)}")
    run.analysed(raw.qual)
    vname = validity_name(prog)
    fn = inline_all(prog, raw, stop=({vname} if vname else set()))
    for nm in sorted(getattr(fn.node, "_inlined", ())):
        run.analysed(f"{MF}.{nm}")
    fl = Flow(prog, fn)
    cfg = fl.cfg
    if len(fn.params) < 3:
        raise AnalysisError(f"{fn.qual}: expected (self, primary sample, fallback fetcher)")
    prim, fb = fn.params[1], fn.params[2]
    ATTR = "_latest_fallback_sample"
    LATEST = f"self.{ATTR}"
    PTS = f"{prim}.timestamp"
    alias = AliasStates(fl, ATTR)

    def is_param(e: ast.AST, nid: int | None, name: str, flow: Flow | None = None) -> bool:
        """`e` denotes this function's parameter `name` (also from inside a private helper it was passed to)."""
        o = (flow or fl).origin(e, nid)
        return bool(o) and all(q.kind == "param" and q.name == name and q.flow is fl for q in o)

    def roles(test: ast.AST, nid: int) -> dict[str, str]:
        """Operands that denote the primary sample's timestamp (directly or through a local; the
        parameter is never re-bound) are read as `<primary>.timestamp`.  The cached fallback sample is
        mutable state: a direct read of it counts, and a local that holds its current value at this very node."""
        out: dict[str, str] = {}
        for x in ast.walk(test):
            if isinstance(x, (ast.Name, ast.Attribute)) and u(x) != PTS:
                if isinstance(x, ast.Attribute) and x.attr == "timestamp" and isinstance(x.value, ast.Name) and alias.same(x.value, nid):
                    out[u(x)] = f"{LATEST}.timestamp"
                    continue
                o = fl.origin(x, nid)
                if o and all(q.kind == "expr" and isinstance(q.node, ast.Attribute) and q.node.attr == "timestamp"
                             and is_param(q.node.value, q.nid, prim) for q in o):  # type: ignore[arg-type]
                    out[u(x)] = PTS
        return out

    # reads of the fallback stream: directly here, or inside a private helper the fallback fetcher is handed to
    def stream_calls(flow: Flow) -> list[tuple[int, ast.Call]]:
        return flow.calls(lambda c: isinstance(c.func, ast.Attribute) and c.func.attr in ("receive", "fetch_next", "consume"))

    sites: list[tuple[Flow, int, ast.Call]] = []   # every textual receive on the fallback
    foreign: list[ast.Call] = []                   # ... and on anything else
    recv: list[int] = []                           # nodes of this function at which the fallback is read
    for nid, c in stream_calls(fl):
        if is_param(c.func.value, nid, fb):  # type: ignore[union-attr]
            sites.append((fl, nid, c))
            recv.append(nid)
        else:
            foreign.append(c)
    seen_helpers: set[int] = set()
    for nid, c in fl.calls(lambda c: True):
        ch = fl.child(c, nid)
        if ch is None:
            continue
        inner = [(n2, c2) for n2, c2 in stream_calls(ch)]
        if any(is_param(c2.func.value, n2, fb, ch) for n2, c2 in inner):  # type: ignore[union-attr]
            recv.append(nid)
        if id(ch.fn.node) in seen_helpers:
            continue
        seen_helpers.add(id(ch.fn.node))
        for n2, c2 in inner:
            if is_param(c2.func.value, n2, fb, ch):  # type: ignore[union-attr]
                sites.append((ch, n2, c2))
            else:
                foreign.append(c2)
    recv = sorted(set(recv))
    if not sites:
        raise AnalysisError(f"{fn.qual}: no read of the fallback stream found")
    if len(recv) < 2:
        run.violation(rule, fn.qual, "first-use read and catch-up read of the fallback",
                      f"the fallback stream is read at {len(recv)} place(s) only: both the first use (nothing cached yet) and "
                      "the catch-up loop (cached sample older than the primary) must read it", node=fn.node, file=fn.file)
        return

    def kept_at_once(sflow: Flow, r: int, call: ast.Call) -> bool:
        """The sample read at node r is in the cache before anything else can happen: the statement stores the awaited
        read in the attribute, or binds it to a local and on every way on from there (normal completion) that very value
        is in the attribute before the function is left, anything is awaited or the stream is read again."""
        s = sflow.cfg.nodes[r].ast
        if sflow.cfg.nodes[r].kind != "stmt" or not isinstance(s, (ast.Assign, ast.AnnAssign)) or not isinstance(s.value, ast.Await) \
                or s.value.value is not call:
            return False
        tgts = s.targets if isinstance(s, ast.Assign) else [s.target]
        if not all(isinstance(t, ast.Name) or u(t) == LATEST for t in tgts):
            return False
        scfg = sflow.cfg
        obl = AliasStates(sflow, ATTR, mark=r)
        stops = [scfg.exit] + [n.id for n in scfg.nodes if n.id in sflow.live and n.ast is not None and scfg.is_await(n.id)]
        return not any(obl.pending(x) for x in stops)

    for sflow, r, _c in sites:
        s = sflow.cfg.nodes[r].ast
        ok = kept_at_once(sflow, r, _c)
        direct = isinstance(sflow._parent.get(id(_c)), ast.Await)
        run.check(direct, rule, fn.qual, f"await {u(_c)} (awaited as it is)",
                  f"the read of the fallback stream is not awaited directly (`{u(s)[:80]}`): wrapped in a timeout / shield / task it "
                  "can be abandoned while the fallback sample of this timestamp is still on its way -- the term then reports the "
                  "missing primary although the fallback is valid, and the late sample desynchronises the catch-up",
                  node=s, file=fn.file, instance=f"{fn.qual}: direct await of {u(_c)} at line {getattr(s, 'lineno', 0)}")
        run.check(ok, rule, fn.qual, s,
                  "a sample read from the fallback stream is not stored in _latest_fallback_sample at once: "
                  "if this call returns early the sample is lost and the fallback can never catch up with "
                  "the primary (unbounded start-up delay)", node=s, file=fn.file)
    # primary stream is never touched here
    run.check(not foreign, rule, fn.qual, "only the fallback stream is advanced",
              "the synchronisation advances something other than the fallback stream", node=fn.node, file=fn.file)
    older = [t for t in cfg.nodes if t.kind == "test" and t.ast is not None and t.id in fl.live
             and canon_total(t.ast, subst=roles(t.ast, t.id)) == ("<", PTS, f"{LATEST}.timestamp")]
    loops = [w for w in cfg.nodes if w.kind == "while" and w.id in fl.live
             and canon_total(w.ast.test, subst=roles(w.ast.test, w.id)) == ("<", f"{LATEST}.timestamp", PTS)]  # type: ignore[union-attr]
    ok = len(older) == 1 and len(loops) == 1
    run.check(ok, rule, fn.qual, "primary older -> None; loop while primary newer",
              "the three-way relation of primary vs fallback timestamp is not handled as: older -> None, "
              "newer -> advance the fallback, equal -> use it", node=fn.node, file=fn.file)
    if not ok:
        return
    t, w = older[0], loops[0]
    # the fallback stream is read repeatedly only by the catch-up loop, i.e. only while the timestamp comparison says the
    # cached sample is older than the primary: no other cycle (a `while not valid(..)`, a `while True` with a break on the
    # sample's value, a retry loop) contains a read of the fallback
    spin = None
    for sflow, r, _c in sites:
        scfg = sflow.cfg
        cyc = scfg.path(r, [r], include_src=False, avoid=([w.id] if sflow is fl else []))
        if cyc is not None:
            spin = spin or (sflow, r, cyc)
    for r in recv:
        cyc = cfg.path(r, [r], include_src=False, avoid=[w.id])
        if cyc is not None:
            spin = spin or (fl, r, cyc)
    heads = []
    if spin is not None:
        heads = [spin[0].cfg.nodes[n_] for n_, _l in spin[2] if spin[0].cfg.nodes[n_].kind in ("while", "for")]
    head_txt = (u(heads[0].ast.test) if heads and heads[0].kind == "while" else "")  # type: ignore[union-attr]
    run.check(spin is None, rule, fn.qual, "the fallback is read repeatedly only while the primary is newer (timestamps only)",
              (f"`{u(spin[0].cfg.nodes[spin[1]].ast)[:80]}` sits in a loop" + (f" (`while {head_txt[:80]}`)" if head_txt else "")
               + " that is not the catch-up loop `while <primary>.timestamp > <cached fallback>.timestamp`: how many samples are taken from the "
               "fallback stream in one round then depends on something other than the two timestamps (the sample's value being "
               "valid, a retry count, ...).  Such a loop waits: while the fallback's samples are missing as well the fetch does not "
               "return, the whole formula emits nothing -- also when the primary has recovered in the meantime and is perfectly "
               "valid -- and it reads the fallback AHEAD of the primary, so that what it finally returns belongs to a later timestamp.  "
               "The synchronisation may only compare timestamps; an invalid fallback sample of the right timestamp is the answer "
               "for that timestamp (the term is then missing)") if spin is not None else "",
              node=(spin[0].cfg.nodes[spin[1]].ast if spin is not None else fn.node), file=fn.file,
              path=(spin[0].cfg.describe_path(spin[2]) if spin is not None else None))
    rets_val =[n.id for n in cfg.nodes if isinstance(n.ast, ast.Return) and n.kind == "stmt" and n.id in fl.live
                and n.ast.value is not None and alias.same(n.ast.value, n.id)]
    run.check(len(rets_val) == 1, rule, fn.qual, f"return {LATEST}", "the synchronised sample is not returned",
              node=fn.node, file=fn.file)
    # `older` test on every call that can return a sample, and before the catch-up loop
    wit = cfg.path(cfg.entry, rets_val + [w.id], avoid=[t.id])
    run.check(wit is None, rule, fn.qual, "older-test reached on every call",
              "a fallback sample can be returned / the catch-up loop entered without testing whether the "
              "primary sample is older than the cached fallback sample: a cached future fallback sample "
              "then replaces the primary and the output jumps ahead in time", node=t.ast, file=fn.file,
              path=cfg.describe_path(wit))
    t_true = [m for m, lab in cfg.succ[t.id] if lab == "true"]
    ok = bool(t_true) and isinstance(cfg.nodes[t_true[0]].ast, ast.Return) and u(cfg.nodes[t_true[0]].ast.value) == "None"  # type: ignore[union-attr]
    run.check(ok, rule, fn.qual, "primary older -> return None", "an older primary does not yield None",
              node=t.ast, file=fn.file)
    # value return only via loop exit (timestamps equal)
    preds = cfg.pred[rets_val[0]] if rets_val else []
    ok = all(a == w.id and lab == "false" for a, lab in preds)
    run.check(ok, rule, fn.qual, "sample returned only when the loop test is false",
              "the fallback sample is returned while it may still be older than the primary",
              node=fn.node, file=fn.file)
    # loop body: receive into LATEST, error -> None
    body = cfg.reachable([m for m, lab in cfg.succ[w.id] if lab == "true"], avoid=[w.id])
    ok = any(r in body for r in recv)
    run.check(ok, rule, fn.qual, "catch-up loop advances the fallback", "the catch-up loop does not read the "
              "fallback stream", node=w.ast, file=fn.file)
    # first use: while nothing has been read from the fallback yet (the cache is empty when the routine is entered), it
    # is read before anything is compared / returned; with a cached sample the older-test is reached without a read.
    # Both are explored on the states of the cache and its mirrors, so it does not matter how the emptiness is tested
    # (on the attribute, on a local copy, through a flag)
    empty = AliasStates(fl, ATTR, init="none", avoid=recv)
    hit = [x for x in [t.id] + rets_val if empty.reached(x)]
    wit = cfg.path(cfg.entry, hit, avoid=recv) if hit else None
    filled = AliasStates(fl, ATTR, init="some", avoid=[r for r in recv if cfg.nodes[r].kind == "stmt"])
    run.check(not hit and filled.reached(t.id), rule, fn.qual, f"first use: {LATEST} is None -> fetch",
              "the first fallback sample is not fetched lazily", node=fn.node, file=fn.file, path=cfg.describe_path(wit))



def check_esync(run: Run, prog: Program) -> None:
    """C19.ESYNC ("... taken from the sum of its fallback components *for the same timestamp*"): a sample of the
    fallback stream is handed to the round only after its timestamp was related to a reference of that round.
    The synchronisation routine does that against the primary sample (C19.SYNC); a sample that comes straight
    from `<fallback>.receive()` and is returned without any read of the fetcher's synchronisation state (the
    attribute the synchronisation keeps its last fallback sample in) and without any timestamp comparison on the
    way is *unsynchronised*: whichever sample the fallback engine happens to deliver first is combined with the
    other terms' samples of another timestamp, and -- one receive per round from then on -- stays shifted for ever.
    The finding is reported per path condition (primary failed / primary received), not per spelling."""
    raw = prog.func(f"{MF}.fetch_next_with_fallback")
    run.analysed(raw.qual)
    sname, vname = fallback_sync_name(prog), validity_name(prog)
    fn = inline_all(prog, raw, stop={sname} | ({vname} if vname else set()))
    fl = Flow(prog, fn)
    cfg = fl.cfg
    if len(fn.params) < 2:
        raise AnalysisError(f"{raw.qual}: expected (self, fallback fetcher)")
    fb = fn.params[1]
    # the synchronisation state, by role: what the synchronisation routine stores fallback samples in
    sfn = prog.func(f"{MF}.{sname}")
    cls = prog.cls(MF)
    seen_fns = [sfn]
    for c in find_calls(sfn.node, lambda c: isinstance(c.func, ast.Attribute) and u(c.func.value) == "self" and c.func.attr in cls.methods):
        seen_fns.append(cls.methods[c.func.attr])  # type: ignore[union-attr]
    # every attribute of the fetcher the synchronisation (or a private helper of it) stores
    state = {t.attr for f_ in seen_fns for t in ast.walk(f_.node)
             if isinstance(t, ast.Attribute) and isinstance(t.ctx, ast.Store) and u(t.value) == "self"}

    def is_fb(e: ast.AST, nid: int | None) -> bool:
        o = fl.origin(e, nid)
        return bool(o) and all(q.kind == "param" and q.name == fb for q in o)

    raw_reads = [(nid, c) for nid, c in fl.calls(lambda c: isinstance(c.func, ast.Attribute) and c.func.attr in ("receive", "consume"))
                 if is_fb(c.func.value, nid)]  # type: ignore[union-attr]
    evidence = set()
    for n in cfg.nodes:
        if n.ast is None or n.id not in fl.live:
            continue
        for part in own_parts(n):
            for x in ast.walk(part):
                if isinstance(x, ast.Attribute) and x.attr in state and u(x.value) == "self":
                    evidence.add(n.id)
                elif isinstance(x, ast.Compare) and any(isinstance(y, ast.Attribute) and y.attr == "timestamp" for y in ast.walk(x)):
                    evidence.add(n.id)
                elif isinstance(x, ast.Call) and isinstance(x.func, ast.Attribute) and x.func.attr == sname and u(x.func.value) == "self":
                    evidence.add(n.id)
    normal = lambda a, b, lab: not lab.startswith("exc:")  # noqa: E731
    n_inst = 0
    resync: tuple[bool, str] | None = None
    for r in fl.returns():
        val = cfg.nodes[r].ast.value if isinstance(cfg.nodes[r].ast, ast.Return) else None  # type: ignore[union-attr]
        if val is None:
            continue
        for q in fl.origin(val, r):
            if q.kind != "expr":
                continue
            hit = [(nid, c) for nid, c in raw_reads if unawait(q.node) is c]
            if not hit:
                continue
            d = hit[0][0]
            n_inst += 1
            failed = cfg.path(cfg.entry, [d], edge_ok=normal) is None
            cond = "primary failed" if failed else "primary received"
            unsync = cfg.path(cfg.entry, [d], avoid=evidence - {d}) is not None and (
                d == r or cfg.path(d, [r], avoid=evidence - {d, r}, include_src=False) is not None) \
                and d not in evidence and r not in evidence
            if unsync:
                if resync is None:
                    resync = resyncs_on_divergence(prog)
                    run.analysed(f"{EVAL_CLS}.apply")
                if resync[0]:
                    run.ok("C19.ESYNC", f"{MF}: the fallback's next sample is returned unsynchronised ({cond}), and the consumer "
                           f"re-aligns: {resync[1]}")
                    continue
                run.violation("C19.ESYNC", MF, f"the fallback's next sample is returned unsynchronised ({cond})",
                              f"`{u(cfg.nodes[r].ast)}` hands the round whatever sample the fallback stream delivers next: on this path "
                              f"({cond}) nothing reads the synchronisation state ({', '.join('self.' + a for a in sorted(state))}) or "
                              "compares a timestamp, so when the fallback has not been synchronised before (the primary stream "
                              "fails while the fallback engine is still starting, or it failed from the start) the term's value "
                              "belongs to another timestamp than the other terms' values of the round -- and stays shifted by "
                              "the same number of steps for ever (one receive per round); and the consumer does not make up for "
                              f"it: {resync[1]}",
                              node=cfg.nodes[r].ast, file=raw.file)
            else:
                run.ok("C19.ESYNC", f"{MF}: a raw fallback sample is returned only after the synchronisation state was consulted ({cond})")
    run.check(True, "C19.ESYNC", MF, "fallback samples reach the round through the synchronisation or a state check",
              "", node=raw.node, file=raw.file, instance=f"{MF}: {len(raw_reads)} direct fallback read(s), {n_inst} returned as read")


def check_keep(run: Run, prog: Program) -> None:
    """C19.KEEP ("... and returns to the primary when it recovers"): which stream is the primary and which fetcher
    the fallback is decided when the MetricFetcher is built; no later code path -- in particular no error handler --
    re-binds `_stream` or `_fallback` (that would make a transient primary error, or any other event, permanent)."""
    cls = prog.cls(MF)
    init = cls.methods.get("__init__")
    if init is None:
        raise AnalysisError(f"{MF}.__init__ not found")
    run.analysed(init.qual)
    for attr in ("_stream", "_fallback"):
        n_init = sum(1 for x in ast.walk(init.node) if isinstance(x, ast.Attribute) and isinstance(x.ctx, ast.Store)
                     and x.attr == attr and u(x.value) == "self")
        if n_init < 1:
            raise AnalysisError(f"{MF}.__init__ does not bind self.{attr}")
        writers = []
        for m in cls.methods.values():
            if m is init:
                continue
            for x in ast.walk(m.node):
                if isinstance(x, ast.Attribute) and isinstance(x.ctx, (ast.Store, ast.Del)) and x.attr == attr and u(x.value) == "self":
                    writers.append((m, x))
                elif isinstance(x, ast.Call) and u(x.func) in ("setattr", "delattr") and len(x.args) >= 2 and attr in u(x.args[1]):
                    writers.append((m, x))
        run.check(not writers, "C19.KEEP", cls.qual, f"self.{attr} is bound in __init__ only",
                  f"self.{attr} is re-bound in " + ", ".join(sorted({m.name for m, _x in writers})) + ": after that the term no "
                  "longer reads its primary (or no longer has its fallback), so it cannot return to the primary when it recovers",
                  node=(writers[0][1] if writers else cls.node), file=cls.module.rel)
        for m, _x in writers:
            run.analysed(m.qual)


def check_buf(run: Run, prog: Program) -> None:
    fn = prog.func(f"{FFM}:FallbackFormulaMetricFetcher.start")
    run.analysed(fn.qual)
    calls = find_calls(fn.node, lambda c: isinstance(c.func, ast.Attribute) and c.func.attr == "new_receiver")
    ok = len(calls) == 1 and not calls[0].args and not calls[0].keywords
    run.check(ok, "C19.BUF", fn.qual, calls[0] if calls else "new_receiver()",
              "the fallback engine's receiver is created with a non-default capacity: fallback samples "
              "that arrive before the primary sample of their timestamp is consumed can be dropped",
              node=fn.node, file=fn.file)
    fl = Flow(prog, spliced(prog, fn))
    gens = fl.calls(lambda c: method_call(c, "self._formula_generator", "generate") and not c.args and not c.keywords)
    nrx = fl.calls(lambda c: isinstance(c.func, ast.Attribute) and c.func.attr == "new_receiver")
    ok = len(gens) == 1 and len(nrx) == 1

    def stores(attr: str) -> list[tuple[int, ast.AST]]:
        out = []
        for n in fl.cfg.nodes:
            a = n.ast
            if n.id in fl.live and n.kind == "stmt" and isinstance(a, (ast.Assign, ast.AnnAssign)) and a.value is not None:
                tgts = a.targets if isinstance(a, ast.Assign) else [a.target]
                if any(isinstance(t, ast.Attribute) and t.attr == attr and u(t.value) == "self" for t in tgts):
                    out.append((n.id, a.value))
        return out

    if ok:
        gen = gens[0][1]
        rn, rc = nrx[0]
        eng_st, rx_st = stores("_formula_engine"), stores("_receiver")
        base = rc.func.value  # type: ignore[union-attr]
        # the receiver is taken from the engine generated here: either the local holding it or the
        # attribute it was just stored in
        via_attr = u(base) == "self._formula_engine" and len(eng_st) == 1 and fl.cfg.path(
            fl.cfg.entry, [rn], avoid=[eng_st[0][0]]) is None
        ok = len(eng_st) == 1 and fl.is_node(eng_st[0][1], gen, eng_st[0][0]) \
            and (via_attr or fl.is_node(base, gen, rn)) \
            and len(rx_st) == 1 and fl.is_node(rx_st[0][1], rc, rx_st[0][0]) \
            and fl.cfg.path(fl.cfg.entry, [fl.cfg.exit], avoid=[rx_st[0][0]], edge_ok=lambda a, b, lab: not lab.startswith("exc:")) is None
    run.check(ok, "C19.BUF", fn.qual, "engine generated lazily in start()", "start() does not create the "
              "fallback engine and its receiver", node=fn.node, file=fn.file)
    ir = prog.func(f"{FFM}:FallbackFormulaMetricFetcher.is_running")
    run.analysed(ir.qual)
    rets = [r for r in body_walk(ir.node) if isinstance(r, ast.Return)]
    run.check(len(rets) == 1 and canon(rets[0].value) == ("isnot", frozenset({"self._receiver", "None"})),  # type: ignore[arg-type]
              "C19.LAZY", ir.qual, "is_running == receiver exists",
              "is_running does not reflect whether start() has created the receiver", node=ir.node, file=ir.file)



# ---------------------------------------------------------------------------------------------
# fallback wiring at the construction sites (formula generators)
def _self_callees(prog: Program, cls: Any, fn: Any, depth: int = 4) -> list[Any]:
    """`fn` and the methods reached from it through `self.<m>(..)` calls, resolved on `cls` (so an inherited template
    method sees the concrete class's hooks)."""
    out, seen, todo = [], set(), [(fn, 0)]
    while todo:
        f, d = todo.pop()
        if id(f.node) in seen:
            continue
        seen.add(id(f.node))
        out.append(f)
        if d >= depth:
            continue
        for c in find_calls(f.node, lambda c: isinstance(c.func, ast.Attribute) and isinstance(c.func.value, ast.Name) and c.func.value.id == "self"):
            m = prog.resolve_method(cls, c.func.attr)  # type: ignore[union-attr]
            if m is not None:
                todo.append((m, d + 1))
    return out


def _ctor_params(prog: Program, cls: Any) -> list[str]:
    init = prog.resolve_method(cls, "__init__")
    return [p for p in init.params if p != "self"] if init is not None else []


def builder_configs(prog: Program, cls: Any) -> list[tuple[str, str, ast.AST, Any]]:
    """(metric, create method, node, function) of every ResampledFormulaBuilder the formula of generator class `cls`
    is built with: the constructor calls on the paths of cls.generate(), an argument that is a parameter of a private
    helper (`_get_builder(name, metric, create)`) followed back to the helper's call site."""
    from ..engine.normalize import positional

    rfb = prog.cls(RFB)
    rparams = _ctor_params(prog, rfb)
    gen = prog.resolve_method(cls, "generate")
    if gen is None:
        raise AnalysisError(f"{cls.qual}: no generate()")
    fns = _self_callees(prog, cls, gen)
    out: list[tuple[str, str, ast.AST, Any]] = []

    def text(fl: Flow, e: ast.AST | None, nid: int, callers: list[tuple[Any, ast.Call]], fuel: int = 4) -> list[str]:
        if e is None:
            return ["<missing>"]
        res: list[str] = []
        for o in fl.origin(e, nid):
            if o.kind == "expr" and o.node is not None:
                res.append(u(o.node))
            elif o.kind == "param" and fuel > 0 and callers:
                for cf, cc in callers:
                    cfl = Flow(prog, cf)
                    hp = [p for p in fl.fn.params if p != "self"]
                    arg = positional(cc, hp).get(o.name)
                    if arg is None:
                        res.append(f"<default of {o.name}>")
                    else:
                        res += text(cfl, arg, cfl.node_of(cc), [], fuel - 1)
            else:
                res.append(f"<{o.text()}>")
        return res or ["<unknown>"]

    for f in fns:
        ctor = find_calls(f.node, lambda c: isinstance(c.func, ast.Name) and prog.resolve_name(f.module, c.func.id) is rfb)
        if not ctor:
            continue
        fl = Flow(prog, f)
        callers = [(g, c) for g in fns if g is not f for c in find_calls(
            g.node, lambda c: isinstance(c.func, ast.Attribute) and c.func.attr == f.name and u(c.func.value) == "self")]
        if f is not gen and f.name != "generate" and not callers:
            continue
        for c in ctor:
            try:
                nid = fl.node_of(c)
            except AnalysisError:
                continue
            a = positional(c, rparams)
            for m in text(fl, a.get("metric_id"), nid, callers):
                for cm in text(fl, a.get("create_method"), nid, callers):
                    out.append((m, cm, c, f))
    return out


def check_metric(run: Run, prog: Program) -> None:
    """C19.METRIC ("the term's value is taken from the sum of its fallback components"): the generator wrapped in a
    FallbackFormulaMetricFetcher builds its formula over the same metric, into the same quantity, as the formula
    whose term it backs."""
    ffm = prog.cls(f"{FFM}:FallbackFormulaMetricFetcher")
    sites = 0
    for fn in list(prog.all_functions()):
        if not fn.module.name.startswith("timeseries.formula_engine") or fn.cls is None:
            continue
        ctors = find_calls(fn.node, lambda c: isinstance(c.func, (ast.Name, ast.Subscript)) and prog.resolve_name(
            fn.module, u(c.func).split("[")[0]) is ffm)
        if not ctors:
            continue
        fl = Flow(prog, fn)
        for c in ctors:
            sites += 1
            run.analysed(fn.qual)
            arg = (list(c.args) + [k.value for k in c.keywords])[0] if (c.args or c.keywords) else None
            gens = set()
            if arg is not None:
                for o in fl.origin(arg, fl.node_of(c)):
                    k = o.call()
                    tgt = prog.resolve_name(o.flow.fn.module, u(k.func).split("[")[0]) if k is not None else None
                    gens.add(tgt.qual if hasattr(tgt, "methods") else None)
            if not gens or None in gens:
                raise AnalysisError(f"{fn.qual}: cannot tell which generator class `{u(c)}` wraps")
            users = [k for k in [fn.cls] + prog.subclasses(fn.cls)
                     if (lambda g: g is not None and not any(u(d) == "abstractmethod" for d in g.node.decorator_list))(prog.resolve_method(k, "generate"))]
            for gq in sorted(gens):
                gcls = prog.cls(gq)
                fb_cfg = {(m, cm) for m, cm, _n, _f in builder_configs(prog, gcls)}
                for user in users:
                    prim = builder_configs(prog, user)
                    prim_cfg = {(m, cm) for m, cm, _n, _f in prim}
                    same = user is gcls or (bool(prim_cfg) and prim_cfg == fb_cfg and not any("<" in x for cfg_ in prim_cfg for x in cfg_))
                    culprit = next((n for _m, _cm, n, _f in builder_configs(prog, gcls)), c)
                    run.check(same, "C19.METRIC", f"{gcls.qual}.generate", f"fallback generator of {user.name}: metric / quantity",
                              f"the terms of `{user.name}` are built over {sorted(prim_cfg)} but the formula generated for their fallback "
                              f"(`{gcls.name}`, wrapped in FallbackFormulaMetricFetcher by {fn.qual}) is built over {sorted(fb_cfg)}: as soon "
                              "as the primary meter is missing the term's value is taken from ANOTHER quantity of the fallback components "
                              "(active instead of reactive power, a current, ...) or converted with another unit constructor, and relabelled "
                              "-- the output is wrong exactly while the fallback is in use",
                              node=culprit, file=gcls.module.rel,
                              instance=f"{user.qual}: fallback generated by {gcls.name} over the same metric and quantity")
    if sites < 3:
        raise AnalysisError(f"C19.METRIC: only {sites} FallbackFormulaMetricFetcher(...) construction sites found")


def graph_meter_table(prog: Program) -> tuple[dict[str, str], set[str]]:
    """({meter predicate: device predicate}, all component predicates) read off the concrete component graph: `is_X_meter(c)`
    is the method that tests `c.category == METER` and applies `self.is_X` to the successors (in line or through a
    private helper that is handed the predicate)."""
    table: dict[str, str] = {}
    preds: set[str] = set()
    for cls in prog.module(GRAPH_MOD).classes.values():
        for m in cls.methods.values():
            ps = [p for p in m.params if p != "self"]
            if len(ps) != 1 or any(u(d) == "abstractmethod" for d in m.node.decorator_list):
                continue
            if m.name.startswith("is_"):
                preds.add(m.name)
            # the body (or the private helper it hands its work to) tests the METER category and refers to exactly one
            # other component predicate: called on the successors, or passed on as the predicate to apply to them
            scope = [m.node] + [cls.methods[c.func.attr].node for c in find_calls(  # type: ignore[union-attr]
                m.node, lambda c: isinstance(c.func, ast.Attribute) and u(c.func.value) == "self" and c.func.attr.startswith("_")
                and c.func.attr in cls.methods)]
            is_meter = any(isinstance(x, ast.Compare) and "ComponentCategory.METER" in u(x) for nd in scope for x in ast.walk(nd))
            inner = sorted({x.attr for x in ast.walk(m.node) if isinstance(x, ast.Attribute) and isinstance(x.ctx, ast.Load)
                            and u(x.value) == "self" and x.attr.startswith("is_") and x.attr not in ("is_grid_meter", m.name)
                            and x.attr in cls.methods})
            if is_meter and len(inner) == 1:
                table[m.name] = inner[0]
    if len(table) < 4:
        raise AnalysisError(f"{GRAPH_MOD}: only {len(table)} `meter whose successors are all <device>` predicates found")
    return table, preds


MIXED_METER = "<a meter whose successors are not all of one kind>"
GRID_METER = "is_grid_meter"


def graph_kinds(prog: Program, table: dict[str, str], preds: set[str]) -> tuple[dict[str, set[str]], dict[str, str]]:
    """({graph predicate: the candidate kinds it holds for}, {device kind: its ComponentCategory}) read off the concrete
    component graph.  A candidate kind is named by the most specific graph predicate that holds for it: a device kind D
    (`is_D`), a dedicated meter kind M (`is_M_meter`: METER, not the grid meter, all successors `is_D`), the grid meter,
    MIXED_METER (category METER, none of the above) or None (any other component).  A predicate that is a disjunction of
    other graph predicates (`is_X_chain` = `is_X or is_X_meter`) holds for the union of their kinds."""
    holds: dict[str, set[str]] = {}
    cats: dict[str, str] = {}
    for p in preds:
        if p in table or p in table.values() or p == GRID_METER:
            holds[p] = {p}
    for cls in prog.module(GRAPH_MOD).classes.values():
        for m in cls.methods.values():
            if m.name not in preds or any(u(d) == "abstractmethod" for d in m.node.decorator_list):
                continue
            if m.name in table.values():
                for x in ast.walk(m.node):
                    if isinstance(x, ast.Compare) and len(x.ops) == 1 and isinstance(x.ops[0], ast.Eq):
                        for side in (x.left, x.comparators[0]):
                            if u(side).startswith("ComponentCategory."):
                                cats[m.name] = u(side)
            if m.name in holds:
                continue
            rets = [r for r in body_walk(m.node) if isinstance(r, ast.Return) and r.value is not None]
            if len(rets) == 1 and isinstance(rets[0].value, ast.BoolOp) and isinstance(rets[0].value.op, ast.Or):
                parts = [v.func.attr for v in rets[0].value.values if isinstance(v, ast.Call) and isinstance(v.func, ast.Attribute)
                         and u(v.func.value) == "self" and v.func.attr in holds and len(v.args) == 1]
                if len(parts) == len(rets[0].value.values):
                    holds[m.name] = set().union(*(holds[q] for q in parts))
    return holds, cats


class PairInterp(HelperCalls, Interp):
    """Executes the (device, meter) pairing predicate for ONE concrete pair of candidates: each candidate is a
    component of one kind (graph_kinds: a device kind, a dedicated meter kind, the grid meter, a meter whose successors
    are of different kinds, or None for "anything else"); a graph predicate applied to a candidate is true iff it holds
    for the candidate's kind, and `<candidate>.category` is METER exactly for the meter kinds.  The relation the function
    computes is read off its results -- whether it is spelled as a chain of `d(f) and m(p)`, as `any()` over a table of
    predicate pairs, as an if-chain, through the category or through private helpers makes no difference."""

    def __init__(self, preds: set[str], holds: dict[str, set[str]] | None = None, cats: dict[str, str] | None = None,
                 meter_kinds: set[str] | None = None) -> None:
        super().__init__()
        self.preds = preds
        self.holds = holds if holds is not None else {p: {p} for p in preds}
        self.cats = cats or {}
        self.meter_kinds = meter_kinds or set()

    def unknown_name(self, ident: str, node: ast.AST) -> Any:
        if ident in ("any", "all", "bool", "len", "tuple", "list", "iter", "next"):
            return ("builtin", ident)
        mod = self.helper_module
        if mod is not None and ident in mod.functions:
            return super().unknown_name(ident, node)
        return Obj(f"<{ident}>")

    def get_attr(self, base: Any, attr: str, node: ast.AST) -> Any:
        if isinstance(base, Obj) and base.cls != "cand" and attr in self.preds:
            return ("pred", attr)
        if isinstance(base, Obj) and base.cls == "<ComponentCategory>":
            return f"ComponentCategory.{attr}"
        if isinstance(base, Obj) and base.cls == "cand" and attr == "category":
            k = base.fields["kind"]
            if k in self.meter_kinds:
                return "ComponentCategory.METER"
            return self.cats.get(k, f"ComponentCategory.<of {k}>")
        if isinstance(base, Obj) and base.cls not in ("self", "cand") and attr not in base.fields:
            return Obj(f"{base.cls}.{attr}")
        return super().get_attr(base, attr, node)

    def apply(self, fn: Any, pos: list[Any], kw: dict[str, Any], node: ast.AST) -> Any:
        if isinstance(fn, tuple) and fn and fn[0] == "pred":
            args = list(pos) + list(kw.values())
            if len(args) != 1 or not (isinstance(args[0], Obj) and args[0].cls == "cand"):
                raise AnalysisError(f"graph predicate {fn[1]} applied to something other than a candidate (line {getattr(node, 'lineno', '?')})")
            if fn[1] not in self.holds:
                raise AnalysisError(f"graph predicate {fn[1]}: not known for which component kinds it holds (line {getattr(node, 'lineno', '?')})")
            return args[0].fields["kind"] in self.holds[fn[1]]
        if isinstance(fn, Obj) and fn.cls not in ("self", "cand"):
            return Obj(f"{fn.cls}()")
        return super().apply(fn, pos, kw, node)


def pair_relation(prog: Program, fn: Any, kinds: list[str | None], preds: set[str], holds: dict[str, set[str]] | None = None,
                  cats: dict[str, str] | None = None, meter_kinds: set[str] | None = None) -> set[tuple[str | None, str | None]]:
    """{(kind of the 1st candidate, kind of the 2nd)} for which the two-candidate predicate `fn` answers True."""
    ps = [p for p in fn.params if p != "self"]
    if len(ps) != 2:
        raise AnalysisError(f"{fn.qual}: expected two candidates")
    rel: set[tuple[str | None, str | None]] = set()
    for k0 in kinds:
        for k1 in kinds:
            it = PairInterp(preds, holds, cats, meter_kinds)
            it.bind_helpers(prog, fn)
            outs = it.explore(fn.node, lambda: {"self": Obj("self"), ps[0]: Obj("cand", kind=k0), ps[1]: Obj("cand", kind=k1)})
            if len(outs) != 1 or outs[0].kind != "return" or not isinstance(outs[0].value, bool):
                raise AnalysisError(f"{fn.qual}: the pairing predicate has no definite answer for ({k0}, {k1})")
            if outs[0].value:
                rel.add((k0, k1))
    return rel


def _syntactic_pairs(m: Any, preds: set[str], table: dict[str, str]) -> list[tuple[str, str, ast.AST, str, str]]:
    found = []
    for b in (x for x in ast.walk(m.node) if isinstance(x, ast.BoolOp) and isinstance(x.op, ast.And)):
        calls = [v for v in b.values if isinstance(v, ast.Call) and isinstance(v.func, ast.Attribute) and v.func.attr in preds and len(v.args) == 1]
        ms = [v for v in calls if v.func.attr in table]  # type: ignore[union-attr]
        ds = [v for v in calls if v.func.attr not in table]  # type: ignore[union-attr]
        if ms and ds:
            if len(ms) != 1 or len(ds) != 1 or len(calls) != len(b.values):
                raise AnalysisError(f"{m.qual}: `{u(b)}` is not a (device, meter) pair")
            found.append((ds[0].func.attr, ms[0].func.attr, b, u(ds[0].args[0]), u(ms[0].args[0])))  # type: ignore[union-attr]
    return found


def pairing_sites(prog: Program) -> tuple[Any, list[tuple[str, str, ast.AST]], Any, dict[str, ast.AST]]:
    """(pair function, [(device predicate, meter predicate, node)], meter function, {predicate applied to the meter's successors: node}),
    both functions bound by role among FormulaGenerator's methods.  The pair function is the method that refers to graph
    predicates of both sides and takes two candidates; its relation is obtained by executing it for every combination
    of candidate kinds (PairInterp), the spelled-out `d(x) and m(y)` reading being the fallback."""
    table, preds = graph_meter_table(prog)
    cls = prog.cls(FG)
    pair_fn, pairs = None, []
    hits: list[tuple[Any, list[tuple[str, str, ast.AST]], list[Any]]] = []
    loose_of: dict[str, list[tuple[str, str | None]]] = {}
    for m in cls.methods.values():
        # the predicate may hand part of its work to private helpers (`_meter_kind_of(device)`): what it refers to is
        # what it and the helpers it reaches refer to
        reach = [f for f in _self_callees(prog, cls, m) if f is m or (f.name.startswith("_") and not f.name.startswith("__"))]
        refs = {x.attr for f in reach for x in ast.walk(f.node) if isinstance(x, ast.Attribute) and isinstance(x.ctx, ast.Load) and x.attr in preds}
        # a two-candidate predicate over graph predicates of either side (it may recognise the meter side through the
        # component category instead of an `is_X_meter` predicate)
        if not (refs & (set(table) | set(table.values()))) or len([p_ for p_ in m.params if p_ != "self"]) != 2:
            continue
        found: list[tuple[str, str, ast.AST]] = []
        loose_m: list[tuple[str, str | None]] = []
        try:
            holds, cats = graph_kinds(prog, table, preds)
            meter_kinds = set(table) | {GRID_METER, MIXED_METER}
            kinds: list[str | None] = sorted(table) + sorted(set(table.values())) + [GRID_METER, MIXED_METER, None]
            rel = pair_relation(prog, m, kinds, preds, holds, cats, meter_kinds)
            if not rel:
                raise AnalysisError(f"{m.qual}: the pairing predicate is never true")
            fwd = all(a in meter_kinds for a, _b in rel)      # (meter, device): the primary candidate comes first
            bwd = all(b in meter_kinds for _a, b in rel)
            if fwd == bwd:
                raise AnalysisError(f"{m.qual}: the pairs do not test one fallback candidate and one primary candidate")
            norm = sorted({((a, b) if fwd else (b, a)) for a, b in rel}, key=repr)
            # a meter that is not dedicated to one device kind (or the grid meter) accepted as somebody's primary
            loose_m = [(str(mt), dv) for mt, dv in norm if mt not in table]
            any_meter = {dv for mt, dv in loose_m if mt == MIXED_METER}
            for mt, dv in norm:
                if mt not in table or dv not in table.values():
                    continue  # (M, anything but M's own device kind behind it) cannot occur: all successors of M are of its kind
                if dv in any_meter and table.get(str(mt)) != dv:
                    continue  # a consequence of "any meter": reported once, as that
                node = next((x for f in reach for x in ast.walk(f.node) if isinstance(x, ast.Attribute) and x.attr == mt), m.node)
                found.append((str(dv), str(mt), node))
            if not found and loose_m:
                found = [(str(dv), str(mt), m.node) for mt, dv in norm if mt in table and dv in table.values()]
        except AnalysisError:
            syn = _syntactic_pairs(m, preds, table)
            if not syn:
                continue
            if len({(d, p) for _a, _b, _n, d, p in syn}) != 1 or syn[0][3] == syn[0][4]:
                raise AnalysisError(f"{m.qual}: the pairs do not test one fallback candidate and one primary candidate") from None
            found = [(a, b_, n) for a, b_, n, _d, _p in syn]
        if found:
            hits.append((m, found, reach))
            loose_of[m.name] = loose_m
    # a two-candidate wrapper around the predicate computes the same relation: the outermost one is the one in use
    outer = [h for h in hits if not any(h[0] is not g[0] and h[0] in g[2] for g in hits)]
    if len(outer) > 1:
        raise AnalysisError(f"{cls.qual}: two methods pair devices with meters ({outer[0][0].name}, {outer[1][0].name})")
    if outer:
        pair_fn, pairs = outer[0][0], outer[0][1]
        prog._c19_loose_pairs = loose_of.get(pair_fn.name, [])  # type: ignore[attr-defined]
    if pair_fn is None:
        raise AnalysisError(f"{cls.qual}: no method pairs a device predicate with a meter predicate")
    meter_fn, applied = None, {}
    for m in cls.methods.values():
        if m is pair_fn:
            continue
        refs = {x.attr: x for x in ast.walk(m.node) if isinstance(x, ast.Attribute) and x.attr in preds and isinstance(x.ctx, ast.Load)
                and not (x.attr == "is_grid_meter")}
        succ = find_calls(m.node, lambda c: isinstance(c.func, ast.Attribute) and c.func.attr == "successors")
        alls = find_calls(m.node, lambda c: u(c.func) == "all")
        if refs and succ and alls:
            if meter_fn is not None:
                raise AnalysisError(f"{cls.qual}: two methods select a meter's fallback components ({meter_fn.name}, {m.name})")
            meter_fn, applied = m, refs
    if meter_fn is None:
        raise AnalysisError(f"{cls.qual}: no method selects the fallback components of a meter (all(<predicate>(s) for s in successors))")
    return pair_fn, pairs, meter_fn, applied


def check_pair(run: Run, prog: Program) -> None:
    """C19.PAIR: a term gets its fallback through two cooperating decisions -- METER term: its successors, if they are
    all of one kind; device term: its single predecessor, if that is the meter of its kind.  They must describe the
    same (device kind, meter kind) relation, and that relation must be the component graph's own."""
    table, _preds = graph_meter_table(prog)
    pair_fn, pairs, meter_fn, applied = pairing_sites(prog)
    run.analysed(pair_fn.qual)
    run.analysed(meter_fn.qual)
    for d, m, node in pairs:
        run.check(table.get(m) == d, "C19.PAIR", pair_fn.qual, f"{d}(fallback) and {m}(primary)",
                  f"`{d}` components are paired with `{m}` as their primary, but the component graph defines `{m}` as the METER whose "
                  f"successors are all `{table.get(m)}`: the fallback of that meter's term would be components the meter does not measure",
                  node=node, file=pair_fn.file, instance=f"{pair_fn.qual}: ({d}, {m}) is the graph's pair")
    # ... and a meter is somebody's primary only if it is dedicated to that kind: the pairing predicate, executed for a meter
    # whose successors are of different kinds (and for the grid meter), answers False whatever the other candidate is
    loose: list[tuple[str, str | None]] = getattr(prog, "_c19_loose_pairs", [])
    any_m = sorted({str(dv) for mt, dv in loose if mt == MIXED_METER})
    grid_m = sorted({str(dv) for mt, dv in loose if mt == GRID_METER})
    ret = next((r for r in ast.walk(pair_fn.node) if isinstance(r, ast.Return) and r.value is not None
                and not isinstance(r.value, ast.Constant)), pair_fn.node)
    run.check(not loose, "C19.PAIR", pair_fn.qual, "a meter is the primary of a device kind only if it is dedicated to that kind",
              f"{pair_fn.name}() accepts "
              + (f"ANY meter -- also one whose successors are of different kinds -- as the primary measuring point of {any_m} components" if any_m else "")
              + (" and " if any_m and grid_m else "")
              + (f"the grid meter as the primary of {grid_m} components" if grid_m else "")
              + f", whereas the sibling {meter_fn.name}() backs a meter only by successors that are ALL of one kind "
              f"({sorted(set(applied))}) and the component graph defines the meter of a kind ({', '.join(sorted(table))}) the same way: "
              "the two decisions no longer describe the same (device kind, meter kind) relation.  A meter M in front of a PV "
              "inverter and a battery inverter becomes the `primary` of the PV term (fallback: the PV inverter) and of the battery "
              "term: while M is valid the term reads PV + battery, while M is missing it reads the inverter -- primary and "
              "fallback do not measure the same quantity, so the output is wrong exactly while the primary is valid, also after "
              "it `recovers` (a meter is a primary for a device kind only if it is dedicated to that kind; testing the category "
              "alone, a `chain` predicate, or `not is_grid_meter` are the same slip)",
              node=ret, file=pair_fn.file, instance=f"{pair_fn.qual}: only a dedicated meter is a primary")
    dev = {d for d, _m, _n in pairs}
    got = set(applied)
    extra, missing = sorted(got - dev), sorted(dev - got)
    node = applied[extra[0]] if extra else meter_fn.node
    run.check(not extra and not missing, "C19.PAIR", meter_fn.qual, "device kinds backing a meter == device side of the pair table",
              f"{meter_fn.name}() accepts a meter's successors as its fallback when they are all {sorted(got)}, whereas "
              f"{pair_fn.name}() pairs the device kinds {sorted(dev)} with their meters: "
              + (f"meters in front of {missing} get no fallback (the term stays None while its fallback components are valid)" if missing else "")
              + ("; " if missing and extra else "")
              + (f"{extra} is not a fallback device kind" + (" (it is a *meter* predicate: successors of a meter are tested for being meters)"
                                                            if any(x in table for x in extra) else "") if extra else "")
              + " -- the two sites must name the same kinds (a neighbouring, equally typed graph predicate is the typical slip)",
              node=node, file=meter_fn.file)


def cover_sites(prog: Program) -> tuple[Any, Flow, str, list[tuple[int, ast.AST, ast.AST]], Any]:
    """(builder, its flow, requested-set parameter, [(node, key expression, construct)], is_cover_test): the function that
    builds the primary -> fallbacks map from a requested component set, bound by role (the FormulaGenerator method that
    consults both the pairing predicate and the selection of a meter's fallback components), read as one unit
    (private helpers in line), and the sites at which it records an entry of the map it returns."""
    pair_fn, _pairs, meter_fn, _applied = pairing_sites(prog)
    cls = prog.cls(FG)
    stop = {pair_fn.name, meter_fn.name}
    # candidates: the methods from which the pairing predicate is reached, innermost first; the builder is the first one
    # that -- read as one unit -- records entries of the map it returns (a private helper that only holds the pairing call
    # is part of its caller, a caller that only passes the map on records nothing)
    cands = []
    for m in cls.methods.values():
        if m.name in stop:
            continue
        reach = _reach_names(cls, m)
        if pair_fn.name in reach:
            cands.append((len(reach), m.name, m))
    last: AnalysisError | None = None
    for _n, _name, m in sorted(cands, key=lambda t: t[:2]):
        try:
            return _cover_unit(prog, m, pair_fn, meter_fn)
        except AnalysisError as exc:
            last = exc
    raise AnalysisError(f"{cls.qual}: no method builds the primary -> fallbacks map from a requested set "
                        f"(candidates: {sorted(t[1] for t in cands)}; {last})")


def _reach_names(cls: Any, m: Any) -> set[str]:
    """Names of the methods of `cls` reached from m through `self.<x>(..)` calls, also from inside its local closures."""
    seen: set[str] = set()
    todo = [m]
    while todo:
        f = todo.pop()
        for c in ast.walk(f.node):
            if isinstance(c, ast.Call) and isinstance(c.func, ast.Attribute) and u(c.func.value) == "self" and c.func.attr in cls.methods \
                    and c.func.attr not in seen and c.func.attr != m.name:
                seen.add(c.func.attr)
                todo.append(cls.methods[c.func.attr])
    return seen


def _cover_unit(prog: Program, raw: Any, pair_fn: Any, meter_fn: Any) -> tuple[Any, Flow, str, list[tuple[int, ast.AST, ast.AST]], Any]:
    stop = {pair_fn.name, meter_fn.name}
    fn = inline_all(prog, raw, stop=stop)
    fl = Flow(prog, fn)
    cfg = fl.cfg
    params = [p_ for p_ in fn.params if p_ != "self"]

    def is_param(e: ast.AST | None, nid: int | None, name: str) -> bool:
        if e is None:
            return False
        while isinstance(e, ast.Call) and u(e.func) in ("set", "frozenset", "list", "tuple", "sorted", "iter") and len(e.args) == 1:
            e = e.args[0]
        o = fl.origin(e, nid)
        return bool(o) and all(q.kind == "param" and q.name == name and q.flow is fl for q in o)

    # the requested set: the parameter whose elements are handed to the pairing predicate
    req = None
    for nid, c in fl.calls(lambda c: method_call(c, "self", pair_fn.name)):
        for a in list(c.args) + [k.value for k in c.keywords]:
            for q in fl.origin(a, nid):
                if q.kind == "iter" and q.node is not None:
                    for p_ in params:
                        if is_param(q.node, q.nid, p_):
                            req = req or p_
    if req is None:
        if len(params) != 1:
            raise AnalysisError(f"{raw.qual}: cannot tell which parameter is the requested component set")
        req = params[0]

    def requested(e: ast.AST, nid: int) -> bool:
        """`e` is an element of the requested set (the variable of a walk over it)."""
        o = fl.origin(e, nid)
        return bool(o) and all(q.kind == "iter" and q.idx is None and q.node is not None and is_param(q.node, q.nid, req) for q in o)

    # the map: what the function returns
    ret_orgs = [fl.origin(cfg.nodes[r].ast.value, r) for r in fl.returns() if cfg.nodes[r].ast.value is not None]  # type: ignore[union-attr]
    if not ret_orgs:
        raise AnalysisError(f"{raw.qual}: returns nothing")

    def is_map(e: ast.AST, nid: int) -> bool:
        o = fl.origin(e, nid)
        return bool(o) and any(names_eq(o, ro) for ro in ret_orgs)

    sites: list[tuple[int, ast.AST, ast.AST]] = []
    for n in cfg.nodes:
        if n.ast is None or n.id not in fl.live:
            continue
        for part in own_parts(n):
            if isinstance(part, (ast.FunctionDef, ast.AsyncFunctionDef)):
                continue
            for x in ast.walk(part):
                if isinstance(x, ast.Subscript) and is_map(x.value, n.id):
                    par = fl._parent.get(id(x))
                    stored = isinstance(x.ctx, (ast.Store, ast.Del)) or (
                        isinstance(par, ast.Attribute) and par.attr in ("add", "update", "append", "extend", "union", "__ior__"))
                    if stored:
                        sites.append((n.id, x.slice, n.ast))
                elif isinstance(x, ast.Call) and isinstance(x.func, ast.Attribute) and x.func.attr == "setdefault" and x.args \
                        and is_map(x.func.value, n.id):
                    sites.append((n.id, x.args[0], n.ast))
                elif isinstance(x, ast.Call) and isinstance(x.func, ast.Attribute) and x.func.attr == "update" and is_map(x.func.value, n.id):
                    sites.append((n.id, x, n.ast))
    if not sites:
        raise AnalysisError(f"{raw.qual}: no site records an entry of the returned map")

    def leaves(f: Flow, e: ast.AST, nid: int | None, fuel: int = 6) -> list[Any]:
        """The objects `e` may denote: its origins, conditional expressions read alternative by alternative, None left out
        (`primary = cand if <test> else None`: where it is a component at all, it is `cand`)."""
        out: list[Any] = []
        for o in f.origin(e, nid):
            x = o.node if o.kind == "expr" else None
            if isinstance(x, ast.IfExp) and fuel > 0 and o.nid is not None:
                out += leaves(o.flow, x.body, o.nid, fuel - 1) + leaves(o.flow, x.orelse, o.nid, fuel - 1)
            elif isinstance(x, ast.Constant) and x.value is None:
                continue
            else:
                out.append(o)
        return out

    def measured_by(f: Flow, e: ast.AST, nid: int, key: ast.AST, knid: int) -> bool:
        """`e` (in flow f: the builder or a private helper it calls) is the set of everything the component `key` measures:
        graph.successors(<key>.component_id), or what the selection of a meter's fallback components returns for it."""
        korg = leaves(fl, key, knid)
        org = f.origin(e, nid)
        for q in org:
            c = q.call()
            if c is None or not isinstance(c.func, ast.Attribute) or q.nid is None:
                return False
            args = list(c.args) + [k.value for k in c.keywords]
            if c.func.attr == "successors" and len(args) == 1:
                ids = [z for z in q.flow.origin(args[0], q.nid)]
                if not ids or not all(z.kind == "expr" and isinstance(z.node, ast.Attribute) and z.node.attr == "component_id"
                                      and names_eq(leaves(z.flow, z.node.value, z.nid), korg) for z in ids):
                    return False
            elif c.func.attr == meter_fn.name and u(c.func.value) == "self" and len(args) == 1:
                if not names_eq(leaves(q.flow, args[0], q.nid), korg):
                    return False
            else:
                return False
        return bool(org)

    def is_req(f: Flow, e: ast.AST | None, nid: int | None) -> bool:
        if e is None:
            return False
        while isinstance(e, ast.Call) and u(e.func) in ("set", "frozenset", "list", "tuple", "sorted", "iter") and len(e.args) == 1:
            e = e.args[0]
        o = f.origin(e, nid)
        return bool(o) and all(q.kind == "param" and q.name == req and q.flow is fl for q in o)

    def cover_test(key: ast.AST, knid: int, f: Flow | None = None, depth: int = 0, box: dict[str, Any] | None = None) -> Any:
        """Atom (for flow f): the verdict of a condition under "NOT everything `key` measures is requested".  `box["edge"]`,
        once set, is the edge filter of that scenario on the builder: `x is None` is then decided from the definitions of x
        the scenario can execute (`return cand if <covered> else None`, `if <covered>: return cand` ... `return None`)."""
        f = f or fl
        box = box if box is not None else {}
        scn = (lambda f_: box.get("edge") if f_ is fl else None)  # noqa: E731

        def meas(e: ast.AST, nid: int) -> bool:
            return measured_by(f, e, nid, key, knid)  # type: ignore[arg-type]

        def atom(e: ast.AST, nid: int) -> bool | None:
            if isinstance(e, ast.Call) and u(e.func) == "bool" and len(e.args) == 1:
                return tri(e.args[0], lambda x: lifted(f, atom)(x, nid))  # type: ignore[arg-type]
            ta = truth_atom(e)
            if ta is not None and isinstance(ta[0], ast.Name):
                alts: list[ast.AST] = []
                for o in f.origin(ta[0], nid, through_helpers=False, scenario=scn):  # type: ignore[union-attr]
                    if o.kind != "expr" or o.node is None or o.nid is None:
                        alts = []
                        break
                    alts += select_ifexp(o.node, lambda x, o=o: lifted(o.flow, cover_test(key, knid, o.flow, depth, box))(x, o.nid)
                                         if o.flow is f or depth < 3 else None)
                if alts and all(isinstance(v, ast.Constant) and v.value is None for v in alts):
                    return ta[1]
            if isinstance(e, ast.Call) and isinstance(e.func, ast.Attribute) and len(e.args) == 1 and not e.keywords:
                if e.func.attr == "issubset" and meas(e.func.value, nid) and is_req(f, e.args[0], nid):
                    return False
                if e.func.attr == "issuperset" and is_req(f, e.func.value, nid) and meas(e.args[0], nid):
                    return False
                if e.func.attr == "difference" and meas(e.func.value, nid) and is_req(f, e.args[0], nid):
                    return True     # non-empty
            if isinstance(e, ast.Compare) and len(e.ops) == 1:
                a, b, op = e.left, e.comparators[0], e.ops[0]
                if isinstance(op, ast.LtE) and meas(a, nid) and is_req(f, b, nid):
                    return False
                if isinstance(op, ast.GtE) and is_req(f, a, nid) and meas(b, nid):
                    return False
                for x, y, flip in ((a, b, False), (b, a, True)):
                    diff = x.args[0] if isinstance(x, ast.Call) and u(x.func) == "len" and len(x.args) == 1 else None
                    if diff is not None and atom(diff, nid) is True and isinstance(y, ast.Constant) and isinstance(y.value, int):
                        vals = {cmp_eval_(op, y.value, k) if flip else cmp_eval_(op, k, y.value) for k in (1, 2, 5)}
                        return vals.pop() if len(vals) == 1 else None
            if isinstance(e, ast.BinOp) and isinstance(e.op, ast.Sub) and meas(e.left, nid) and is_req(f, e.right, nid):
                return True         # `successors - requested` is non-empty
            if isinstance(e, ast.Call) and u(e.func) in ("all", "any") and len(e.args) == 1 and isinstance(e.args[0], (ast.GeneratorExp, ast.ListComp)) \
                    and len(e.args[0].generators) == 1 and not e.args[0].generators[0].ifs:
                g = e.args[0].generators[0]
                elt = e.args[0].elt
                neg = False
                while isinstance(elt, ast.UnaryOp) and isinstance(elt.op, ast.Not):
                    neg, elt = not neg, elt.operand
                if isinstance(g.target, ast.Name) and meas(g.iter, nid) and isinstance(elt, ast.Compare) and len(elt.ops) == 1 \
                        and isinstance(elt.left, ast.Name) and elt.left.id == g.target.id and is_req(f, elt.comparators[0], nid):
                    inside = isinstance(elt.ops[0], ast.In) != neg if isinstance(elt.ops[0], (ast.In, ast.NotIn)) else None
                    if inside is True and u(e.func) == "all":
                        return False
                    if inside is False and u(e.func) == "any":
                        return True
            if isinstance(e, ast.Name):
                # a set used as a condition: `if missing:` with missing = successors - requested
                o = f.origin(e, nid, through_helpers=False)
                if o and all(q.kind == "expr" and q.nid is not None and q.flow is f and (
                        isinstance(q.node, ast.BinOp) or (isinstance(q.node, ast.Call) and isinstance(q.node.func, ast.Attribute)
                                                          and q.node.func.attr == "difference")) and atom(q.node, q.nid) is True for q in o):
                    return True
            if isinstance(e, ast.Call) and depth < 3:
                # a private predicate helper (`self._all_requested(meter, wanted)`): decided when all of its returns agree
                ch = f.child(e, nid)
                if ch is not None and not ch.fn.is_async:
                    inner = lifted(ch, cover_test(key, knid, ch, depth + 1, box))
                    verdicts = set()
                    for r in ch.returns():
                        v = ch.cfg.nodes[r].ast.value  # type: ignore[union-attr]
                        verdicts.add(None if v is None else tri(v, lambda x, r=r: inner(x, r)))
                    if len(verdicts) == 1:
                        return verdicts.pop()
            return None
        return atom

    return raw, fl, req, [(nid, k, c) for nid, k, c in sites if not (isinstance(k, ast.Call)) and not requested(k, nid)] + [
        (nid, k, c) for nid, k, c in sites if isinstance(k, ast.Call)], cover_test


def cmp_eval_(op: ast.cmpop, a: Any, b: Any) -> bool | None:
    from ._c06_util import cmp_eval
    return cmp_eval(op, a, b)


def check_cover(run: Run, prog: Program) -> None:
    """C19.COVER ("the formula output equals the true value whenever at least one of the two sources is valid"): the primary
    and the fallback of one term must measure the same thing.  The function that builds the primary -> fallbacks map from
    the REQUESTED component set records two kinds of primaries: (a) a requested component itself (a requested meter gets
    all its successors, or nothing, as fallback: C19.PAIR) -- fine; (b) a component that was not asked for, reached as the
    predecessor of a requested device (its dedicated meter).  Such a primary measures ALL its successors, so it may be
    recorded only on paths that established that all of them are requested: in the scenario "not everything the primary
    measures is in the requested set" no recording site with that key is reachable.  (Spellings decided: `.issubset(req)`,
    `<=`, `req >= ..` / `.issuperset`, `all(s in req for s in ..)`, `not (.. - req)`, `len(.. - req) == 0`, the same through
    locals and private helpers.)"""
    raw, fl, req, sites, cover_test = cover_sites(prog)
    run.analysed(raw.qual)
    cfg = fl.cfg
    if not sites:
        run.ok("C19.COVER", f"{raw.qual}: every primary recorded is an element of the requested set `{req}`")
        return
    for nid, key, construct in sites:
        box: dict[str, Any] = {}
        edge = pruned(cfg, lifted(fl, cover_test(key, nid, box=box), scenario=lambda f_: box.get("edge") if f_ is fl else None), normal_only=False)
        box["edge"] = edge
        wit = cfg.path(cfg.entry, [nid], edge_ok=edge)
        run.check(wit is None, "C19.COVER", raw.qual, construct,
                  f"`{u(construct)[:90]}` records `{u(key)[:40]}` -- a component that is NOT one of the requested `{req}` (it is reached "
                  "as the predecessor of a requested device) -- as the primary measuring point of a term, on a path that never "
                  f"established that everything it measures is requested (its successor set is not tested against `{req}`).  A meter "
                  "measures ALL its successors: for a pool over inverter A behind a meter M with inverters A and B the term reads "
                  "`#M` = A + B while M is valid and A (the fallback) while M is missing -- primary and fallback of one term "
                  "measure different things, and the output is wrong exactly while the primary is healthy.  The primary may stand "
                  f"in only when `graph.successors(<primary>).issubset({req})` (or `<=`, `all(s in {req} ..)`, `not (successors - {req})`); "
                  "otherwise each requested device is its own primary",
                  node=construct, file=raw.file, path=cfg.describe_path(wit),
                  instance=f"{raw.qual}: `{u(construct)[:60]}` only when the primary's successors are all requested")


def round_exceptions(prog: Program) -> list[tuple[str, str, int]]:
    """(exception class, where, line) of what a round of the evaluator can raise by its own statements: `raise X(..)` and
    `assert` in FormulaEvaluator's methods and in MetricFetcher's fetch path (for the message of C19.LOOP)."""
    out: list[tuple[str, str, int]] = []
    for cq in (EVAL_CLS, MF):
        for m in prog.cls(cq).methods.values():
            if m.name.startswith("__") and m.name != "__call__":
                continue
            for x in ast.walk(m.node):
                if isinstance(x, ast.Assert):
                    out.append(("AssertionError", f"{m.name}: `assert {u(x.test)[:50]}`", x.lineno))
                elif isinstance(x, ast.Raise) and x.exc is not None:
                    f_ = x.exc.func if isinstance(x.exc, ast.Call) else x.exc
                    out.append((u(f_).split(".")[-1], f"{m.name}: `raise {u(f_)}(..)`", x.lineno))
    return out


def check_loop(run: Run, prog: Program) -> None:
    """C19.LOOP ("... apart from a bounded start-up delay after the first failure"): a source failing makes single rounds
    of the evaluator fail -- `_fetch_next` starts the fallback and reports "no sample" (the round raises RuntimeError, or,
    inside the re-synchronisation, trips over `assert next_val is not None`: AssertionError), a step may raise -- and
    the next round then reads the fallback.  That only happens if the loop that drives the evaluator is still there:
    whatever Exception a round raises, the loop goes on to the next evaluation (it does not end, it does not let the
    exception out of the task).  Decided on the exception-aware CFG of FormulaEngine._run: every Exception-family edge
    out of `await evaluator.apply()` enters a handler that certainly catches it (`Exception`, `BaseException`, bare), and
    from that handler no `raise` / `return` / `break` leaves the loop before the next apply()."""
    lp = engine_loop(prog)
    raw, cfg, a = lp.raw, lp.cfg, lp.a
    run.analysed(raw.qual)
    e_targets = [m for m, lab in lp.exc_targets if lab == "exc:E"]
    escapes = [m for m in e_targets if m == cfg.raise_exit or cfg.nodes[m].kind != "handler"]
    gt = lp.guarding_try()
    caught = sorted({u(h.type) if h.type is not None else "<bare>" for h in (gt[1].handlers if gt else [])})
    others = [(c, w, ln) for c, w, ln in round_exceptions(prog)]
    from ..engine.cfg import exc_ancestors

    def covered(c: str) -> bool:
        anc = exc_ancestors(c) or [c, "Exception", "BaseException"]
        return gt is not None and any(h.type is None or any(k.split(".")[-1].split("[")[0] in anc for k in (
            [u(e) for e in h.type.elts] if isinstance(h.type, ast.Tuple) else [u(h.type)])) for h in gt[1].handlers)

    loose = [(c, w, ln) for c, w, ln in others if not covered(c)]
    node = (gt[1].handlers[-1] if gt and gt[1].handlers else raw.node)
    run.check(bool(e_targets) and not escapes, "C19.LOOP", raw.qual, "every Exception of a round is caught by the loop",
              f"an Exception raised by `{u(lp.apply)}` can leave {raw.name}() (handlers around it: {caught or 'none'}): the task that drives "
              "the formula ends, and nothing is emitted any more although the fallback that was just started delivers valid samples"
              + ("; not covered e.g. " + "; ".join(f"{c} from {w} (line {ln})" for c, w, ln in loose[:3]) if loose else "")
              + ".  A round fails in many ways while a source is failing -- a primary that fails before its fallback runs makes "
              "_fetch_next return None, which the evaluator reports as RuntimeError in apply() but as AssertionError inside the "
              "(re-)synchronisation -- so only a handler for Exception itself keeps the loop alive (a narrower class, a tuple of "
              "classes, no handler at all are the same mistake)", node=node, file=raw.file)
    wit = None
    for m in e_targets:
        if m not in escapes:
            wit = wit or cfg.path(m, [cfg.exit, cfg.raise_exit], avoid=[a], edge_ok=lp.explicit)
    run.check(wit is None, "C19.LOOP", raw.qual, "a failed round is followed by the next evaluation",
              "the handler of a failed round leaves the loop (re-raises, returns or breaks): after the first failing round -- the "
              "normal course of a fallback take-over -- the formula never emits again", node=node, file=raw.file,
              path=cfg.describe_path(wit))


def check_resync(run: Run, prog: Program) -> None:
    """C19.RESYNC ("... the term's value is taken from the sum of its fallback components *for the same timestamp*"): when
    the primary stream fails, fetch_next_with_fallback() hands the round the fallback's next sample unsynchronised, and
    C19.ESYNC accepts that only because the consumer re-aligns its inputs whenever their timestamps differ.  That
    re-alignment is the evaluator's synchronisation routine, so its obligations are obligations of the fallback
    switch: every stream of every lagging group is advanced in each pass until the group reaches the latest timestamp,
    overshooting is an error, the latest timestamp is what is returned (C06.SYNC, run there and reported here)."""
    from . import c06

    s06 = Run("C06", "quick", 0)
    c06.check_sync(s06, prog)
    rereport(run, s06, ("C06.SYNC",), "C19.RESYNC")


def build_controls(prog: Program) -> list[tuple[str, str, str, str, str]]:
    """Seeded in-memory controls, cut out of the live source at structurally located anchors (so they
    survive renamed locals, changed log texts, introduced locals): each breaks one obligation."""
    out: list[tuple[str, str, str, str, str]] = []

    def add(name: str, module: str, patch: tuple[str, str] | None, rule: str) -> None:
        if patch is not None:
            out.append((name, module, patch[0], patch[1], rule))

    # LOOP: the engine loop survives RuntimeError only
    try:
        gt = engine_loop(prog).guarding_try()
    except AnalysisError:
        gt = None
    if gt is not None:
        holder, t_ = gt
        for h in t_.handlers:
            if h.type is not None and u(h.type) == "Exception":
                add("engine loop survives RuntimeError only", ENGINE_MOD, src_patch(
                    holder.module, h.lineno, h.type.end_lineno or h.lineno, lambda t: t.replace("except Exception", "except RuntimeError", 1)), "C19.LOOP")
                break
    # RESYNC: the drain loops of the evaluator's (re-)synchronisation interchanged
    from .c06 import interchange_patch
    add("re-synchronisation advances one stream of a lagging group only", EVAL_CLS.split(":")[0], interchange_patch(prog), "C19.RESYNC")
    # ERR: the primary read through the async-iterator protocol
    for c in find_calls(prog.func(f"{MF}.fetch_next_with_fallback").node, lambda c: method_call(c, "self._stream", "receive"))[:1]:
        fw_ = prog.func(f"{MF}.fetch_next_with_fallback")
        txt = seg(fw_.module, c)
        add("primary read with anext()", STEPS, stmt_patch(fw_, c, lambda t, txt=txt: t.replace(txt, "anext(self._stream)", 1)), "C19.ERR")

    mfc = prog.cls(MF)
    fw = prog.func(f"{MF}.fetch_next_with_fallback")
    unit_names = set(getattr(fetch_unit(prog).node, "_inlined", ())) | {"fetch_next"}
    unit_methods = [m for m in mfc.methods.values() if m.name in unit_names]   # whoever holds the logic of fetch_next()
    vname = validity_name(prog)
    for c in find_calls(fw.node, lambda c: is_validity_call(c, vname) is not None)[:1]:
        txt = seg(fw.module, c)
        add("validity test inverted", STEPS, stmt_patch(fw, c, lambda t, txt=txt: t.replace(txt, f"(not {txt})", 1)), "C19.SEL")
    # the synchronised fetch: whichever private method the public entry point hands the primary sample to
    sy_name = fallback_sync_name(prog)
    for a in (x for x in ast.walk(fw.node) if isinstance(x, (ast.Assign, ast.AnnAssign)) and isinstance(x.value, ast.Await)
              and isinstance(x.value.value, ast.Call) and method_call(x.value.value, "self", sy_name)):
        c = a.value.value  # type: ignore[union-attr]
        first = (list(c.args) + [k.value for k in c.keywords])[0] if (c.args or c.keywords) else None
        if first is not None:
            ptxt = seg(fw.module, first)
            add("healthy primary skips the fallback read", STEPS, stmt_patch(
                fw, a, lambda t, ptxt=ptxt: f"{indent_of(t)}if {ptxt}.value is not None and not {ptxt}.value.isnan() and not {ptxt}.value.isinf():\n"
                                            f"{indent_of(t)}    return {ptxt}\n" + t), "C19.TICK")
            # SEL: the fallback's value handed on under the primary's timestamp
            tgt_ = a.targets[0] if isinstance(a, ast.Assign) else a.target
            rets_ = [r for r in ast.walk(fw.node) if isinstance(r, ast.Return) and isinstance(r.value, ast.Name)
                     and isinstance(tgt_, ast.Name) and r.value.id == tgt_.id]
            if rets_:
                add("fallback value re-labelled with the primary's timestamp", STEPS, stmt_patch(
                    fw, rets_[-1], lambda t, ptxt=ptxt, f_=rets_[-1].value.id: f"{indent_of(t)}return Sample({ptxt}.timestamp, {f_}.value)\n"), "C19.SEL")
        break
    done: set[str] = set()
    for fn in unit_methods:
        for s_ in ast.walk(fn.node):
            if "restart" not in done and isinstance(s_, ast.If) and not s_.orelse and any(
                    isinstance(x, ast.Call) and method_call(x, "self", "fetch_next_with_fallback") for b in s_.body for x in ast.walk(b)) \
                    and any(isinstance(b, ast.Return) for b in s_.body):
                add("fallback restarted every round", STEPS, stmt_patch(fn, s_, lambda t: ""), "C19.LAZY")
                done.add("restart")
        for c in find_calls(fn.node, lambda c: is_validity_call(c, vname) is not None and len(c.args) == 1)[:1]:
            if "none" not in done:
                txt, arg = seg(fn.module, c), seg(fn.module, c.args[0])
                add("None-only validity when starting the fallback", STEPS,
                    stmt_patch(fn, c, lambda t, txt=txt, arg=arg: t.replace(txt, f"({arg} is not None)", 1)), "C19.LAZY")
                done.add("none")
    sy = mfc.methods.get(sy_name)
    if sy is not None and len(sy.params) > 1:
        prim = sy.params[1]
        # catch-up advances the primary: the receive inside (or called from) the catch-up loop reads the wrong stream
        for w in (x for x in ast.walk(sy.node) if isinstance(x, ast.While)):
            for a in (x for x in ast.walk(w) if isinstance(x, ast.Assign) and isinstance(x.value, ast.Await)
                      and isinstance(x.value.value, ast.Call) and method_call(x.value.value, None, "receive")):
                add("catch-up advances the primary", STEPS, stmt_patch(
                    sy, a, lambda t, prim=prim: f"{indent_of(t)}{prim} = await self._stream.receive()\n"), "C19.SYNC")
                break
            break
        # SYNC: the first use waits for a VALID fallback sample (a second loop around the read, governed by the value)
        fbp_ = sy.params[2] if len(sy.params) > 2 else None
        for a in (x for x in ast.walk(sy.node) if isinstance(x, ast.Assign) and isinstance(x.value, ast.Await)
                  and isinstance(x.value.value, ast.Call) and method_call(x.value.value, None, "receive")
                  and fbp_ is not None and u(x.value.value.func.value) == fbp_):  # type: ignore[union-attr]
            if any(a is y for w in ast.walk(sy.node) if isinstance(w, ast.While) for y in ast.walk(w)):
                continue
            ttxt = seg(sy.module, a.targets[0])
            add("first use waits for a valid fallback sample", STEPS, stmt_patch(
                sy, a, lambda t, ttxt=ttxt, vn=(vname or VALID_HINT): t + f"{indent_of(t)}while not self.{vn}({ttxt}.value):\n    " + t.lstrip("\n")
                if t.endswith("\n") else t), "C19.SYNC")
            break
        for s_ in ast.walk(sy.node):
            if isinstance(s_, ast.If) and "timestamp" in u(s_.test) and "None" not in u(s_.test) and len(s_.body) == 1 \
                    and isinstance(s_.body[0], ast.Return) and u(s_.body[0].value) == "None" and not s_.orelse:
                add("older-test only on first fetch", STEPS, stmt_patch(sy, s_, lambda t: ""), "C19.SYNC")
                break
    # SYNC/ERR: the catch-up read bounded by a timeout whose expiry counts as a stream error; KEEP: the error handler
    # of the primary swaps the primary out for good
    if sy is not None:
        for w in (x for x in ast.walk(sy.node) if isinstance(x, ast.While)):
            # the read sits in the loop, or in the private helper the loop calls for it
            holders = [(sy, w)] + [(mfc.methods[c.func.attr], mfc.methods[c.func.attr].node) for c in ast.walk(w)  # type: ignore[union-attr]
                                   if isinstance(c, ast.Call) and isinstance(c.func, ast.Attribute) and u(c.func.value) == "self"
                                   and c.func.attr.startswith("_") and c.func.attr in mfc.methods]
            for holder, scope in holders:
                c = next((x for x in ast.walk(scope) if isinstance(x, ast.Call) and method_call(x, None, "receive")
                          and u(x.func.value) != "self._stream"), None)  # type: ignore[union-attr]
                if c is not None:
                    txt = seg(holder.module, c)
                    add("catch-up read under a timeout", STEPS, stmt_patch(
                        holder, c, lambda t, txt=txt: t.replace(f"await {txt}", f"await asyncio.wait_for({txt}, 1.0)", 1)), "C19.SYNC")
                    break
            break
    for t_ in (x for x in ast.walk(fw.node) if isinstance(x, ast.Try)):
        if t_.handlers and any(isinstance(c, ast.Call) and method_call(c, "self._stream", "receive") for b in t_.body for c in ast.walk(b)):
            head = t_.handlers[0].body[0]
            fbp = fw.params[1] if len(fw.params) > 1 else "fallback_fetcher"
            add("primary swapped out in the error handler", STEPS, src_patch(
                fw.module, head.lineno, head.end_lineno or head.lineno,
                lambda t, head=head, fbp=fbp: f"{' ' * head.col_offset}self._stream = {fbp}\n" + t), "C19.KEEP")
            break
    stt = prog.func(f"{FFM}:FallbackFormulaMetricFetcher.start")
    for c in find_calls(stt.node, lambda c: isinstance(c.func, ast.Attribute) and c.func.attr == "new_receiver")[:1]:
        txt = seg(stt.module, c)
        add("tiny fallback receiver", FFM, stmt_patch(
            stt, c, lambda t, txt=txt, c=c: t.replace(txt, seg(stt.module, c.func) + "(max_size=1)", 1)), "C19.BUF")
    # ESYNC: the consumer's re-alignment removed / weakened (the raw error-path return is then unsynchronised for good)
    ap = prog.func(f"{EVAL_CLS}.apply")
    ev_mod = EVAL_CLS.split(":")[0]
    for t_ in (x for x in ast.walk(ap.node) if isinstance(x, ast.If) and isinstance(x.test, ast.BoolOp) and isinstance(x.test.op, ast.Or)
               and any(u(v) == "self._first_run" for v in x.test.values)):
        txt = seg(ap.module, t_.test)
        add("inputs re-aligned on the first run only", ev_mod, src_patch(
            ap.module, t_.test.lineno, t_.test.end_lineno or t_.test.lineno, lambda t, txt=txt: t.replace(txt, "self._first_run", 1)), "C19.ESYNC")
        break
    for m_ in prog.cls(EVAL_CLS).methods.values():
        for c_ in (x for x in ast.walk(m_.node) if isinstance(x, ast.Compare) and len(x.ops) == 1 and isinstance(x.ops[0], ast.Gt)
                   and isinstance(x.left, ast.Call) and u(x.left.func) == "len" and isinstance(x.comparators[0], ast.Constant)
                   and x.comparators[0].value == 1):
            txt = seg(m_.module, c_)
            add("re-aligned only when three timestamps differ", ev_mod, src_patch(
                m_.module, c_.lineno, c_.end_lineno or c_.lineno, lambda t, txt=txt: t.replace(txt, txt[:-1] + "2", 1)), "C19.ESYNC")
            break
    # METRIC: a fallback generator that is not the generator of the formula it backs reads another metric
    ffm = prog.cls(f"{FFM}:FallbackFormulaMetricFetcher")
    done_m = False
    for fn in prog.all_functions():
        if done_m or fn.cls is None or not fn.module.name.startswith(GEN_PKG):
            continue
        for c in find_calls(fn.node, lambda c: isinstance(c.func, ast.Name) and prog.resolve_name(fn.module, c.func.id) is ffm):
            fl = Flow(prog, fn)
            for o in fl.origin(c.args[0], fl.node_of(c)) if c.args else []:
                k = o.call()
                g = prog.resolve_name(fn.module, u(k.func).split("[")[0]) if k is not None else None
                if g is None or not hasattr(g, "methods") or g is fn.cls or done_m:
                    continue
                for m_txt, _cm, node, f in builder_configs(prog, g):
                    if m_txt.startswith("ComponentMetricId."):
                        other = "ComponentMetricId.VOLTAGE_PHASE_1"
                        tgt = next((a for a in ast.walk(node) if u(a) == m_txt), None)
                        holder = f
                        if tgt is None:  # the literal sits at the helper's call site
                            for h in g.methods.values():
                                tgt = next((a for a in ast.walk(h.node) if isinstance(a, ast.Attribute) and u(a) == m_txt), None)
                                if tgt is not None:
                                    holder = h
                                    break
                        if tgt is not None:
                            add("fallback formula reads another metric", holder.module.name, stmt_patch(
                                holder, tgt, lambda t, m_txt=m_txt, other=other: t.replace(m_txt, other, 1)), "C19.METRIC")
                            done_m = True
                            break
    # PAIR: a neighbouring graph predicate in the selection of a meter's fallback components
    try:
        table, _p = graph_meter_table(prog)
        _pf, prs, mf, applied = pairing_sites(prog)
        for d, m, _n in prs:
            if d in applied:
                node = applied[d]
                add("meter fallback selected by a meter predicate", mf.module.name, stmt_patch(
                    mf, node, lambda t, d=d, m=m: t.replace(f".{d}", f".{m}", 1)), "C19.PAIR")
                break
        # PAIR: one device kind accepts any meter as its primary (the category is tested instead of the dedicated-meter predicate)
        for c in find_calls(_pf.node, lambda c: isinstance(c.func, ast.Attribute) and c.func.attr in table and len(c.args) == 1 and not c.keywords)[:1]:
            txt, arg = seg(_pf.module, c), seg(_pf.module, c.args[0])
            add("any meter is the primary of a device kind", _pf.module.name, stmt_patch(
                _pf, c, lambda t, txt=txt, arg=arg: t.replace(txt, f"({arg}.category == ComponentCategory.METER)", 1)), "C19.PAIR")
    except AnalysisError:
        pass
    # COVER: the meter stands in for a requested device whether or not everything it measures was requested
    try:
        b_raw, _bfl, b_req, _bs, _ct = cover_sites(prog)
        holders = [b_raw] + [f for f in _self_callees(prog, prog.cls(FG), b_raw) if f is not b_raw]
        hit_c = None
        for h in holders:
            for x in ast.walk(h.node):
                if isinstance(x, ast.Call) and isinstance(x.func, ast.Attribute) and x.func.attr in ("issubset", "issuperset") and len(x.args) == 1 \
                        and "successors" in u(x):
                    hit_c = hit_c or (h, x)
                elif isinstance(x, ast.Compare) and len(x.ops) == 1 and isinstance(x.ops[0], (ast.LtE, ast.GtE)) and "successors" in u(x):
                    hit_c = hit_c or (h, x)
        if hit_c is not None:
            h, x = hit_c
            txt = seg(h.module, x)
            add("meter stands in for a subset of what it measures", h.module.name, src_patch(
                h.module, x.lineno, x.end_lineno or x.lineno, lambda t, txt=txt: t.replace(txt, "True", 1) if txt in t else t), "C19.COVER")
    except AnalysisError:
        pass
    if len(out) < 4:
        raise AnalysisError(f"C19: only {len(out)} of 20 seeded controls could be derived from the source "
                            f"({[o[0] for o in out]})")
    return out


def run_rules(run: Run, prog: Program) -> None:
    check_sel(run, prog)
    check_err(run, prog)
    check_lazy(run, prog)
    check_sync(run, prog)
    check_esync(run, prog)
    check_keep(run, prog)
    check_buf(run, prog)
    check_metric(run, prog)
    check_pair(run, prog)
    check_cover(run, prog)
    check_loop(run, prog)
    check_resync(run, prog)


def check(run: Run, prog: Program, tier: str) -> str:
    run.rule("C19.SEL", "primary iff valid or no synchronised fallback sample; fallback iff invalid and present; "
             "fallback's next sample on primary error; primary received exactly once; the sample handed on is one of the "
             "received samples whole, never one's timestamp on the other's value")
    run.rule("C19.TICK", "once the fallback runs, every tick reads it (synchronisation call or, on a primary error, its receive): "
             "the error path relies on the receiver having been drained in lock-step")
    run.rule("C19.KEEP", "the primary stream and the fallback fetcher are bound once (in __init__): no path re-binds them")
    run.rule("C19.ERR", "every receive() is guarded by a catchable ReceiverError handler (two documented terminal sites)")
    run.rule("C19.LAZY", "fallback started only when not running and the primary is invalid (shared predicate) or failed")
    run.rule("C19.SYNC", "fallback samples are never lost; older-test on every call; catch-up loop only advances the fallback; "
             "the fallback is read repeatedly only by the catch-up loop (timestamps only, never waiting for a valid value)")
    run.rule("C19.ESYNC", "a fallback sample is handed to a round only after its timestamp was related to the round (synchronisation "
             "routine, or a read of the synchronisation state / a timestamp comparison on the path)")
    run.rule("C19.BUF", "fallback receiver has the default capacity")
    run.rule("C19.METRIC", "the generator wrapped as a term's fallback builds its formula over the same metric id and quantity "
             "constructor as the formula whose term it backs")
    run.rule("C19.PAIR", "which components back which meter: the selection of a meter's fallback components and the (device, meter) "
             "pair table name the same device kinds, each pair is the component graph's own definition of that meter kind, and "
             "a meter that is not dedicated to one kind (or the grid meter) is nobody's primary")
    run.rule("C19.COVER", "where the primary -> fallbacks map is built from a requested component set, a primary that is not itself "
             "requested (the meter in front of a requested device) is recorded only on paths that established that all its "
             "successors are requested: primary and fallback of one term measure the same thing")
    run.rule("C19.LOOP", "the loop that drives a formula survives every failing round: whatever Exception evaluator.apply() raises "
             "is caught (Exception / BaseException / bare) and followed by the next evaluation")
    run.rule("C19.RESYNC", "the consumer's re-alignment, on which the unsynchronised fallback sample of the primary-error path relies, "
             "advances every stream of every lagging group up to the latest timestamp (C06.SYNC under this property)")
    run_rules(run, prog)
    run.floor("C19.LOOP", 2)
    run.floor("C19.RESYNC", 4)
    run.floor("C19.SEL", 10)
    run.floor("C19.TICK", 4)
    run.floor("C19.KEEP", 2)
    run.floor("C19.ERR", 5)
    run.floor("C19.LAZY", 7)
    run.floor("C19.SYNC", 8)
    run.floor("C19.METRIC", 3)
    run.floor("C19.PAIR", 5)
    run.floor("C19.COVER", 1)
    from ..engine.controls import run_controls

    run_controls(run, [] if run.violations else build_controls(prog), run_rules, tier)
    run.assume("Python semantics: the expression of an `except` clause is evaluated only when an "
               "exception reaches it and must then be a class or tuple of classes")
    run.undecided("length of the start-up delay; behaviour when the fallback stream skips a timestamp")
    return ("Abstract interpretation of the source-selection function over all outcome combinations, "
            "exception-discipline rules on every receive() site including catchability of the handler "
            "expression, and CFG dominance rules on lazy start and fallback synchronisation.")
