"""Generic facilities for C12 (candidates for sa/engine): decide *what a predicate computes*, not how it is spelt.

  single_defs / deref      single-assignment locals of a function and their substitution into an expression
  Folder.ret_expr          symbolic return expression of a (pure, loop-free) function: locals substituted in
                           program order, if/else / early-return / ternary / assignment diamonds folded into
                           conditional expressions, calls of private helpers (same class, module, nested def)
                           replaced by the helper's own return expression with the arguments bound
  resolve_callable         a callable *value* (nested def, lambda, local bound to either, bound method
                           reference) as (expression over the placeholder `%1`)
  bcanon                   canonical boolean form: flattened and/or, De Morgan, constants folded, ternaries,
                           `all`/`any` over one generator as quantifiers with the bound variable
                           alpha-normalised (`?0`, `?1`, ...), `len(x) > 0` family as ("nonempty", x),
                           membership in a literal collection as a set
  edge_facts / edges_establishing   atoms known to hold on the true/false edge of a CFG test node

Everything is analysis-only and works on copies; anything that cannot be interpreted raises AnalysisError
(fail closed).
"""
from __future__ import annotations

import ast
import copy
import itertools
from typing import Any, Callable, Iterable

from ..engine.cfg import CFG
from ..engine.normalize import ANCHOR_NAMES
from ..engine.report import AnalysisError
from ..engine.resolver import FuncInfo, FuncNode, Program, walk_no_nested

_FuncTypes = (ast.FunctionDef, ast.AsyncFunctionDef)
_fresh = itertools.count()


def txt(node: ast.AST | None) -> str:
    return "" if node is None else " ".join(ast.unparse(node).split())


# ------------------------------------------------------------------ names and substitution
def _params_of(node: FuncNode | ast.Lambda) -> list[str]:
    a = node.args
    return [x.arg for x in a.posonlyargs + a.args + a.kwonlyargs]


def freshen(root: ast.AST) -> ast.AST:
    """Rename comprehension variables and lambda parameters to unique names (in place) so that later
    substitutions can never capture them."""
    for n in ast.walk(root):
        if isinstance(n, (ast.GeneratorExp, ast.ListComp, ast.SetComp, ast.DictComp)):
            ren: dict[str, str] = {}
            for g in n.generators:
                for t in ast.walk(g.target):
                    if isinstance(t, ast.Name) and "#" not in t.id:
                        ren[t.id] = f"{t.id}#{next(_fresh)}"
            if ren:
                for x in ast.walk(n):
                    if isinstance(x, ast.Name) and x.id in ren:
                        x.id = ren[x.id]
        elif isinstance(n, ast.Lambda):
            ren = {}
            for a in n.args.posonlyargs + n.args.args + n.args.kwonlyargs:
                if "#" not in a.arg:
                    ren[a.arg] = f"{a.arg}#{next(_fresh)}"
                    a.arg = ren[a.arg]
            for x in ast.walk(n.body):
                if isinstance(x, ast.Name) and x.id in ren:
                    x.id = ren[x.id]
    return root


class _Subst(ast.NodeTransformer):
    def __init__(self, env: dict[str, ast.AST]) -> None:
        self.env = env

    def visit_Name(self, node: ast.Name) -> ast.AST:  # noqa: N802
        if isinstance(node.ctx, ast.Load) and node.id in self.env:
            return ast.copy_location(copy.deepcopy(self.env[node.id]), node)
        return node


def subst(expr: ast.AST, env: dict[str, ast.AST]) -> ast.AST:
    """Substitute names (on a copy).  Comprehension variables / lambda parameters must be fresh."""
    if not env:
        return copy.deepcopy(expr)
    return _Subst(env).visit(copy.deepcopy(expr))


def rename(expr: ast.AST, mapping: dict[str, str]) -> ast.AST:
    expr = copy.deepcopy(expr)
    for n in ast.walk(expr):
        if isinstance(n, ast.Name) and n.id in mapping:
            n.id = mapping[n.id]
    return expr


def alias(expr: ast.AST, texts: Iterable[str], to: str) -> ast.AST:
    """Replace every sub-expression whose text is one of `texts` by the name `to` (on a copy)."""
    tset = set(texts)

    class A(ast.NodeTransformer):
        def generic_visit(self, node: ast.AST) -> ast.AST:
            if isinstance(node, ast.expr) and txt(node) in tset:
                return ast.copy_location(ast.Name(id=to, ctx=ast.Load()), node)
            return super().generic_visit(node)

    return A().visit(copy.deepcopy(expr))


def single_defs(fn: FuncNode) -> dict[str, ast.AST]:
    """name -> value for the locals bound exactly once in `fn` (by a plain or annotated assignment)."""
    count: dict[str, int] = {}
    vals: dict[str, ast.AST] = {}
    for p in _params_of(fn):
        count[p] = 1
    for a in (fn.args.vararg, fn.args.kwarg):
        if a is not None:
            count[a.arg] = 1
    for stmt in fn.body:
        for n in walk_no_nested(stmt):
            if isinstance(n, _FuncTypes + (ast.ClassDef,)):
                count[n.name] = count.get(n.name, 0) + 1
            elif isinstance(n, ast.Name) and isinstance(n.ctx, (ast.Store, ast.Del)):
                count[n.id] = count.get(n.id, 0) + 1
            elif isinstance(n, ast.ExceptHandler) and n.name:
                count[n.name] = count.get(n.name, 0) + 1
            elif isinstance(n, (ast.Global, ast.Nonlocal)):
                for nm in n.names:
                    count[nm] = 99
            elif isinstance(n, (ast.GeneratorExp, ast.ListComp, ast.SetComp, ast.DictComp)):
                # comprehension targets are their own scope: undo the count made by the Name visit
                for g in n.generators:
                    for t in ast.walk(g.target):
                        if isinstance(t, ast.Name):
                            count[t.id] = count.get(t.id, 0) - 1
            if isinstance(n, ast.Assign) and len(n.targets) == 1 and isinstance(n.targets[0], ast.Name):
                vals[n.targets[0].id] = n.value
            elif isinstance(n, ast.AnnAssign) and isinstance(n.target, ast.Name) and n.value is not None:
                vals[n.target.id] = n.value
    out: dict[str, ast.AST] = {}
    for k, v in vals.items():
        if count.get(k, 0) == 1 and not any(isinstance(x, (ast.Await, ast.Yield, ast.YieldFrom)) for x in ast.walk(v)) \
                and not any(isinstance(x, ast.Name) and x.id == k for x in ast.walk(v)):
            out[k] = freshen(copy.deepcopy(v))
    return out


def is_fresh_container(v: ast.AST) -> bool:
    """A value whose identity matters (it may be filled / mutated after the assignment)."""
    if isinstance(v, (ast.Dict, ast.Set, ast.List, ast.ListComp, ast.SetComp, ast.DictComp, ast.GeneratorExp)):
        return True
    return isinstance(v, ast.Call) and isinstance(v.func, ast.Name) and v.func.id in ("set", "dict", "list", "frozenset", "defaultdict")


def deref(expr: ast.AST, defs: dict[str, ast.AST], containers: bool = False, rounds: int = 8) -> ast.AST:
    """Substitute single-assignment locals into `expr` until nothing changes (on a copy).  Locals bound to
    a fresh container keep their name (identity matters) unless `containers` is set."""
    use = defs if containers else {k: v for k, v in defs.items() if not is_fresh_container(v)}
    cur = freshen(copy.deepcopy(expr))
    for _ in range(rounds):
        if not any(isinstance(n, ast.Name) and isinstance(n.ctx, ast.Load) and n.id in use for n in ast.walk(cur)):
            break
        cur = _Subst(use).visit(cur)
    return beta(cur)


def beta(expr: ast.AST) -> ast.AST:
    """Reduce immediately applied lambdas `(lambda x: e)(a)` -> e[a/x] (lambda parameters must be fresh)."""
    class B(ast.NodeTransformer):
        def visit_Call(self, node: ast.Call) -> ast.AST:  # noqa: N802
            self.generic_visit(node)
            f = node.func
            if isinstance(f, ast.Lambda) and not f.args.vararg and not f.args.kwarg and not f.args.kwonlyargs:
                binds = call_args(node, [a.arg for a in f.args.posonlyargs + f.args.args])
                if binds is not None and len(binds) == len(f.args.posonlyargs + f.args.args):
                    return ast.copy_location(_Subst(binds).visit(copy.deepcopy(f.body)), node)
            return node

    return B().visit(expr)


def pmap(fi: FuncInfo) -> dict[str, str]:
    """Parameters -> positional placeholders `%1`, `%2`, ... (self/cls is not numbered)."""
    ps = _params_of(fi.node)
    if fi.cls is not None and fi.outer is None and ps and ps[0] in ("self", "cls"):
        ps = ps[1:]
    return {p: f"%{i + 1}" for i, p in enumerate(ps)}


def call_args(call: ast.Call, params: list[str]) -> dict[str, ast.AST] | None:
    """Arguments keyed by parameter name (keyword and positional forms coincide); None if not decidable."""
    if any(isinstance(a, ast.Starred) for a in call.args) or any(k.arg is None for k in call.keywords) \
            or len(call.args) > len(params):
        return None
    out: dict[str, ast.AST] = dict(zip(params, call.args))
    for k in call.keywords:
        if k.arg in out:
            return None
        out[k.arg] = k.value  # type: ignore[index]
    return out


# ------------------------------------------------------------------ symbolic return expression
class _Raise:
    pass


RAISE = _Raise()


class Folder:
    """Return expression of loop-free functions, private helpers expanded (depth-limited)."""

    def __init__(self, prog: Program, keep: Iterable[str] = (), max_depth: int = 4) -> None:
        self.prog = prog
        self.keep = set(keep) | set(ANCHOR_NAMES)  # callees the rules bind to by name: never expanded
        self.max_depth = max_depth
        self.mark_raise = False  # keep `if c: raise` guards as `RAISE if c else ...` instead of dropping them

    # -- helper resolution (same policy as engine.normalize: private, not an anchored function, not overridden)
    def _helper(self, fi: FuncInfo, call: ast.Call, nested: dict[str, FuncNode]) -> FuncInfo | None:
        f = call.func
        if isinstance(f, ast.Name):
            if f.id in nested:
                return FuncInfo(f.id, fi.module, nested[f.id], None, fi)
            if f.id.startswith("_") and f.id in fi.module.functions:
                return fi.module.functions[f.id]
            return None
        cls = fi.cls if fi.cls is not None else (fi.outer.cls if fi.outer is not None else None)
        if isinstance(f, ast.Attribute) and isinstance(f.value, ast.Name) and cls is not None \
                and f.attr.startswith("_") and not f.attr.startswith("__") and f.attr not in self.keep \
                and (f.value.id in ("self", "cls") or f.value.id == cls.name):
            m = self.prog.resolve_method(cls, f.attr)
            if m is not None and not any(f.attr in sub.methods for sub in self.prog.subclasses(cls)):
                return m
        return None

    def expr(self, e: ast.AST, env: dict[str, ast.AST], fi: FuncInfo, nested: dict[str, FuncNode], depth: int) -> ast.AST:
        folder = self

        class X(ast.NodeTransformer):
            def visit_Name(self, node: ast.Name) -> ast.AST:  # noqa: N802
                if isinstance(node.ctx, ast.Load) and node.id in env:
                    return ast.copy_location(copy.deepcopy(env[node.id]), node)
                return node

            def visit_Call(self, node: ast.Call) -> ast.AST:  # noqa: N802
                h = folder._helper(fi, node, nested) if depth < folder.max_depth else None
                self.generic_visit(node)
                if isinstance(node.func, ast.Lambda):
                    return beta(node)
                if h is None or h.name in folder.keep or h.node is fi.node:
                    return node
                ps = _params_of(h.node)
                if h.cls is not None and h.outer is None and ps and ps[0] in ("self", "cls") and not any(
                        isinstance(d, ast.Name) and d.id == "staticmethod" for d in h.node.decorator_list):
                    ps = ps[1:]
                binds = call_args(node, ps)
                if binds is None:
                    return node
                a = h.node.args
                pos = a.posonlyargs + a.args
                defaults: dict[str, ast.AST] = dict(zip([x.arg for x in pos][len(pos) - len(a.defaults):], a.defaults))
                defaults.update({x.arg: d for x, d in zip(a.kwonlyargs, a.kw_defaults) if d is not None})
                for p in ps:
                    if p not in binds:
                        if p not in defaults:
                            return node
                        binds[p] = copy.deepcopy(defaults[p])
                try:
                    clo = env if h.outer is not None else None  # a nested def sees the caller's locals
                    return ast.copy_location(folder.ret_expr(h, binds=binds, closure=clo, depth=depth + 1), node)
                except AnalysisError:
                    return node

        return X().visit(freshen(copy.deepcopy(e)))

    def ret_expr(self, fi: FuncInfo, binds: dict[str, ast.AST] | None = None,
                 closure: dict[str, ast.AST] | None = None, depth: int = 0) -> ast.AST:
        node = freshen(copy.deepcopy(fi.node))
        if isinstance(node, ast.AsyncFunctionDef):
            raise AnalysisError(f"cannot fold async function {fi.qual}")
        nested = {n.name: n for s in node.body for n in walk_no_nested(s) if isinstance(n, _FuncTypes)}
        own = set(_params_of(node)) | {n.id for n in ast.walk(node) if isinstance(n, ast.Name) and isinstance(n.ctx, ast.Store)}
        env: dict[str, ast.AST] = {k: v for k, v in (closure or {}).items() if k not in own}
        env.update(binds or {})
        fi2 = FuncInfo(fi.name, fi.module, node, fi.cls, fi.outer)
        res = self._block(node.body, env, fi2, nested, depth)
        if res is None or res is RAISE:
            raise AnalysisError(f"{fi.qual} has no return value to fold")
        return res  # type: ignore[return-value]

    def _block(self, stmts: list[ast.stmt], env: dict[str, ast.AST], fi: FuncInfo,
               nested: dict[str, FuncNode], depth: int) -> Any:
        for i, s in enumerate(stmts):
            if isinstance(s, (ast.Expr, ast.Pass, ast.Assert, ast.Import, ast.ImportFrom, ast.ClassDef) + _FuncTypes):
                continue
            if isinstance(s, ast.Assign) and len(s.targets) == 1 and isinstance(s.targets[0], ast.Name):
                env[s.targets[0].id] = self.expr(s.value, env, fi, nested, depth)
                continue
            if isinstance(s, ast.AnnAssign) and isinstance(s.target, ast.Name):
                if s.value is not None:
                    env[s.target.id] = self.expr(s.value, env, fi, nested, depth)
                continue
            if isinstance(s, ast.AugAssign) and isinstance(s.target, ast.Name):
                left = env.get(s.target.id, ast.Name(id=s.target.id, ctx=ast.Load()))
                env[s.target.id] = ast.BinOp(left=copy.deepcopy(left), op=s.op, right=self.expr(s.value, env, fi, nested, depth))
                continue
            if isinstance(s, (ast.Assign, ast.AnnAssign, ast.AugAssign, ast.Delete)):
                # other targets (attributes, subscripts, tuples): the names involved become opaque
                for n in ast.walk(s):
                    if isinstance(n, ast.Name) and isinstance(n.ctx, (ast.Store, ast.Del)):
                        env.pop(n.id, None)
                continue
            if isinstance(s, ast.Return):
                return self.expr(s.value, env, fi, nested, depth) if s.value is not None else ast.Constant(None)
            if isinstance(s, ast.Raise):
                return RAISE
            if isinstance(s, ast.If):
                t = self.expr(s.test, env, fi, nested, depth)
                e1, e2 = dict(env), dict(env)
                r1 = self._block(s.body, e1, fi, nested, depth)
                r2 = self._block(s.orelse, e2, fi, nested, depth)
                rest = stmts[i + 1:]
                if r1 is None and r2 is None:
                    for k in set(e1) | set(e2):
                        v1 = e1.get(k, ast.Name(id=k, ctx=ast.Load()))
                        v2 = e2.get(k, ast.Name(id=k, ctx=ast.Load()))
                        env[k] = v1 if ast.dump(v1) == ast.dump(v2) else ast.IfExp(test=copy.deepcopy(t), body=v1, orelse=v2)
                    continue
                if r1 is None:
                    r1 = self._block(rest, e1, fi, nested, depth)
                if r2 is None:
                    r2 = self._block(rest, e2, fi, nested, depth)
                if self.mark_raise and (r1 is RAISE) != (r2 is RAISE):
                    mark = ast.Name(id="RAISE", ctx=ast.Load())
                    other = r2 if r1 is RAISE else r1
                    other = ast.Constant(None) if other is None else other
                    return ast.IfExp(test=t, body=mark if r1 is RAISE else other, orelse=other if r1 is RAISE else mark)
                if r1 is RAISE:
                    return r2
                if r2 is RAISE:
                    return r1
                r1 = ast.Constant(None) if r1 is None else r1
                r2 = ast.Constant(None) if r2 is None else r2
                if ast.dump(r1) == ast.dump(r2):
                    return r1
                return ast.IfExp(test=t, body=r1, orelse=r2)
            if isinstance(s, (ast.With,)):
                r = self._block(s.body, env, fi, nested, depth)
                if r is not None:
                    return r
                continue
            # loops / try / match: not folded; a return inside cannot be expressed
            if any(isinstance(n, ast.Return) for n in walk_no_nested(s)):
                raise AnalysisError(f"{fi.qual}: return inside a compound statement cannot be folded")
            for n in walk_no_nested(s):
                if isinstance(n, ast.Name) and isinstance(n.ctx, (ast.Store, ast.Del)):
                    env.pop(n.id, None)
        return None


def closure_env(outer: FuncNode) -> dict[str, ast.AST]:
    """What a nested function sees of its enclosing function's single-assignment locals."""
    defs = single_defs(outer)
    return {k: deref(v, defs) for k, v in defs.items()}


def resolve_callable(folder: Folder, fi: FuncInfo, expr: ast.AST, defs: dict[str, ast.AST]) -> ast.AST:
    """A one-argument callable value as an expression over the placeholder name `%1`."""
    e = expr
    for _ in range(6):
        if isinstance(e, ast.Name) and e.id in defs:
            e = defs[e.id]
        else:
            break
    clo = closure_env(fi.node)
    ph = ast.Name(id="%1", ctx=ast.Load())
    if isinstance(e, ast.Lambda):
        lam = freshen(copy.deepcopy(e))
        ps = _params_of(lam)
        if len(ps) != 1 or lam.args.vararg or lam.args.kwarg:
            raise AnalysisError(f"callable `{txt(expr)}` does not take exactly one argument")
        nested = {n.name: n for s in fi.node.body for n in walk_no_nested(s) if isinstance(n, _FuncTypes)}
        env = dict(clo)
        env[ps[0]] = ph
        return folder.expr(lam.body, env, fi, nested, 0)
    if isinstance(e, ast.Name):
        for s in fi.node.body:
            for n in walk_no_nested(s):
                if isinstance(n, _FuncTypes) and n.name == e.id:
                    ps = _params_of(n)
                    if len(ps) != 1:
                        raise AnalysisError(f"callable `{e.id}` does not take exactly one argument")
                    nf = FuncInfo(n.name, fi.module, n, None, fi)
                    return folder.ret_expr(nf, binds={ps[0]: ph}, closure=clo)
        if e.id in fi.module.functions:
            mf = fi.module.functions[e.id]
            ps = _params_of(mf.node)
            if len(ps) != 1:
                raise AnalysisError(f"callable `{e.id}` does not take exactly one argument")
            return folder.ret_expr(mf, binds={ps[0]: ph})
        raise AnalysisError(f"cannot resolve callable `{txt(expr)}` in {fi.qual}")
    if isinstance(e, ast.Attribute):
        recv = deref(e, defs)
        call = ast.Call(func=recv, args=[ph], keywords=[])
        nested = {n.name: n for s in fi.node.body for n in walk_no_nested(s) if isinstance(n, _FuncTypes)}
        return folder.expr(call, {}, fi, nested, 0)
    raise AnalysisError(f"cannot resolve callable `{txt(expr)}` in {fi.qual}")


# ------------------------------------------------------------------ canonical boolean form
def _mk(op: str, kids: Iterable[Any]) -> Any:
    """Flattened, constant-folded n-ary and/or."""
    absorbing = ("const", op == "or")
    neutral = ("const", op == "and")
    out: set[Any] = set()
    for k in kids:
        if k == absorbing:
            return absorbing
        if k == neutral:
            continue
        if isinstance(k, tuple) and k and k[0] == op:
            out |= set(k[1])
        else:
            out.add(k)
    if not out:
        return neutral
    if len(out) == 1:
        return next(iter(out))
    return (op, frozenset(out))


def _neg_atom(c: Any) -> Any:
    if isinstance(c, tuple) and c and c[0] == "not":
        return c[1]
    return ("not", c)


def _literal_members(e: ast.AST) -> frozenset[str] | None:
    if isinstance(e, (ast.Set, ast.Tuple, ast.List)):
        return frozenset(txt(x) for x in e.elts)
    if isinstance(e, ast.Call) and isinstance(e.func, ast.Name) and e.func.id in ("set", "frozenset", "tuple", "list") \
            and len(e.args) == 1 and not e.keywords:
        return _literal_members(e.args[0])
    return None


def _int_const(e: ast.AST) -> int | None:
    if isinstance(e, ast.Constant) and isinstance(e.value, int) and not isinstance(e.value, bool):
        return e.value
    return None


def _len_arg(e: ast.AST) -> ast.AST | None:
    if isinstance(e, ast.Call) and isinstance(e.func, ast.Name) and e.func.id == "len" and len(e.args) == 1 and not e.keywords:
        return e.args[0]
    return None


def _cmp(left: ast.AST, op: ast.cmpop, right: ast.AST, neg: bool) -> Any:
    # len(x) against an integer constant: emptiness
    for a, b, flip in ((left, right, False), (right, left, True)):
        la, k = _len_arg(a), _int_const(b)
        if la is not None and k is not None:
            o = type(op)
            if flip:
                o = {ast.Lt: ast.Gt, ast.Gt: ast.Lt, ast.LtE: ast.GtE, ast.GtE: ast.LtE}.get(o, o)
            nonempty = None
            if (o, k) in ((ast.Gt, 0), (ast.GtE, 1), (ast.NotEq, 0)):
                nonempty = True
            elif (o, k) in ((ast.Eq, 0), (ast.Lt, 1), (ast.LtE, 0)):
                nonempty = False
            if nonempty is not None:
                base = ("nonempty", txt(la))
                return base if nonempty != neg else ("not", base)
    a, b = txt(left), txt(right)
    if isinstance(op, (ast.Is, ast.IsNot)):
        return ("is" if isinstance(op, ast.Is) != neg else "isnot", frozenset((a, b)))
    if isinstance(op, (ast.Eq, ast.NotEq)):
        return ("==" if isinstance(op, ast.Eq) != neg else "!=", frozenset((a, b)))
    if isinstance(op, (ast.In, ast.NotIn)):
        members = _literal_members(right)
        return ("in" if isinstance(op, ast.In) != neg else "notin", a, members if members is not None else b)
    if isinstance(op, ast.Lt):
        base: Any = ("<", a, b)
    elif isinstance(op, ast.Gt):
        base = ("<", b, a)
    elif isinstance(op, ast.LtE):
        base = ("<=", a, b)
    elif isinstance(op, ast.GtE):
        base = ("<=", b, a)
    else:
        base = ("cmp", type(op).__name__, a, b)
    return ("not", base) if neg else base


def bcanon(expr: ast.AST, neg: bool = False, depth: int = 0) -> Any:
    """Canonical form of `expr` read as a truth value (two-valued logic; order comparisons are not
    complemented, see `totalise`)."""
    if isinstance(expr, ast.BoolOp):
        is_and = isinstance(expr.op, ast.And) != neg
        return _mk("and" if is_and else "or", [bcanon(v, neg, depth) for v in expr.values])
    if isinstance(expr, ast.UnaryOp) and isinstance(expr.op, ast.Not):
        return bcanon(expr.operand, not neg, depth)
    if isinstance(expr, ast.IfExp):
        t, nt = bcanon(expr.test, False, depth), bcanon(expr.test, True, depth)
        a, b = bcanon(expr.body, neg, depth), bcanon(expr.orelse, neg, depth)
        # `True if t else b` == t or b, `a if t else False` == t and a, ... (so early `return True/False`
        # guards read like the and/or chain they abbreviate)
        if a == ("const", True):
            return _mk("or", [t, b])
        if a == ("const", False):
            return _mk("and", [nt, b])
        if b == ("const", True):
            return _mk("or", [nt, a])
        if b == ("const", False):
            return _mk("and", [t, a])
        return _mk("or", [_mk("and", [t, a]), _mk("and", [nt, b])])
    if isinstance(expr, ast.Compare):
        parts = []
        left = expr.left
        for op, right in zip(expr.ops, expr.comparators):
            parts.append(_cmp(left, op, right, neg))
            left = right
        return _mk("or" if neg else "and", parts)
    if isinstance(expr, ast.Constant) and isinstance(expr.value, bool):
        return ("const", expr.value != neg)
    if isinstance(expr, ast.Call) and isinstance(expr.func, ast.Name) and not expr.keywords and len(expr.args) == 1:
        if expr.func.id == "bool":
            return bcanon(expr.args[0], neg, depth)
        if expr.func.id in ("all", "any") and isinstance(expr.args[0], (ast.GeneratorExp, ast.ListComp, ast.SetComp)) \
                and len(expr.args[0].generators) == 1 and not expr.args[0].generators[0].is_async \
                and isinstance(expr.args[0].generators[0].target, ast.Name):
            comp = expr.args[0]
            g = comp.generators[0]
            var = f"?{depth}"
            ren = {g.target.id: var}  # type: ignore[union-attr]
            is_all = (expr.func.id == "all") != neg
            elt = bcanon(rename(comp.elt, ren), neg, depth + 1)
            # all(P for x in S if Q) == for all x in S: not Q or P;  any(...) == exists x in S: Q and P
            guards = [bcanon(rename(c, ren), is_all, depth + 1) for c in g.ifs]
            body = _mk("or" if is_all else "and", guards + [elt])
            return ("all" if is_all else "any", txt(g.iter), body)
    base = ("truthy", txt(expr))
    return ("not", base) if neg else base


def totalise(c: Any) -> Any:
    """For totally ordered operands (ints): `not a < b` == `b <= a`."""
    if isinstance(c, tuple) and c and c[0] == "not":
        inner = c[1]
        if isinstance(inner, tuple) and inner[0] == "<":
            return ("<=", inner[2], inner[1])
        if isinstance(inner, tuple) and inner[0] == "<=":
            return ("<", inner[2], inner[1])
        return ("not", totalise(inner))
    if isinstance(c, tuple) and c and c[0] in ("and", "or"):
        return (c[0], frozenset(totalise(k) for k in c[1]))
    return c


def facts(c: Any) -> set[Any]:
    """Atoms that certainly hold when the canonical form `c` holds."""
    if isinstance(c, tuple) and c and c[0] == "and":
        return set(c[1])
    return {c}


# ------------------------------------------------------------------ CFG conveniences
def normal(_a: int, _b: int, lab: str) -> bool:
    return not lab.startswith("exc:")


Edge = tuple[int, int, str]


def test_edges(cfg: CFG, within: set[int] | None = None) -> list[tuple[Edge, ast.AST, bool]]:
    """(edge, test expression, negated?) for the true/false edges of `if`/`while` tests."""
    out = []
    for n in cfg.nodes:
        if n.ast is None or n.kind not in ("test", "while") or (within is not None and n.id not in within):
            continue
        test = n.ast if n.kind == "test" else n.ast.test  # type: ignore[attr-defined]
        for m, lab in cfg.succ[n.id]:
            if lab in ("true", "false"):
                out.append(((n.id, m, lab), test, lab == "false"))
    return out


def edges_establishing(cfg: CFG, atom_ok: Callable[[Any], bool], prep: Callable[[ast.AST], ast.AST],
                       within: set[int] | None = None, total: bool = False) -> list[Edge]:
    """Edges of test nodes on which some atom accepted by `atom_ok` is known to hold."""
    out = []
    for edge, test, neg in test_edges(cfg, within):
        c = bcanon(prep(test), neg)
        if total:
            c = totalise(c)
        if any(atom_ok(a) for a in facts(c)):
            out.append(edge)
    return out


def path_avoiding_edges(cfg: CFG, srcs: Iterable[int], dsts: Iterable[int], edges: Iterable[Edge],
                        avoid: Iterable[int] = ()) -> bool:
    """Is there a normal path from one of `srcs` to one of `dsts` that takes none of `edges`?"""
    es = set(edges)
    dst = set(dsts)
    ok = lambda a, b, lab: normal(a, b, lab) and (a, b, lab) not in es  # noqa: E731
    for s in srcs:
        if s in dst:
            return True
        if cfg.path(s, dst, avoid=avoid, edge_ok=ok) is not None:
            return True
    return False


def emptiness(c: Any) -> tuple[str, bool] | None:
    """(collection text, is-empty?) if the canonical atom states the truthiness / non-emptiness of something."""
    empty = False
    if isinstance(c, tuple) and c and c[0] == "not":
        empty, c = True, c[1]
    if isinstance(c, tuple) and len(c) == 2 and c[0] in ("truthy", "nonempty") and isinstance(c[1], str):
        return c[1], empty
    return None


def size_subject(c: Any) -> str | None:
    """X if the canonical atom compares `len(X)` with something (any size test other than emptiness)."""
    if isinstance(c, tuple) and c and c[0] == "not":
        return size_subject(c[1])
    if not isinstance(c, tuple):
        return None
    for part in c[1:]:
        for x in (part if isinstance(part, frozenset) else [part]):
            if isinstance(x, str) and x.startswith("len(") and x.endswith(")") and x.count("(") == x.count(")"):
                return x[4:-1]
    return None


def literals(test: ast.AST, neg: bool = False) -> list[tuple[ast.AST, bool]]:
    """(expression, holds?) for the literals that certainly hold when `test` (negated if `neg`) holds."""
    if isinstance(test, ast.UnaryOp) and isinstance(test.op, ast.Not):
        return literals(test.operand, not neg)
    if isinstance(test, ast.BoolOp) and isinstance(test.op, ast.And) != neg:
        return [x for v in test.values for x in literals(v, neg)]
    return [(test, not neg)]
